#!/usr/bin/env python3
"""Generate /verif/MANIFEST.json from the tables below and validate it."""
import json
import os
import sys

VERIF = os.path.dirname(os.path.dirname(os.path.abspath(__file__)))

TECH = "static analysis over rustc MIR/HIR facts (custom rustc_private driver): "

CLAIMED = {
    "C01": dict(
        technique=TECH + "strict-guard dominance with per-iteration freshness on pointer follow sites, "
        "bounded-progress guard on every CFG cycle of the name walkers, post-dominating count writes in the "
        "section iterators, sub-parser dataflow identity, typestate who-may-construct/write audit, interval "
        "check of validator guards, wire-rooted narrow-overflow and explicit-panic reachability audit",
        text="Decides structural necessary conditions of C01: every compression pointer that becomes a read "
        "position is strictly backward-guarded against the current position on every iteration (or lies in a "
        "typestate-trusting function whose constructors are restricted); every loop of the name walkers passes "
        "a bounded-progress guard; section iterators fuse; record data is parsed from an RDLENGTH-limited "
        "sub-parser with a dominating trailing-data check; the NSEC window validator admits only what the "
        "unchecked iterator can read; no unguarded narrow arithmetic on header counts; no explicit panic macro "
        "under a wire-derived branch and no unaudited unwrap of a parse result in 890+ bodies reachable from "
        "the read-side API. a wire-derived range end into a fixed-size buffer is dominated by a bound <= the buffer length; ParsedName::skip and parse accept the same maximum name length; no accessor of Txt reads octet 0 without establishing it exists (zero-length TXT data is accepted from the wire). Absence of all panics and termination of every rdata parser are not decided.",
        design_ref="DESIGN.md §4 C01",
    ),
    "C02": dict(
        technique=TECH + "CFG dominance / must-pass-through (rollback on error, shim post-domination), "
        "bound-guard dataflow on stored compression positions, sibling/section tables",
        text="Decides structural necessary conditions of C02 on every path of the anchored functions: "
        "MessageBuilder::push rolls back to the saved length on every failure exit and counts only "
        "after limit and append checks; each section builder increments its own header count; "
        "StreamTarget rewrites the length shim after every length change; every compression position "
        "that can be OR-ed with 0xC000 was stored behind a guard <= 0x4000; compressors forget "
        "positions on truncate; RDLENGTH back-patch shape. record types whose compose compresses a name return None for rdlen(compress = true). Does not decide value-level round-trip "
        "equality.",
        design_ref="DESIGN.md §4 C02",
    ),
    "C03": dict(
        technique=TECH + "linear-inequality step over the guards on every success path of the builders, "
        "finite decision tree over one octet for label-type classifiers and Display-vs-reader escaping, "
        "unchecked-constructor audit (validator dominance / re-wrap typing / unsafe propagation / audited)",
        text="Decides structural necessary conditions of C03: on every success path of NameBuilder's appending "
        "methods the guards taken imply len+appended <= 254 (255 absolute) and label payload <= 63 "
        "(CharStrBuilder <= 255); append_label/append_name restore head on error; parse_ref caps the "
        "accumulated length at exactly 254 in both phases (sibling agreement), skip accepts exactly 255 in total, check_slice uses 255/254; the "
        "label-type classifiers map exactly 0x00..0x3F to labels and 0xC0..0xFF to pointers (all 256 octets "
        "enumerated); every call of an unsafe constructor of Name/RelativeName/Label/CharStr is "
        "validator-dominated, a re-wrap of a validated value, inside an unsafe fn, or audited with a reason; "
        "Label's Display prints raw only octets the reader accepts unescaped (all 256 octets). NameBuilder methods call end_label while head still names the label; ParsedName.compressed is false only if no pointer was followed after the first counted label; Name::slice/range refuse ranges that reach the root label; the zone-file label converter admits exactly 63 payload octets. One known "
        "findingOne known "
        "finding (off-by-one pinned by a test). Round-trip equality is not decided.",
        design_ref="DESIGN.md §4 C03",
    ),
    "C04": dict(
        technique=TECH + "field-set coherence of every Eq/Hash/Ord/CanonicalOrd impl, same-field pairing of "
        "every comparison, case-fold primitive identity, label-wise hashing/comparison of name types, "
        "canonical_cmp order vs canonical compose signature (sibling-signature engine)",
        text="Decides structural necessary conditions of C04 universally over types: for every ADT, Hash "
        "reads no field PartialEq ignores and orderings read the fields equality reads (derived and manual "
        "impls alike, ~320 impl pairs); every comparison inside eq/cmp/canonical_cmp pairs the same field of "
        "self and other (~690 sites); Label eq/cmp/hash and the canonical forms fold case with ASCII "
        "lower-casing only; Hash/Eq/Ord of all name types are label-wise, never over raw octets; each record "
        "type's canonical_cmp compares fields in canonical wire order with the comparator matching the "
        "canonical encoding of the field; Record::canonical_cmp is class, owner, type, rdata. per field, the kind of value hashed equals the kind of value compared (a field compared as CharStr or name is never hashed as raw octets); ParsedName.compressed provenance (shared with C03). Transitivity "
        "for all valuesTransitivity "
        "for all values and RFC 4034 6.1 itself are not decided.",
        design_ref="DESIGN.md §4 C04",
    ),
    "C05": dict(
        technique=TECH + "sibling codec signatures extracted from MIR success paths (resolved callees + field "
        "identities): parse vs compose vs compressing compose vs canonical compose vs rdlen; RFC 4034 6.2 / "
        "RFC 6840 5.1 lower-casing table; evaluated RTYPE constants vs IANA",
        text="Decides structural necessary conditions of C05 for 36 record types: parse reads the fields "
        "compose_rdata writes, in the same order with compatible codecs; the compressing path differs only in "
        "name encoding; the canonical form differs from the plain form exactly by lower-casing the names the "
        "RFCs list; rdlen's fixed part equals the sum of the fixed field widths and its variable part names "
        "the same fields; each type tests and reports its own RTYPE, equal to the IANA number and pairwise "
        "distinct; enum dispatchers call the same-named method per variant with an opaque fallback. types that compress names announce no length for rdlen(true); pointer-like forwarding impls (&T, Box<T>, ...) of the codec traits forward each method to the same-named method. Types "
        "the extractor cannot modelTypes "
        "the extractor cannot model are listed as undecided in the evidence. Value equality after a "
        "round-trip is not decided.",
        design_ref="DESIGN.md §4 C05",
    ),
    "C06": dict(
        technique=TECH + "sibling field-order agreement of Scan and ZonefileFmt/Display, finite octet sets of the "
        "label writer vs the reader's delimiter classifier, mnemonic-table disjointness, straight-line symbolic "
        "evaluation of the reader's label cursor cap",
        text="Decides structural necessary conditions of C06: for each record type whose scan constructor is "
        "resolvable, Scan reads the fields in the order ZonefileFmt writes them; every octet the entry reader "
        "(Symbol::is_word_char and friends) treats as a delimiter, quote, comment or escape is escaped by "
        "Label's Display; no mnemonic is emitted for a Class that the reader resolves as an Rtype (or vice versa); "
        "convert_label admits labels up to exactly 63 octets. every FormatWriter writes `(` in begin_block under the same condition as `)` in end_block; convert_entry converts a token only after establishing that the entry has not ended. Value-level round-trip equality over all recordValue-level round-trip equality over all record "
        "sets is not decided.",
        design_ref="DESIGN.md §4 C06",
    ),
    "C07": dict(
        technique=TECH + "finite octet decision tree of the item categoriser (all 256 octets), guard dominance on the "
        "parenthesis depth, stored-value provenance of owner/class/TTL inheritance, typed unwrap / explicit-panic audit",
        text="Decides narrow structural necessary conditions of C07: SourceBuf::next_item classifies every octet as the "
        "presentation format says (space/tab/CR skipped, `(` `)` grouping, `;` comment, LF end of entry, `\"` quoted, "
        "everything else unquoted); `)` decrements the depth only behind depth > 0 and LF ends an entry only at depth 0; "
        "an entry starting with white space takes the last owner without replacing it, an explicit class/TTL is used and "
        "remembered, a missing TTL falls back to $TTL then to the last TTL; no unwrap of a conversion error and no explicit "
        "panic under a branch on file content (categoriser-typestate sites audited). Termination and totality for all byte "
        "strings, the in-place cursor invariant and layout independence as a relation are not decided.",
        design_ref="DESIGN.md §10.9 C07",
    ),
    "C08": dict(
        technique=TECH + "arm tables of the zone read path (node state x position -> answer kind), exact-before-wildcard "
        "lookup dominance, constructor constant tables of NodeAnswer",
        text="Decides narrow structural necessary conditions of C08: at the queried name a cut goes to query_at_cut, a CNAME "
        "marker to a CNAME answer, the NXDOMAIN marker to NXDOMAIN, an ordinary node to the RRset lookup; on the way down a "
        "cut yields the referral (NS, DS, glue; no descent), the NXDOMAIN marker NXDOMAIN, other nodes descend; DS at a cut "
        "is answered from the parent side, other types get the referral; the exact child is searched before the wildcard "
        "child, a wildcard match answers for the wildcard node itself and never descends, no match is NXDOMAIN; present "
        "RRset = data, absent = NODATA; NODATA/NXDOMAIN ask for the SOA with the right RCODE, referrals are not "
        "authoritative. Correctness for every zone content, closest-encloser wildcard applicability, empty non-terminals "
        "and independence from the update history are not decided.",
        design_ref="DESIGN.md §10.9 C08",
    ),
    "C13": dict(
        technique=TECH + "must-pass-through of mandatory bitmap types, guard tables of the cut / in-zone / opt-out "
        "decisions, chain-closing dataflow (next name / next hash provenance), parameter provenance of every NSEC3 record",
        text="Decides narrow structural necessary conditions of C13: every NSEC bitmap had RRSIG and NSEC added, NSEC3 adds "
        "RRSIG only for authoritative owners and NSEC3PARAM at the apex; at a cut only NS and DS of the owner's own types are "
        "listed; owners at or below the current cut are skipped, a cut is a non-apex owner with NS, the walk stops outside the "
        "zone; inside the walk each NSEC points to the current owner and the last one back to the apex; NSEC3 records are "
        "sorted canonically and de-duplicated before linking, each next hash comes from the following record and the last "
        "from the first; every NSEC3 (owners and empty non-terminals) is built from the configured algorithm, flags, "
        "iterations and salt and hashed with the same values; opt-out excludes only (flag, cut, no DS). Completeness of the "
        "chain for every zone, hash values and proofs of absence are not decided.",
        design_ref="DESIGN.md §10.9 C13",
    ),
    "C16": dict(
        technique=TECH + "dataflow of the negotiated UDP limit (max/clamp/min call structure), guard dominance of the "
        "truncation path, request-derived reply construction, written-slice provenance per transport, typed unwrap / "
        "explicit-panic audit",
        text="Decides narrow structural necessary conditions of C16: the EDNS middleware stores min(max(512, client size), "
        "server hint clamped to [512, client size]) as the UDP limit; the mandatory middleware truncates only when the "
        "response is longer than that limit (512 without a hint), sets TC and replaces the response by header + question + "
        "OPT; error replies are started from the request (ID, question); stream connections write the length-prefixed slice, "
        "the datagram server the bare message; no unwrap of a parse result and no explicit panic under request content in "
        "the anchored server files. Exactly-once delivery, liveness, pipelining and connection aborts are not decided.",
        design_ref="DESIGN.md §10.9 C16",
    ),
    "C09": dict(
        technique=TECH + "version-argument provenance dataflow on read and write paths, who-may-write audit of "
        "version fields, lock-before-version dominance in the async writer constructor (pre-transform coroutine "
        "MIR), field-coverage of rollback/remove_all, guard table of the Versioned container",
        text="Decides structural necessary conditions of C09: every version handed to a read-side accessor is "
        "the reader's pinned self.version; ReadZone.version is written only at construction and the current "
        "version moves only through update_current <- publish <- commit; every WriteNode mutation carries "
        "self.zone.new_version; in ZoneApex::write the writer's version is read and the WriteZone built only "
        "after the update-lock await completed and the guard is moved into the writer; rollback/remove_all "
        "cover every versioned field and recurse; a dirty writer's Drop rolls back new_version; "
        "Versioned::remove/rollback/update/get keep their guard table (pop only the sole same-version entry, "
        "tombstone otherwise, newest entry <= reader version). The multi-version algebra over arbitrary "
        "operation sequences and real-thread schedules are not decided.",
        design_ref="DESIGN.md §4 C09",
    ),
    "C10": dict(
        technique=TECH + "checked-call dominance of the response sanity check, guard table of check_response, "
        "wire-derived panic audit, arm-identity dominance of commit in the updater, shared rollback-coverage rules",
        text="Decides narrow structural necessary conditions of C10: XfrResponseInterpreter interprets or stores a "
        "response only after check_response succeeded; check_response returns Ok only behind not-error, QR, "
        "opcode QUERY, not TC, ANCOUNT>0, NSCOUNT==0 and the QDCOUNT rule; a first response without an AXFR/IXFR "
        "question is an error, not a panic; no explicit panic or unwrap of a parse result under response-derived "
        "branches in net::xfr::protocol; ZoneUpdater::apply commits only in the BeginBatchDelete and Finished arms "
        "(after the SOA update), rejects updates once finished, and nobody else commits the writer; abandoned work "
        "is rolled back (rollback/remove_all field coverage, Drop of a dirty writer, Versioned guard table - rules "
        "shared with C09). The closing SOA is compared with the opening SOA as a whole record; the old side of the recorded diff is read at the last published version in update_rrset and remove_rrset alike. Fidelity of reconstruction, diff algebra and batching are not decided.",
        design_ref="DESIGN.md §4 C10",
    ),
    "C11": dict(
        technique=TECH + "guard-table dominance on all four verification paths, dataflow provenance of the "
        "digested octets, array-width extraction of digest inputs, error-variant to RCODE coverage",
        text="Decides structural necessary conditions of C11: ClientTransaction::answer, "
        "ClientSequence::answer_first/answer_subsequent and SigningContext::server_request reach remove_tsig/Ok "
        "only through the success edges of TSIG extraction+key check, compare_signatures and the time check; "
        "the MAC is computed over the header copy with the original ID restored and ARCOUNT-1 followed by "
        "message[12..tsig.start], and compared with the record's MAC; compare_signatures uses min_mac_len as "
        "truncation floor and a constant-time comparison only; TSIG must be last and unique; the unsigned-run "
        "counter is a guarded increment (<100) reset on signed messages and checked by done(); digest input "
        "widths equal wire widths (other data 6 == announced Other Len); every ValidationError variant "
        "compare_signatures can return is mapped to its RFC 8945 RCODE. Time48::eq_fudged is true only inside a two-sided window (linear form of both guards); the key name enters the digest in canonical form; every MAC chained into a later digest is the MAC as transmitted (Key::signature_slice or the received field). MAC values and multi-message chaining "
        "values are not decided.",
        design_ref="DESIGN.md §4 C11",
    ),
    "C12": dict(
        technique=TECH + "cross-function sibling signatures (signer's ProtoRrsig/Record canonical compose vs "
        "validator's signed_data), canonical-sort presence, structure of rrsig_label_count",
        text="Decides narrow structural necessary conditions of C12: the validator's RrsigExt::signed_data "
        "rebuilds the RRSIG RDATA prefix with the same eight fields, order and codecs the signer's "
        "ProtoRrsig::compose_canonical writes (signer name lower-cased); per RR it writes the owner through "
        "compose_canonical on every branch (only the literal wildcard label raw), then type, class, the RRSIG's "
        "original TTL and the canonical length-prefixed RDATA, matching Record::compose_canonical; both sides "
        "order RRs with canonical_cmp; rrsig_label_count tests only the leftmost label for `*` and the signer puts "
        "it into the Labels field. The scratch buffer is cleared on every path before the signed data is composed and is what sign_raw receives. Cryptography, key tags and DS digests are not decided.",
        design_ref="DESIGN.md §4 C12",
    ),
    "C14": dict(
        technique=TECH + "RFC 4035 5.3.1 guard-table dominance in check_sig, composition check of the signature "
        "cache key, operand-direction check of the NSEC delegation/DNAME exclusion, typed unwrap/expect audit over "
        "upstream-derived values",
        text="Decides narrow structural necessary conditions of C14: in Group::check_sig the cryptographic "
        "verification is dominated by all eleven RFC 4035 5.3.1 checks (owner, class, signer suffix, type covered, "
        "labels, expiration, inception, signer==key name, algorithm, key tag, zone flag) with their polarity, and "
        "the only non-false result is the verification's; the signature cache key covers signed data, full RRSIG "
        "RDATA and key, and stores check_sig's verdict; the NSEC non-existence proof tests target.ends_with(owner) "
        "before excluding delegation/DNAME owners; no unaudited unwrap/expect on parse/decode results derived from "
        "upstream content in any validator body; signature times use the RFC 1982 order. The digests in the signature-cache key read the buffers the RRSIG and DNSKEY RDATA were composed into; a DNSKEY is accepted as trust anchor only on whole-record equality (DS anchors: digest equality after a successful digest); the NSEC3 closest-encloser flag is re-decided on every iteration over the candidate names. Completeness of the chain "
        "walk and denial proofs in general are not decided.",
        design_ref="DESIGN.md §4 C14",
    ),
    "C15": dict(
        technique=TECH + "guard-table dominance over every is_answer implementation (discovered from the impl "
        "table), delivery-on-matching-edge in the stream demultiplexer and datagram loop (coroutine MIR), slot "
        "bookkeeping dominance in the outstanding-query table, TC-fallback edge",
        text="Decides structural necessary conditions of C15: every ComposeRequest/ComposeRequestMulti::is_answer "
        "returns true only behind QR set and ID equal, the header-only shortcut additionally behind an error RCODE "
        "and four zero counts, otherwise behind QDCOUNT equality with the question-section comparison as result; "
        "TSIG wrappers delegate; stream::demux_reply and the datagram loop construct Ok(answer) only on the true "
        "edge of is_answer/check_stream and look the waiter up by the reply's ID; the slot is removed before "
        "delivery, re-inserted only for streams; Queries adjusts count only when a slot was actually vacated / "
        "filled and bounds indices to 16 bits; a truncated datagram answer is retried over the stream and never "
        "returned. Every await in multi_stream::Request::get_response is wrapped in timeout(remaining, ..). Schedules, timeouts and exactly-once under cancellation are not decided.",
        design_ref="DESIGN.md §4 C15",
    ),
    "C17": dict(
        technique=TECH + "finite decision-tree enumeration of Serial::partial_cmp against the RFC 1982 "
        "table, guard dominance for add, who-may-compare-raw audit of all serial/timestamp uses",
        text="Decides C17 for the recognised implementation shape: all CFG paths of Serial::partial_cmp "
        "are enumerated and abstracted to the orderings they test (a?b, |a-b| ? 2^31) and must equal the "
        "RFC 1982 table; add wraps and is guarded by other<=2^31-1; Timestamp delegates; no Ord impl; "
        "no raw-integer ordering or checked subtraction of serials/signature times outside wire-order "
        "impls anywhere in the crate (all features).",
        design_ref="DESIGN.md §4 C17",
    ),
    "C18": dict(
        technique=TECH + "compiler-evaluated constant tables (const_eval) checked exhaustively for "
        "inverse/RFC 4648 agreement; sibling decoders must reference the same table constant",
        text="Decides the table clause of C18 exhaustively: every entry of the Base16 (256), Base32hex "
        "(128+32) and Base64 (128+64) alphabets, as evaluated by the compiler, is checked: decode is the "
        "inverse of encode, encode equals RFC 4648, nothing else decodes; all decoder/encoder siblings "
        "read those same constants. Sibling agreement of the incremental decoders on their finite state "
        "tables: Base32 tail lengths rejected == {1,3,6} (derived from 5n mod 8) in both decoders with "
        "floor(5n/8) octets emitted; Base64 end-of-group transitions (state 0 iff the 4th symbol is data, "
        "end-of-data iff padding) identical in Decoder::push and SymbolConverter::process_char, input "
        "after end-of-data rejected, unfinished group rejected. Bit-packing values and chunking "
        "independence are value-level and not decided.",
        design_ref="DESIGN.md §4 C18",
    ),
    "C19": dict(
        technique=TECH + "finite octet decision tree of the new decompressors, linear-form exactness of the "
        "label-length guards (sibling + cross-codec agreement), strict fresh backward guards in the new message "
        "parsers, linear bound (header included) and stamp formula in the new compressor, declaration-order layout",
        text="Decides structural necessary conditions of C19: both new parse_segment siblings classify the head "
        "octet exactly like the established codec (0x00 root, 0x01..0x3F label, 0xC0..0xFF pointer; all 256 octets) "
        "and mask pointers with 0x3FFF; their label-length guard is exactly size + l + 2 <= 255, the established "
        "parse_ref limit; all four new message-name parsers remove the 12-octet header and follow a pointer only "
        "strictly before the previous start, re-checked per pointer; NameCompressor registers a name only if every "
        "suffix offset + 12 fits 14 bits and stamps used entries with contents.len() + remaining length; header, "
        "counts, question and record structs list fields in wire order. Differential acceptance on all byte strings "
        "is not decided.",
        design_ref="DESIGN.md §4 C19",
    ),
    "C20": dict(
        technique=TECH + "expiry-guard dominance, TTL decrement dataflow per section, who-may-stamp created_at "
        "audit, arm-to-Config-field table of validity(), closure-capture provenance of the DNSSEC stripping",
        text="Decides structural necessary conditions of C20: Value::get_response serves only on the "
        "elapsed <= valid_for edge with the elapsed seconds as decrement; decrement_ttl sets ttl - amount in all "
        "three sections before copying (OPT excepted) and never adds; created_at = now() only in Value::new, which "
        "is called only with the upstream's fresh response, every derived entry inherits created_at; validity() "
        "caps NODATA/delegation/NXDOMAIN/other/transport failure by their own Config fields, folds every record "
        "TTL, gives zero for TC (unless configured) and weird answers; a hit under a key with more flags is "
        "returned and cached only after remove_dnssec/update_header, keyed on the requested key's AD flag; "
        "zero-validity values are never inserted. Clock behaviour and moka eviction are not decided.",
        design_ref="DESIGN.md §4 C20",
    ),
}

NOT_APPLICABLE = {
}

# clauses added in rounds 3 and 4 (DESIGN.md 10.10 / 10.11); appended to the texts above
EXTRA_TEXT = {
    "C18": " Also: the bit layout of every assembled octet equals RFC 4648's (C18.bits); process_tail is called once, after the loops (C18.split); an error returned by Decoder::push is recorded (C18.sticky); users of the Symbols iterator ask ok() (C18.symok). Also (round 12): encoder symbol bit layout equals RFC 4648 for every expression handed to the alphabet helper (C18.encbits); error values reaching any returned local of Decoder::push and its inlined helpers are recorded (C18.sticky). Also (round 15): every read of a 128-entry decode table is behind an index bound < 128 (C18.tabidx); the EndOfToken arm of a symbol converter changes no converter state (C18.eot).",
    "C19": " Also: the remainder handed back by the compressor's lookup is cut at a label boundary (C19.bound); hand-written parse functions refuse trailing octets (C19.whole); RevName writes its remainder label by label (C19.rev); a type compresses names only if its parser decompresses them (C19.cmpr); SizePrefixed siblings agree (C19.prefix); section counts rise only after a successful build (C19.rollback). Also (round 10): Name::cmp of the new codec decides by length only behind a label-structure fact (C19.lsuffix). Also (round 12): the record-data dispatcher decompresses what the builders compress (C19.dispatch); HeaderFlags setters clear exactly their field's RFC 1035 bits (C19.flags). Also (round 13): UnparsedName compares pointer and position in one frame (C19.hdr12). Also (round 15): the new codec's record ends exactly at position-behind-RDLENGTH + RDLENGTH (C19.rdend); SizePrefixed builders refuse only when the size field itself does not fit (C19.room).",
    "C20": " Also: failures are bounded by max_validity; nothing is served at the instant of expiry and every Some(..) is on the fresh side (C20.exp); DS in the authority section is stripped for DO=0 (C20.strip); flag arguments of Key::new match their parameters (C20.key); Answer only for the queried type and class (C20.cls); no unwrap on the next item of a section (C20.total). Also (round 12): setters store into, getters read, the field of their name (C20.cfg); a derived entry is not valid for longer than its source (C20.age); a stored Ok response that cannot be rebuilt yields None, not an error (C20.replay). Also (round 15): a derived copy is stored under the requested key, never the altered one (C20.ownkey); a key is built only behind opcode == QUERY and class == IN (C20.gate); every validity is returned behind the TTL scan of all three sections (C20.cap).",
    "C12": " Also: DS digest input is canonical owner + canonical RDATA (C12.digest); RSA key length window is 1..=512 octets (C12.rsa); key tag reads all four fields and every key octet (C12.tag); canonical order == canonical form per field (C04.canon); every RFC 4034 6.2 type has a typed variant (C12.types, four known findings: AFSDB, RT, PX, KX). Also (round 11): SortedRecords adds a record only at a canonical binary-search index or sorts canonically before returning (C12.sorted); conversions keep every field (C05.conv). Also (round 14): signer's padding / DS digest context match the algorithm number (C12.algtab); length-first canonical order (C04.lenfirst). Also (round 18): character strings are sorted by length octet first (C04.charlen); validity periods are compared in serial arithmetic (C17.use).",
    "C14": " Also: the memoised signature verdict does not read the clock, the validity period is tested in front of the cache (C14.cache); no panicking Duration/Instant arithmetic (C14.panic); the signer handed to create_child_node is never an intermediate node (C14.signer); the signer name decides the zone only if the owner ends with it (C14.target); both callers of the wildcard non-existence check exclude name == *.<ce> (C14.wild); every answer-section RRset's state enters the verdict (C14.every); 'no SOA' is bogus only after the chain of trust was consulted (C14.nosoa); nsec3_in_range strict (C14.range); every chain link's state folded (C14.chain). Also (rounds 10-11): a denial record is used only if its signer equals the expected signer (C14.nsigner); a positive wildcard verdict rests on the wildcard's closest encloser (C14.wildce); validity returned with a verified signature is capped by ttl_for_sig of that signature (C14.sigttl); split_at(n) behind n <= len of the same slice (C14.split); DS algorithm and digest type judged on the same record (C14.dsusable); no secure NSEC3 verdict after an opt-out closest-encloser proof (path-sensitive, C14.optout); no expect on LongRecordData / on an OPT record rebuilt with upstream options (C14.panic). Also (round 12): supported_algorithm equals what every crypto backend verifies (C14.algs); QTYPE ANY finds its answer (C14.qany). Also (round 14): failed-signature limits agree (C14.badsigs); every DNAME / CNAME step is counted (C14.loopcount); the wildcard is read from the verified RRSIG (C14.wildsig). Also (round 18): names enter the signed data through compose_canonical only (C14.sigcanon).",
    "C15": " Also: free-slot search sees the slot vacant (C15.slot); datagram receive loop waits against a per-attempt deadline (C15.dgdl); settable / applied timeout fields agree (C15.cfg); synthesized replies set QR (C15.synth); the stream timer restarts only for a matched message (C15.timer); check_stream compares the question (or sees it empty) in every state (typestate, C15.xfr); accepting a request never raises the timeout pending requests run under (C15.raise). Also (round 11): a new request does not restart a running response timer (C15.timer); synthesized replies carry the request's ID (C15.synth); the datagram transmission loop runs exactly max_retries + 1 times (linear form of the range, C15.budget). Also (round 13): the first message of a transfer has a question or is an error (path-sensitive, C15.xfr). Also (round 14): the datagram buffer is resized before every recv (C15.dgdl); replies already read are delivered before the reader's end is reported (C15.ans). Also (round 18): an arm of the stream transport's select is disabled while a request is partly written (C15.wrguard).",
    "C17": " Also: the XFR interpreter's serial regression test is RFC 1982 '<' (C17.ixfr); Timestamp::scan reduces modulo 2^32 (C17.wrap). Also (round 11): no saturating / checked / plain addition on the raw value of a serial, new codec included (C17.use); the new codec's copy of to_system_time has the decision table of the established one (C17.port). Also (round 14): the new codec's Serial::inc wraps (C17.add). Also (round 18): Serial::from(jiff::Timestamp) is as_second() reduced modulo 2^32 and nothing else (C17.fromts).",
    "C01": " Also: unreachable!() behind a repeated match is unreachable (path-sensitive, C01.rematch); lossy-UTF-8 loops end on error_len() == None (C01.lossy); Clone impls of the message iterators copy every field (C01.clone). Shared with other checks: ParsedName's compressed flag (C03.flag) and the alphabet-index bound of the base16/32/64 encoders used by Display (C18.enc). Also (round 10): bitmap window lengths accepted are exactly 3..=34 (C01.window); caps computed in an inlined helper are recognised (accumulator_of). Also (round 12): MessageIter ends after a failed section change (C01.fuse); compression pointers are built with exactly 14 possible bits (C01.ptrmask); len() - k behind len >= k (C01.lensub). Also (round 15): a loop that discards a section step leaves on count = Err (C01.handloop); DigPrinter reaches no further section step after an unparsable item (C01.printer); SVCB list parameters are a multiple of their iterator's item size (C01.hintelem).",
    "C02": " Also: label sequences are compared with a length-aware equality (C02.seqeq); the parser's compressed flag (C03.flag). Also: each backward section conversion reaches rewind() of every later section and each rewind zeroes its own count (C02.rewind); header fields written in place by a builder inside a push closure are restored when the push fails (C02.hdr); skip and parse accept the same names (C01.skip). Thorough tier additionally builds compile-fail witnesses for the section typestates. Also (round 13): the section trait's push is the builder's own (C02.secfwd); the OPT option iterator continues while any octet remains (C02.optiter). Also (round 16): both writers of a name-compressing record type emit the fields in one order (C02.brorder); OptRecord::as_record and ::from_record agree on every TTL bit (C02.optttl).",
    "C03": " Also: no subtraction in the builder can wrap, a started label has content, labels are appended atomically (C03.bld); in-place truncation only at label boundaries (C03.cut); both escape readers accept exactly the printable non-digits (C06.sym). Also: validated name types are built directly (struct literal) only inside an unsafe fn, from a validated value or behind a validator, and every *_unchecked constructor is an unsafe fn (C03.raw); the zone-file reader never continues past an empty label (C06.empty). Thorough tier additionally builds compile-fail witnesses (unsafe constructors, no mutable access to a name's octets). Also (round 10): the validator relied on before an unchecked wrap bounds the length (C03.forge). Also (round 13): one append per new label (C03.bld); finish / into_name / append_origin end the open label (C03.endl); a root label anywhere in a relative name is refused (C03.bounds). Also (round 16): append_name's per-label loop is counted as name.compose_len() and its guard must imply len + C <= 254 (C03.bld).",
    "C07": " Also: no overlong UTF-8 (C07.utf8); token-ending characters == categoriser's special octets (C07.wordset); `@` in record data (C07.at); a line feed inside a group is white space; every stated class is remembered (C07.inherit); converter finished once (C18.split) and guarded after end-of-data (C18.state). Also: every token consumer checks require_token (C07.token); next_item is only reached with the token read to its end (typestate, C07.drain); the cursor never moves past a symbol found not to be a word character (C07.delim); running length check in scan_name rejects from 255 (C07.len); the closing quote is not part of a value (C07.quote); no unchecked narrow arithmetic in scan functions (C07.ovf); the fast path passes only octets the slow path accepts (C07.fast). Also (round 13): the item reader advances one octet at a time (C07.step); convert_label's no-copy guard is an equality (C07.nocopy). Also (round 16): scan_string steps back over the closing quote only when the quoted token has ended (C07.stepback); line_start is recorded after start moved over the line feed (C07.linestart).",
    "C08": " Also: remove_all always removes RRsets, marker and children (C08.wipe); only unmarked / NXDOMAIN-marked nodes have their marker recomputed (C08.mark); a deletion keeps the RRset's TTL (C10.ttl). Also: NXDOMAIN-marked nodes are descended through on the way down (C08.below, corrected table); QTYPE ANY chooses among the RRsets present at the reader's version (C08.any); Answer::to_message writes SOA, NS and DS independently (C08.auth); NodeRrsets::is_empty is 'no RRset present at the version' (C08.nx). Also (round 13): an empty RRset removes the type (C08.emptyset); the in-zone test compares labels (C08.inzone); Versioned::get searches all entries, open() always marks dirty (C09.ver, C09.drop). Also (round 16): every NS record of a zone cut has its glue collected (C08.glueall).",
    "C09": " Also: every write-locking node-storage function is told its version (C09.shared, one known finding: node existence); version provenance over WriteZone's methods too (C09.wr). Also: a WriteNode's version follows the writer's (C09.stale, one known finding); nothing touches the update-lock guard field after construction (C09.lock); container rollback/remove_all leave no element out (C09.rbk); C08.any. Thorough tier additionally builds a compile-fail witness (a reader cannot open the zone for writing). Also (round 13): Versioned::get compares the version inside a search over all entries (C09.ver); open() marks dirty unconditionally (C09.drop); a walk descends through every non-cut node (C10.walk). Also (round 17): update_rrset answers Ok only after storing the RRset in the version being written (C09.stored).",
    "C11": " Also: Other Data is refused unless empty or a 6-octet time (C11.vars). Also: no unwrap of message-derived results in the TSIG module (C11.panic); CLASS/TTL of the TSIG record are checked because the digest feeds constants (C11.vars); Algorithm::from_name accepts exactly one label plus root, case-insensitively (C11.alg); the request MAC is fed into the context before any later use (C11.prime); Time48 wire layout (C11.time48). Also (round 13): other_time() depends on the length only (C11.other); `first` cleared only after MAC and time check succeeded (C11.first); first_answer replaces the context (C11.reset). Also (round 17): an answer's time is checked only behind a matching MAC (C11.macfirst); remove_tsig restores the ID in the message itself (C11.restoreid).",
    "C13": " Also: grouping iterators use the sort's notion of equal owners (C13.group); no iteration of the NSEC3 linking loop skips set_next_owner (C13.close). Also: every successful return of the generators has passed the step that closes / sorts-and-links the chain (C13.close); the empty-non-terminal walk has no early exit (C13.ent); the case folding of the name order (C04.fold). Also (round 13): NSEC3PARAM bit unconditional at the apex (C13.types); window / octet / bit of a type number by source-bit tracking (C13.split). Also (round 14): reading the remembered cut does not consume it (C13.cut). Also (round 17): the NSEC3 bitmap of a secure delegation has RRSIG, that of an insecure one has not (C13.dsrrsig).",
    "C16": " Also: 512 without EDNS and the carried-over OPT must fit (C16.size / C16.trunc); the idle-timeout guard is written (C16.idle); the read future is recreated only after delivering a request (C16.recv); cloned requests share the size hint (C16.hint); a response is never dropped for a full queue (C16.once, one known finding). Also: on the UDP arm every Continue return has stored the negotiated size (C16.size); error exits of a started stream write never flush the queue (C16.partial); the accept loop ends only for a failed server command (C16.accept). Also (round 13): the in-transaction guard is captured by the spawned task (C16.idle); the UDP size limit is loaded per datagram (C16.size); the connection count is raised where its decrement is armed (C16.accept). Also (round 17): the 512-octet limit is decided from the request's OPT (C16.reqopt).",
    "C04": " Also: mixed-variant arms of the record-data enums never answer Equal (C04.mixed, two known findings on canonical_cmp). Also: hand-written comparisons of enums have a like-with-like arm for every variant (C04.refl); no panic macro in Eq/Ord/Hash/CanonicalOrd impls (C04.total); partial_cmp uses the comparators of cmp (C04.po); a hand-written == looks at every field (C04.ident); Label::composed_cmp does not fold case (C04.fold); nested name-bearing types in canonical_cmp (C04.canon). Also (rounds 10-11): a hand-written octet folder used by an Eq/Ord/Hash impl is evaluated over all 256 octets and must equal u8::to_ascii_lowercase (C04.fold, now covering CharStr); zip().all() never decides equality of label sequences (C02.seqeq); the new codec's flat Name orders by length only for a label-aligned suffix (C19.lsuffix). Also (round 14): length-prefixed fields are compared length first in canonical_cmp (C04.lenfirst). Also (round 18): CharStr::canonical_cmp orders by the length octet first (C04.charlen).",
    "C05": " Also: incremental builders bound what they append and roll back on failure (C05.push, one known finding); ClientSubnet host-bit guard equals the mask effect over all octets x prefix lengths (C05.mask); per-variant length of IpseckeyGateway (C05.varlen); unchecked-constructor audit of Nsec3Salt / OwnerHash / CaaTag (C05.forge). Also (rounds 10-11): the validator a *_unchecked wrap relies on bounds the length itself (C05.forge); every conversion between octets / name types maps field to same-named field (C05.conv); type-bitmap windows of exactly 1..=32 octets (C01.window); Time48 wire layout (C11.time48). Also (round 14): TxtBuilder's room is 256 + start - len (C05.txtroom); an option part's compose_len measures the field compose writes (C05.optlen); canonical lower-casing equals to_ascii_lowercase (C04.fold).",
    "C06": " Also: SvcParam values are written with the registered key mnemonic and the reader's key alphabet is a-z 0-9 '-' (C06.svckey, one known finding); Symbol::from_octet / quoted_from_octet leave unescaped only what the reader takes as plain (C06.sym); shares C03.esc (incl. directive openers), C07.cat/.paren and C18.tail. Also (round 10): the bitmap iterator tests every position it reaches (C06.bititer); Base16/32/64 alphabets (C18.tab). Also (round 14): both loops of convert_charstr admit 255 octets (C06.charstr255); integer readers overflow only beyond MAX (C07.ovf).",
    "C10": " Also: the IXFR diff funneler forwards every non-SOA item regardless of owner (C10.funnel); XFR message room subtracts the reserved bytes on both transports (C10.room); adding a record to an RRset does not duplicate it (C10.set). Also (rounds 10-11): walking, every non-cut node state descends into its children (C10.walk); a child's diff owner is its label in front of its parent's diff owner (C10.owner); serials compared in sequence space and without non-wrapping arithmetic (C17.ixfr, C17.use); 14-bit pointer bound in the compressors (C02.ptr14). Also (round 14): a record that did not fit is retried (C10.batch); both halves of an RRset's difference are recorded independently (C10.diffboth); DeleteAllRecords is decided after the transfer type was last assigned (C10.delall).",
    "C18": " Also: every value used to index an encoder alphabet is below the alphabet size by its masks and shifts (C18.enc).",
}

PENDING_REASON = "rule set designed (DESIGN.md §4) but not yet built in this round: not claimed until it runs"

ALL = ["C%02d" % i for i in range(1, 21)]


def main():
    checks = []
    for pid in ALL:
        if pid not in CLAIMED:
            continue
        c = CLAIMED[pid]
        checks.append({
            "property_id": pid,
            "quick_cmd": "./check %s --tier quick" % pid,
            "thorough_cmd": "./check %s --tier thorough" % pid,
            "evidence_file": "/verif/evidence/%s.json" % pid,
            "replay_cmd_template": "./check %s --replay {path}" % pid,
            "engine": "domain-facts + rules/%s.py" % pid.lower(),
            "level_claimed": {
                "category": "other",
                "text": c["text"] + EXTRA_TEXT.get(pid, ""),
                "design_ref": c["design_ref"],
            },
            "level_note": "Decides the listed structural clauses, not the behaviour. Trusted base: rustc "
                          "nightly front end / MIR builder / const evaluator, Instance::try_resolve, the "
                          "domain-facts serialiser, and the hand-frozen tables in rules/ (each with its "
                          "reason). Path-insensitive CFG reasoning over-approximates feasible paths. Functions not "
                          "listed in rules/known_fns.txt are analysed inlined into their callers. Tiers: quick = "
                          "all rules over the all-features extraction; thorough = the same verdict plus positive "
                          "controls (every stored property-breaking change that names this check is applied to a "
                          "scratch copy of the current tree and must be reported by its rule; reported in the "
                          "evidence, never part of the verdict) and, for C02/C03/C09, compile-fail witnesses built "
                          "with cargo +nightly test --doc against the current tree (part of the verdict).",
            "technique": c["technique"] + ("; compile-fail witnesses (rustdoc compile_fail with error codes, each paired with "
                                           "a compiling twin) in the thorough tier" if pid in ("C02", "C03", "C09") else ""),
        })
    na = []
    for pid in ALL:
        if pid in CLAIMED:
            continue
        na.append({"property_id": pid, "reason": NOT_APPLICABLE.get(pid, PENDING_REASON)})
    m = {
        "version": 1,
        "setup_cmd": "cd driver && cargo build --release --offline",
        "hooks": {
            "guard": "domain_verif",
            "enable": "none needed: static analysis reads the unmodified source; the guard name is "
                      "reserved and unused",
            "baseline_off_cmd": "cd /repo && cargo test --workspace --no-fail-fast --offline",
            "source_commits": SOURCE_COMMITS,
            "add_only": True,
        },
        "engines": [
            {
                "name": "domain-facts",
                "path": "driver/",
                "serves_properties": sorted(CLAIMED),
                "kind_free_text": "rustc_private driver (nightly) dumping mir_built bodies, item tables and "
                                  "evaluated constants of /repo's current tree as JSON lines",
            },
            {
                "name": "rules",
                "path": "rules/",
                "serves_properties": sorted(CLAIMED),
                "kind_free_text": "Python rule engine: CFG dominance/separation, def-use, symbolic operand "
                                  "terms, branch facts, sibling signatures, constant tables",
            },
        ],
        "checks": checks,
        "not_applicable": na,
        "notes": "Technique family: static analysis only. `fix:` commits in /repo are listed under "
                 "hooks.source_commits (they are unguarded repairs, not hooks); no instrumentation hooks exist.",
    }
    out = os.path.join(VERIF, "MANIFEST.json")
    with open(out, "w") as fh:
        json.dump(m, fh, indent=1)
        fh.write("\n")
    try:
        import jsonschema
        schema = json.load(open("/root/.vp/MANIFEST.schema.json"))
        jsonschema.validate(m, schema)
        print("MANIFEST.json valid; claimed=%s" % sorted(CLAIMED))
    except ImportError:
        print("MANIFEST.json written (jsonschema not available in this interpreter)")


SOURCE_COMMITS = ["6d017b8", "5bee0e2", "d442263", "1972f03", "e564cac", "7c5564a", "eac9679", "3d7d923", "6138459", "e52828b", "7010af2", "d5ab2d6", "a685388", "e5bfc9a", "cd1aabd", "ad18f81", "92ad9aa", "b54ddd7", "19d8022", "67c1438", "79fdcf6", "612a098", "eebdc4e", "a13d47c", "92032bf", "dc91e56", "541c366", "0c29f11", "76a1f96", "4e6bc4f", "1adac4f", "b093332", "a68cf5e", "7fa11bf", "512fa49", "83c1bef", "d022787", "e15cdb0", "72be92d", "9e0e81f", "f5febfc", "25bac66", "6afefb9", "5ea8bd0", "035a8f6", "de96948", "32f41c1", "f4ad043", "d16e652", "7343cc7", "88025d9", "f19e51a", "b0cb879", "45a5746", "95f7824", "919a66c", "7ddf2a5", "cb00364", "3436097", "af9dac3", "66c14a6", "3f87cdf", "5bcd2dd", "1be02a6", "c39f60c", "fb6271f", "299ea2c", "61dacfa", "48b8f89", "70bf6b9", "891015e", "8216bb7", "5d079f4", "d38f84f", "5c5d6c3", "41efeeb", "0d2774f", "36abbc7", "5da3f52", "bac4f6b", "1a32924", "3cbfe59", "149d1e7", "fa1a858", "cbbac44", "704d82e", "a1088a7", "e3d0214", "e9c1301", "ea5fbe4", "d2375fb", "8765dcd", "da8c13c", "1631656", "77b3180", "c8fa939", "2e471a1", "9e525cc"]

if __name__ == "__main__":
    main()
