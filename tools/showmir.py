#!/usr/bin/env python3
"""Pretty-print MIR bodies from the cached fact file: showmir.py <regex> [config]"""
import sys, os, re, json, glob
sys.path.insert(0, os.path.join(os.path.dirname(os.path.abspath(__file__)), "..", "rules"))
import mirlib

def pl(p):
    s = "_%d" % p[0]
    for pr in p[1:]:
        if pr == "*": s = "(*%s)" % s
        elif pr[0] == ".": s += ".%s" % (pr[2] if pr[2] is not None else pr[1])
        elif pr[0] == "[]": s += "[_%d]" % pr[1]
        elif pr[0] == "as": s = "(%s as %s)" % (s, pr[1])
        else: s += str(pr)
    return s
def op(o):
    if o[0] in ("c","m"): return ("move " if o[0]=="m" else "") + pl(o[1])
    if o[0] == "k":
        if o[2] is not None: return "const %s_%s" % (o[2], o[1]) if not isinstance(o[2], list) else "const <%d bytes>"%len(o[2])
        return "const {%s}" % (o[3] or o[1])
    return str(o)
def rv(r):
    k = r[0]
    if k == "use": return op(r[1])
    if k == "ref": return "&%s%s" % ("mut " if r[1] else "", pl(r[2]))
    if k == "ptr": return "&raw %s" % pl(r[2])
    if k == "cast": return "%s as %s (%s)" % (op(r[2]), r[3], r[1])
    if k == "bin": return "%s(%s, %s)" % (r[1], op(r[2]), op(r[3]))
    if k == "un": return "%s(%s)" % (r[1], op(r[2]))
    if k == "discr": return "discriminant(%s)" % pl(r[1])
    if k == "agg": return "%s{%s}" % (":".join(str(x) for x in r[1][:3]), ", ".join(op(o) for o in r[2]))
    if k == "deref": return "deref_copy %s" % pl(r[1])
    return str(r)
def show(b):
    print("fn %s  [%s:%d] nargs=%d kind=%s" % (b.path, b.file, b.line, b.nargs, b.kind))
    for n, p in b.vars: print("   debug %s => %s" % (n, pl(p)))
    for i, ty in enumerate(b.locals): print("   let _%d: %s" % (i, ty))
    for i, blk in enumerate(b.blocks):
        print(" bb%d%s:" % (i, " (cleanup)" if blk["c"] else ""))
        for st in blk["s"]:
            if st[0] == "=": print("    %s = %s%s" % (pl(st[1]), rv(st[2]), ("   // x=%s" % st[4]) if st[4] else ""))
            else: print("    %s" % st)
        t = blk["t"]; k = t["k"]
        x = ("   // l=%s x=%s" % (t.get("l"), t.get("x"))) if t.get("x") else "   // l=%s" % t.get("l")
        if k == "call":
            print("    %s = %s(%s) -> bb%s [unwind bb%s]%s%s" % (pl(t["dest"]) if t["dest"] else "_", t["full"] or op(t["fnop"]), ", ".join(op(a) for a in t["args"]), t["t"], t["u"], ("  res=%s" % t["res"]) if t["res"] else "", x))
        elif k == "switch":
            print("    switchInt(%s: %s) -> [%s, otherwise: bb%d]%s" % (op(t["d"]), t["ty"], ", ".join("%d: bb%d" % (v, tb) for v, tb in t["v"]), t["o"], x))
        elif k == "assert":
            print("    assert(%s == %s, %s) -> bb%d%s" % (op(t["cond"]), t["exp"], t["msg"][0], t["t"], x))
        else:
            print("    %s%s" % ({kk: vv for kk, vv in t.items() if kk not in ("l", "x")}, x))

if __name__ == "__main__":
    cfg = sys.argv[2] if len(sys.argv) > 2 else "all"
    fs = sorted(glob.glob(os.path.join(os.path.dirname(os.path.abspath(__file__)), "..", ".cache", "facts", "*-%s.jsonl" % cfg)), key=os.path.getmtime)
    rx = re.compile(sys.argv[1])
    with open(fs[-1]) as fh:
        for line in fh:
            if not line.startswith('{"rec":"body"'): continue
            m = re.match(r'\{"rec":"body","path":"((?:[^"\\]|\\.)*)"', line)
            if m and rx.search(m.group(1)):
                show(mirlib.Body(json.loads(line)))
                print()
