#!/bin/bash
# validate_seed.sh <worktree> <dir-with-patch.diff+demo.rs> <seed-id> <property> [cargo test feature args...]
# Confirms in the scratch worktree: demo passes without the patch, fails with it,
# the pinned suite still passes with it.  On success copies to /verif/seeded/<seed-id>/.
set -u
WT=$1; SRC=$2; ID=$3; PROP=$4; shift 4
FEAT="$*"
cd "$WT" || exit 2
git checkout -q -- . ; git clean -qfd tests/ 2>/dev/null
cp "$SRC/demo.rs" tests/verif_seed_demo.rs
echo "== demo without patch"
cargo test --offline $FEAT --test verif_seed_demo >/tmp/vs-$ID-a.log 2>&1; A=$?
tail -3 /tmp/vs-$ID-a.log
git apply "$SRC/patch.diff" || { echo "patch does not apply"; exit 2; }
echo "== demo with patch"
cargo test --offline $FEAT --test verif_seed_demo >/tmp/vs-$ID-b.log 2>&1; B=$?
grep -E "^test result|panicked" /tmp/vs-$ID-b.log | head -5
rm -f tests/verif_seed_demo.rs
echo "== pinned suite with patch"
cargo test --workspace --no-fail-fast --offline >/tmp/vs-$ID-c.log 2>&1; C=$?
grep -E "^test result: .* [1-9][0-9]* passed" /tmp/vs-$ID-c.log | head -3
echo "== all-features build with patch"
cargo check --offline --all-features --lib >/tmp/vs-$ID-d.log 2>&1; D=$?
git checkout -q -- . ; git clean -qfd tests/ 2>/dev/null
echo "without=$A with=$B suite=$C allfeat=$D"
if [ $A -eq 0 ] && [ $B -ne 0 ] && [ $C -eq 0 ] && [ $D -eq 0 ] && grep -q "171 passed" /tmp/vs-$ID-c.log; then
  mkdir -p /verif/seeded/$ID
  cp "$SRC/patch.diff" /verif/seeded/$ID/patch.diff
  cp "$SRC/demo.rs" /verif/seeded/$ID/demo.rs
  [ -f "$SRC/notes.md" ] && cp "$SRC/notes.md" /verif/seeded/$ID/notes.md
  echo "CONFIRMED $ID"
else
  echo "NOT CONFIRMED $ID"; exit 1
fi
