#!/usr/bin/env python3
"""mkprompt.py <round> <PROP>...  -- writes /tmp/prompt-m<round>-<PROP>.txt for a fresh sub-agent:
property text + scratch worktree + the ideas earlier rounds already used (so that it looks elsewhere) + the
'pre-existing violations' second task.  Nothing from /verif's rules or design goes into the prompt."""
import json, os, sys, glob
V = os.path.dirname(os.path.dirname(os.path.abspath(__file__)))
rnd = sys.argv[1]
props = {json.loads(l)["id"]: json.loads(l) for l in open(os.path.join(V, "properties.jsonl"))}
tmpl = open(os.path.join(V, "tools/prompts/mut-prompt2.txt")).read()
second = open(os.path.join(V, "tools/prompts/second-task.txt")).read()
for P in sys.argv[2:]:
    d = props[P]
    prop = "PROPERTY %s: %s\n\nSTATEMENT: %s\n\nQUANTIFIER: %s\n\nWHY THE EXISTING TESTS CANNOT SETTLE IT: %s\n" % (
        P, d["title"], d["statement"], d["quantifier"]["text"], d["why_tests_cant"])
    used = []
    for m in sorted(glob.glob(os.path.join(V, "seeded", P + "-*", "meta.json"))):
        used.append("- " + json.load(open(m)).get("breaks", "")[:220])
    wt, out = "/tmp/wt-m%s-%s" % (rnd, P), "/tmp/out-m%s-%s" % (rnd, P)
    s = tmpl.replace("{WT}", wt).replace("{OUT}", out).replace("{PROP}", prop)
    s += "\n\nEarlier rounds already used the following ideas for this property; do NOT repeat them or close variants, look in other functions and at other clauses:\n" + "\n".join(used)
    s += "\n\n" + second.replace("{OUT}", out)
    open("/tmp/prompt-m%s-%s.txt" % (rnd, P), "w").write(s)
    print(P, len(s), len(used), "ideas")
