#!/usr/bin/env python3
"""Run checks against a scratch copy of /repo with a patch applied.

  tools/mutant.py <patch.diff> <Cxx> [<Cxx>...]     -> prints each check's verdict
  tools/mutant.py --selftest                         -> runs selftest/mutants/*.diff (and seeded/*)
                                                        against their expected rules

The scratch copy lives under $VERIF_SCRATCH (default /var/tmp/verif-scratch-<pid>) and is
removed afterwards; /repo itself is never modified.
"""
import glob
import json
import os
import shutil
import subprocess
import sys

PROBE = None
VERIF = os.path.dirname(os.path.dirname(os.path.abspath(__file__)))


def make_copy(dst):
    if os.path.exists(dst):
        shutil.rmtree(dst)
    os.makedirs(dst)
    subprocess.check_call(
        ["rsync", "-a", "--exclude", "/target", "--exclude", "/.git", (REPO_SNAP or "/repo") + "/", dst + "/"]
    )


REPO_SNAP = None   # copy of /repo taken when a selftest starts, so that committing a fix to /repo meanwhile is harmless
SNAP = None   # snapshot of check + rules taken when a selftest starts, so that editing /verif meanwhile is harmless


def take_snapshot(base):
    global SNAP
    snap = os.path.join(base, "verif-snap-%d" % os.getpid())
    if os.path.exists(snap):
        shutil.rmtree(snap)
    os.makedirs(snap)
    shutil.copytree(os.path.join(VERIF, "rules"), os.path.join(snap, "rules"), ignore=shutil.ignore_patterns("__pycache__"))
    shutil.copy(os.path.join(VERIF, "check"), os.path.join(snap, "check"))
    shutil.copy(os.path.join(VERIF, "known_findings.txt"), os.path.join(snap, "known_findings.txt"))
    SNAP = snap
    global REPO_SNAP
    rs = os.path.join(base, "verif-reposnap-%d" % os.getpid())
    if os.path.exists(rs):
        shutil.rmtree(rs)
    os.makedirs(rs)
    subprocess.check_call(["rsync", "-a", "--exclude", "/target", "--exclude", "/.git", "/repo/", rs + "/"])
    REPO_SNAP = rs
    return snap


def run_check(repo, prop, extra_env=None):
    env = dict(os.environ)
    env["VERIF_REPO"] = repo
    root = SNAP or VERIF
    if SNAP:
        env["VERIF_DRIVER"] = os.path.join(VERIF, "driver", "target", "release", "domain-facts")
        env.setdefault("VERIF_CACHE", os.path.join(VERIF, ".cache"))
    if extra_env:
        env.update(extra_env)
    r = subprocess.run(
        [os.path.join(root, "check"), prop, "--no-evidence"],
        cwd=root, env=env, stdout=subprocess.PIPE, stderr=subprocess.STDOUT, text=True,
    )
    return r.returncode, r.stdout


def apply_patch(repo, patch):
    r = subprocess.run(["git", "apply", "--unsafe-paths", "--directory", repo, os.path.abspath(patch)],
                       cwd="/", stdout=subprocess.PIPE, stderr=subprocess.STDOUT, text=True)
    if r.returncode != 0:
        r = subprocess.run(["patch", "-p1", "-d", repo, "-i", os.path.abspath(patch)],
                           stdout=subprocess.PIPE, stderr=subprocess.STDOUT, text=True)
    return r.returncode, r.stdout


def main():
    scratch = os.environ.get("VERIF_SCRATCH", "/var/tmp/verif-scratch-%d" % os.getpid())
    repo = os.path.join(scratch, "repo")
    try:
        if sys.argv[1] == "--selftest":
            return selftest(repo, sys.argv[2:])
        if sys.argv[1] == "--probe":
            # --probe [checks=C01,C02] <filters...> [-jN]: run the named checks (default: the seed's own
            # property) on every matching seed and print the rules that fire
            global PROBE
            PROBE = []
            rest = []
            for a in sys.argv[2:]:
                if a.startswith("checks="):
                    PROBE = a[7:].split(",")
                else:
                    rest.append(a)
            return selftest(repo, rest)
        patch = sys.argv[1]
        props = sys.argv[2:]
        make_copy(repo)
        rc, out = apply_patch(repo, patch)
        if rc != 0:
            print("PATCH FAILED\n" + out)
            return 2
        worst = 0
        for p in props:
            rc, out = run_check(repo, p)
            lines = [l for l in out.splitlines() if "rule=" in l or l.startswith("VIOLATION") or l.startswith("CHECK-ERROR") or l.startswith(p + ":")]
            print("== %s exit=%d" % (p, rc))
            for l in lines[:12]:
                print("   " + l[:400])
            worst = max(worst, rc)
        return 0
    finally:
        shutil.rmtree(scratch, ignore_errors=True)


def _specs(only):
    specs = []
    metas = sorted(glob.glob(os.path.join(VERIF, "selftest", "mutants", "*.json"))
                   + glob.glob(os.path.join(VERIF, "selftest", "quiet", "*.json"))
                   + glob.glob(os.path.join(VERIF, "seeded", "*", "meta.json")))
    for meta in metas:
        m = json.load(open(meta))
        d = os.path.dirname(meta)
        patch = os.path.join(d, m.get("patch", "patch.diff"))
        if not os.path.exists(patch):
            patch = meta[:-5] + ".diff"
        name = m.get("name") or os.path.basename(d if meta.endswith("meta.json") else meta[:-5])
        if only and not any(o in name or o in meta for o in only):
            continue
        specs.append((name, patch, m))
    return specs


def _one(args):
    """worker: own scratch repo copy and own extraction cache (seeded with the
    dependency build of the main cache so only `domain` itself is rebuilt)."""
    slot, name, patch, m = args
    base = os.path.join(os.environ.get("VERIF_SCRATCH_BASE", "/var/tmp"), "verif-selftest-%d-%d" % (os.getpid(), slot))
    repo = os.path.join(base, "repo")
    cache = os.path.join(base, "cache")
    os.makedirs(cache, exist_ok=True)
    main_t = os.path.join(VERIF, ".cache", "target-all")
    if not os.path.isdir(os.path.join(cache, "target-all")) and os.path.isdir(main_t):
        subprocess.call(["cp", "-a", main_t, os.path.join(cache, "target-all")])
    make_copy(repo)
    rc, out = apply_patch(repo, patch)
    lines = []
    bad = 0
    if rc != 0:
        return name, 1, ["%-44s PATCH-FAILED" % name]
    if m.get("_probe"):
        for chk in m["_probe"]:
            rc, out = run_check(repo, chk, {"VERIF_CACHE": cache})
            rules = sorted({l.split("rule=")[1].split(" ")[0] for l in out.splitlines() if "rule=" in l})
            lines.append("%-44s %-4s exit=%d %s" % (name, chk, rc, " ".join(rules)))
            if rc not in (0, 1):
                lines += ["      " + l[:300] for l in out.splitlines()[-6:]]
        return name, 0, lines
    for exp in m.get("expect", []):
        rc, out = run_check(repo, exp["check"], {"VERIF_CACHE": cache})
        want_rule = exp.get("rule")
        if exp.get("quiet"):
            ok = rc == 0
        else:
            ok = rc == 1 and (want_rule is None or ("rule=" + want_rule) in out)
        lines.append("%-44s %-4s %-14s %s" % (name, exp["check"], want_rule or ("quiet" if exp.get("quiet") else ""),
                                              "ok" if ok else ("ALARM" if exp.get("quiet") else "MISSED") + " (exit %d)" % rc))
        if not ok:
            bad += 1
            diag = [l for l in out.splitlines() if "rule=" in l or "CHECK-ERROR" in l or l.startswith("VIOLATION")][:6]
            for l in diag or out.splitlines()[-8:]:
                lines.append("      " + l[:400])
    return name, bad, lines


def selftest(repo, only):
    """Every mutant must be reported by its expected rule (exit 1); every
    quiet-set patch must leave its checks silent (exit 0)."""
    import multiprocessing
    jobs = 6
    args = [a for a in only if not a.startswith("-j")]
    for a in only:
        if a.startswith("-j"):
            jobs = int(a[2:])
    specs = _specs(args)
    snap = take_snapshot(os.environ.get("VERIF_SCRATCH_BASE", "/var/tmp"))
    if PROBE is not None:
        specs = [(n, pth, dict(m, _probe=(PROBE or [m.get("property")] if m.get("property") else
                                          sorted({e["check"] for e in m.get("expect", [])})))) for n, pth, m in specs]
    bad = 0
    q = multiprocessing.Manager().Queue()
    for i in range(jobs):
        q.put(i)
    def task(spec):
        return spec
    from concurrent.futures import ThreadPoolExecutor
    def run(spec):
        slot = q.get()
        try:
            return _one((slot,) + spec)
        finally:
            q.put(slot)
    try:
        with ThreadPoolExecutor(max_workers=jobs) as ex:
            for name, b, lines in ex.map(run, specs):
                bad += b
                print("\n".join(lines), flush=True)
    finally:
        shutil.rmtree(snap, ignore_errors=True)
        if REPO_SNAP:
            shutil.rmtree(REPO_SNAP, ignore_errors=True)
        for i in range(jobs):
            shutil.rmtree(os.path.join(os.environ.get("VERIF_SCRATCH_BASE", "/var/tmp"), "verif-selftest-%d-%d" % (os.getpid(), i)), ignore_errors=True)
    print("selftest: %d spec(s), %d problem(s)" % (len(specs), bad))
    return 1 if bad else 0


if __name__ == "__main__":
    sys.exit(main())
