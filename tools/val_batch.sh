#!/bin/bash
P=$1; FEAT=$2; shift 2
while [ $# -gt 0 ]; do
  N=$1; ID=$2; shift 2
  echo "#### $ID"
  /verif/tools/validate_seed.sh /tmp/wt-m${R:-4}-$P /tmp/out-m${R:-4}-$P/$N $ID $P $FEAT 2>&1 | tail -4
done
