#!/usr/bin/env python3
"""setexpect.py <seed-id> [--missed] <Cxx>:<rule> ...  -- record in seeded/<id>/meta.json which rule(s) must report the change
(--missed: the rule set that existed when the change arrived did not report it)."""
import json, os, sys
V = os.path.dirname(os.path.dirname(os.path.abspath(__file__)))
sid = sys.argv[1]
rest = sys.argv[2:]
missed = "--missed" in rest
rest = [r for r in rest if r != "--missed"]
p = os.path.join(V, "seeded", sid, "meta.json")
m = json.load(open(p))
m["expect"] = [{"check": r.split(":")[0], "rule": r.split(":")[1]} for r in rest]
m["detected_by"] = ", ".join(r.split(":")[1] for r in rest) + (" (new or strengthened rule)" if missed else " (existing rule)")
m["missed_before_strengthening"] = missed
json.dump(m, open(p, "w"), indent=1)
print(sid, m["expect"])
