#!/usr/bin/env python3
"""tools/ingest_quiet.py <out-dir> <Cxx>  — file the behaviour-preserving patches an agent left in
<out-dir>/<n>/patch.diff as selftest/quiet/q-<Cxx>-<n>.{diff,json} (expected: every check silent)."""
import json, os, shutil, sys
VERIF = os.path.dirname(os.path.dirname(os.path.abspath(__file__)))
ALL = ["C01","C02","C03","C04","C05","C06","C07","C08","C09","C10","C11","C12","C13","C14","C15","C16","C17","C18","C19","C20"]
out, prop = sys.argv[1], sys.argv[2]
tag = sys.argv[3] if len(sys.argv) > 3 else "q"
for n in sorted(os.listdir(out)):
    p = os.path.join(out, n, "patch.diff")
    if not os.path.exists(p):
        continue
    name = "%s-%s-%s" % (tag, prop, n)
    dst = os.path.join(VERIF, "selftest", "quiet", name)
    shutil.copy(p, dst + ".diff")
    notes = os.path.join(out, n, "notes.md")
    what = open(notes).read().strip().splitlines()[0:3] if os.path.exists(notes) else []
    json.dump({"name": name, "what": " ".join(what)[:400], "origin": "sub-agent asked for behaviour-preserving maintenance edits in the code of %s" % prop,
               "expect": [{"check": c, "quiet": True} for c in ALL]}, open(dst + ".json", "w"), indent=1)
    print(name)
