#!/usr/bin/env python3
"""record_fix.py <PROP> <commit> <rule> <key> <what failed>
Book-keeping for a `fix:` commit in /repo: writes selftest/mutants/revert-<PROP>-<commit>.{diff,json}, appends the
`fixed:` line to known_findings.txt and the commit to SOURCE_COMMITS in tools/gen_manifest.py."""
import json, os, re, subprocess, sys
V = os.path.dirname(os.path.dirname(os.path.abspath(__file__)))
prop, commit, rule, key, what = sys.argv[1:6]
extra_checks = sys.argv[6:]          # further checks that run the same rule
diff = subprocess.check_output(["git", "-C", "/repo", "diff", commit, commit + "~1"], text=True)
name = "revert-%s-%s" % (prop, commit)
open(os.path.join(V, "selftest", "mutants", name + ".diff"), "w").write(diff)
json.dump({"name": name, "what": "reverse of fix commit %s: re-introduces the repaired defect" % commit,
           "expect": [{"check": c, "rule": rule} for c in [prop] + extra_checks]},
          open(os.path.join(V, "selftest", "mutants", name + ".json"), "w"), indent=1)
with open(os.path.join(V, "known_findings.txt"), "a") as fh:
    fh.write("fixed: property=%s %s key=%s :: %s\n" % (prop, commit, key, what))
p = os.path.join(V, "tools", "gen_manifest.py")
t = open(p).read()
m = re.search(r"SOURCE_COMMITS = \[(.*?)\]", t, re.S)
if commit not in m.group(1):
    t = t[:m.end(1)] + ', "%s"' % commit + t[m.end(1):]
    open(p, "w").write(t)
print("recorded", name)
