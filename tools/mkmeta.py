#!/usr/bin/env python3
"""mkmeta.py <seed-id> <PROP> <round> <features|-> <breaks> <needs>  -- writes seeded/<id>/meta.json (expect filled later)."""
import json, os, sys
V = os.path.dirname(os.path.dirname(os.path.abspath(__file__)))
sid, prop, rnd, feat, breaks, needs = sys.argv[1:7]
d = {"property": prop, "breaks": breaks, "needs": needs, "demo_features": "" if feat == "-" else feat,
     "origin": "round-%s sub-agent (property text + scratch worktree only; told which ideas earlier rounds had already used)" % rnd,
     "name": sid,
     "ran": ["tools/validate_seed.sh: demo passes without patch, fails with patch, pinned suite 171/171 with patch, --all-features builds"],
     "expect": [], "detected_by": None}
json.dump(d, open(os.path.join(V, "seeded", sid, "meta.json"), "w"), indent=1)
print("meta", sid)
