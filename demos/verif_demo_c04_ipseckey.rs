#![allow(unused_imports, dead_code)]
// IPSECKEY: hashing without a gateway; canonical order of a name gateway. From a sub-agent's scratch tests.
//
// Place into tests/ and run:
//   cargo test --offline -j3 --test c04_preexisting
//
// Every test asserts the behaviour the property demands, so every test
// FAILS on the unmodified library (each failure = one confirmed finding).

use core::cmp::Ordering;
use core::hash::{Hash, Hasher};
use domain::base::cmp::CanonicalOrd;
use domain::base::iana::{
    Class, Nsec3HashAlgorithm, Rtype, SecurityAlgorithm, ZonemdAlgorithm,
    ZonemdScheme,
};
use domain::base::name::Name;
use domain::base::rdata::{ComposeRecordData, UnknownRecordData};
use domain::base::record::{Record, Ttl};
use domain::base::Serial;
use domain::rdata::dnssec::{RtypeBitmap, Timestamp};
use domain::rdata::ipseckey::{Ipseckey, IpseckeyGateway};
use domain::rdata::nsec3::{Nsec3Salt, OwnerHash};
use domain::rdata::{
    AllRecordData, Nsec3, Rrsig, ZoneRecordData, Zonemd, A,
};
use std::collections::hash_map::DefaultHasher;
use std::str::FromStr;
use std::vec::Vec;

type VName = Name<Vec<u8>>;

fn h<T: Hash>(t: &T) -> u64 {
    let mut s = DefaultHasher::new();
    t.hash(&mut s);
    s.finish()
}

fn name(s: &str) -> VName {
    Name::from_str(s).unwrap()
}

fn canon<D: ComposeRecordData>(d: &D) -> Vec<u8> {
    let mut v = Vec::new();
    d.compose_canonical_rdata(&mut v).unwrap();
    v
}

fn unk(rtype: u16, data: &[u8]) -> UnknownRecordData<Vec<u8>> {
    UnknownRecordData::from_octets(Rtype::from_int(rtype), data.to_vec())
        .unwrap()
}

/// Ipseckey without a gateway cannot be hashed (todo!() in
/// IpseckeyGateway::hash).
#[test]
fn p7_ipseckey_hash_none_gateway_panics() {
    let a: Ipseckey<Vec<u8>, VName> = Ipseckey::new(
        10,
        domain::base::iana::IpseckeyAlgorithm::RSA,
        IpseckeyGateway::None,
        b"key".to_vec(),
    );
    let b = a.clone();
    assert!(a == b);
    assert_eq!(h(&a), h(&b));
}

/// Ipseckey::canonical_cmp orders a name gateway with name_cmp (right to
/// left, ignoring case) although the canonical form keeps the name as is.
#[test]
fn p8_ipseckey_canonical_cmp_vs_wire() {
    let k = |gw: &str| -> Ipseckey<Vec<u8>, VName> {
        Ipseckey::new(
            10,
            domain::base::iana::IpseckeyAlgorithm::RSA,
            IpseckeyGateway::Name(name(gw)),
            b"key".to_vec(),
        )
    };
    // label order vs wire order
    let (a, b) = (k("b."), k("aa."));
    assert_eq!(a.canonical_cmp(&b), canon(&a).cmp(&canon(&b)), "b. / aa.");
    // case
    let (a, b) = (k("A.example."), k("a.example."));
    assert_eq!(
        a.canonical_cmp(&b),
        canon(&a).cmp(&canon(&b)),
        "A.example. / a.example."
    );
}
