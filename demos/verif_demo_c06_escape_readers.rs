// The two readers of escape sequences disagree about `\` followed by a non-ASCII octet.
//   cargo test --offline --test verif_demo_c06_escape_readers
use domain::base::scan::Symbol;

#[test]
fn backslash_then_non_ascii_is_refused_by_both_readers() {
    // text reader: "\\\u{80}" is a bad escape
    let mut chars = "\\\u{80}".chars();
    assert!(Symbol::from_chars(&mut chars).is_err());
    // octet reader: the same for the octet 0x80 (and any other octet >= 0x80)
    for o in 0x80u8..=0xFF {
        let res = Symbol::from_slice_index(&[b'\\', o], 0);
        assert!(res.is_err(), "octet {:#x} accepted as simple escape: {:?}", o, res);
    }
}
