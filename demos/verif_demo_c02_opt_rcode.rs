use domain::base::iana::{OptRcode, Rcode};
use domain::base::opt::nsid::Nsid;
use domain::base::MessageBuilder;
use octseq::array::Array;

#[test]
fn failed_opt_push_changes_header() {
    // 12 header + 11 OPT header = 23; leave no room for the option.
    let mut msg = MessageBuilder::from_target(Array::<30>::new()).unwrap().additional();
    msg.header_mut().set_rcode(Rcode::NOERROR);
    let before = msg.as_slice().to_vec();
    let nsid = Nsid::from_octets(&b"0123456789"[..]).unwrap();
    let res = msg.opt(|opt| {
        opt.set_rcode(OptRcode::BADCOOKIE); // 23: low nibble 7 goes to the header
        opt.push(&nsid)
    });
    assert!(res.is_err());
    assert_eq!(msg.counts().arcount(), 0);
    assert_eq!(before, msg.as_slice(), "failed push changed octets");
}

#[test]
fn failed_opt_push_by_limit_changes_header() {
    // the OPT record fits into the target but not under the push limit
    let mut msg = MessageBuilder::new_vec();
    msg.set_push_limit(12 + 11 + 4);
    let mut msg = msg.additional();
    let before = msg.as_slice().to_vec();
    let nsid = Nsid::from_octets(&b"0123456789"[..]).unwrap();
    let res = msg.opt(|opt| {
        opt.set_rcode(OptRcode::BADCOOKIE);
        opt.push(&nsid)
    });
    assert!(res.is_err());
    assert_eq!(before, msg.as_slice(), "failed push changed octets");
}

#[test]
fn successful_opt_push_sets_rcode() {
    let mut msg = MessageBuilder::new_vec().additional();
    msg.opt(|opt| { opt.set_rcode(OptRcode::BADCOOKIE); Ok(()) }).unwrap();
    assert_eq!(msg.header().rcode().to_int(), 7);
}
