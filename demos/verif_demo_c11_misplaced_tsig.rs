//! A request whose TSIG record is not the last record (or is present twice)
//! must be answered with FORMERR (RFC 8945, 5.2) -- building that answer must
//! not panic.
#![cfg(feature = "tsig")]

use std::str::FromStr;

use domain::base::iana::{Class, Rcode, Rtype};
use domain::base::{Message, MessageBuilder, Name, Ttl};
use domain::rdata::tsig::Time48;
use domain::rdata::A;
use domain::tsig::{Algorithm, ClientTransaction, Key, KeyName, ServerTransaction};

fn key() -> Key {
    Key::new(
        Algorithm::Sha256,
        b"0123456789abcdef0123456789abcdef",
        KeyName::from_str("key.example.").unwrap(),
        None,
        None,
    )
    .unwrap()
}

/// A signed request with one more record pushed *behind* the TSIG record.
fn request_with_record_behind_tsig(now: Time48) -> Message<Vec<u8>> {
    let key = key();
    let mut msg = MessageBuilder::new_vec();
    msg.header_mut().set_random_id();
    let mut msg = msg.question();
    msg.push((Name::<Vec<u8>>::from_str("example.com.").unwrap(), Rtype::A)).unwrap();
    let mut msg = msg.additional();
    let _ = ClientTransaction::request(&key, &mut msg, now).unwrap();
    msg.push((
        Name::<Vec<u8>>::from_str("extra.example.com.").unwrap(),
        Class::IN,
        Ttl::from_secs(60),
        A::from_octets(192, 0, 2, 1),
    ))
    .unwrap();
    msg.into_message()
}

#[test]
fn tsig_not_last_is_answered_with_formerr() {
    let now = Time48::now();
    let key = key();
    let mut request = request_with_record_behind_tsig(now);
    let err = match ServerTransaction::request(&key, &mut request, now) {
        Err(err) => err,
        Ok(_) => panic!("a misplaced TSIG record was accepted"),
    };
    // the caller now builds the error response, as the documentation says
    let answer = err
        .build_message(&request, MessageBuilder::new_vec())
        .expect("building the error response");
    let answer = answer.into_message();
    assert_eq!(answer.header().rcode(), Rcode::FORMERR);
}
