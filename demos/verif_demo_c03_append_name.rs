// cargo test --offline --test verif_demo_c03_append_name
// NameBuilder::append_name is documented to end a label under construction
// before appending the name.  It takes `self.head` before calling
// end_label(), so the label's length octet is never written: the finished
// name contains a zero length octet (a root label) in the middle.
use domain::base::name::{NameBuilder, RelativeName};
use std::str::FromStr;

#[test]
fn append_name_ends_the_label_under_construction() {
    let tail = RelativeName::<Vec<u8>>::from_str("b.c").unwrap();
    let mut builder = NameBuilder::new_vec();
    builder.push(b'a').unwrap();
    builder.append_name(&tail).unwrap();
    let name = builder.finish();
    // every relative name must pass the slice validator
    assert!(
        RelativeName::from_slice(name.as_slice()).is_ok(),
        "builder produced an invalid relative name: {:?}",
        name.as_slice()
    );
    assert_eq!(name.as_slice(), b"\x01a\x01b\x01c");
}
