//! An SVCB record with no-default-alpn must read back from its own
//! presentation form.
#![cfg(feature = "zonefile")]
use domain::base::zonefile_fmt::{DisplayKind, ZonefileFmt};
use domain::zonefile::inplace::{Entry, Zonefile};

#[test]
fn no_default_alpn_round_trip() {
    let mut zone = Zonefile::from("a.example.com. 300 IN SVCB 1 . alpn=h2 no-default-alpn\n");
    let rec = match zone.next_entry().unwrap().unwrap() {
        Entry::Record(r) => r,
        _ => panic!("record expected"),
    };
    let text = format!("{}\n", rec.display_zonefile(DisplayKind::Simple));
    let mut again = Zonefile::from(text.as_str());
    let back = again.next_entry();
    assert!(matches!(back, Ok(Some(Entry::Record(_)))), "written as {text:?}, read back as {back:?}");
}
