//! A record whose owner name starts with '$' must read back from its own
//! presentation form (the reader takes an entry starting with '$' for a
//! control directive).
#![cfg(feature = "zonefile")]
use std::str::FromStr;

use domain::base::iana::Class;
use domain::base::zonefile_fmt::{DisplayKind, ZonefileFmt};
use domain::base::{Name, Record, Ttl};
use domain::rdata::A;
use domain::zonefile::inplace::{Entry, Zonefile};

#[test]
fn owner_starting_with_dollar() {
    // the escaped spelling is read fine ...
    let mut zone = Zonefile::from("\\$ttl.example. 3600 IN A 192.0.2.1\n");
    assert!(matches!(zone.next_entry(), Ok(Some(Entry::Record(_)))));
    // ... so the writer has to produce it
    let owner = Name::<Vec<u8>>::from_str("\\$ttl.example.").unwrap();
    let rec = Record::new(owner, Class::IN, Ttl::from_secs(3600), A::from_octets(192, 0, 2, 1));
    let text = format!("{}\n", rec.display_zonefile(DisplayKind::Simple));
    let mut again = Zonefile::from(text.as_str());
    let back = again.next_entry();
    assert!(matches!(back, Ok(Some(Entry::Record(_)))), "written as {text:?}, read back as {back:?}");
}
