//! A NOTIFY request whose announced records cannot be parsed must not panic
//! the server (the notification itself is accepted from the question alone).
#![cfg(all(feature = "unstable-server-transport", feature = "unstable-client-transport"))]

use std::future::Future;
use std::net::IpAddr;
use std::pin::Pin;
use tokio::time::Instant;

use bytes::Bytes;
use domain::base::iana::{Class, Opcode, Rcode};
use domain::base::{Message, MessageBuilder, Name, Question, Rtype, Serial};
use domain::net::server::message::{Request, UdpTransportContext};
use domain::net::server::middleware::notify::{
    Notifiable, NotifyError, NotifyMiddlewareSvc,
};
use domain::net::server::service::{CallResult, Service, ServiceResult};
use domain::net::server::util::service_fn;
use futures_util::StreamExt;
use std::str::FromStr;

#[derive(Clone)]
struct AcceptAll;

impl Notifiable for AcceptAll {
    fn notify_zone_changed(
        &self,
        _class: Class,
        _apex_name: &Name<Bytes>,
        _serial: Option<Serial>,
        _source: IpAddr,
    ) -> Pin<Box<dyn Future<Output = Result<(), NotifyError>> + Sync + Send + '_>> {
        Box::pin(std::future::ready(Ok(())))
    }
}

fn my_service(_req: Request<Vec<u8>, ()>, _meta: ()) -> ServiceResult<Vec<u8>> {
    unreachable!("NOTIFY is answered by the middleware")
}

fn notify_request(ancount: u16, tail: &[u8]) -> Message<Vec<u8>> {
    let mut msg = MessageBuilder::new_vec();
    msg.header_mut().set_opcode(Opcode::NOTIFY);
    msg.header_mut().set_id(0x1234);
    let mut msg = msg.question();
    msg.push(Question::new_in(Name::<Vec<u8>>::from_str("example.com.").unwrap(), Rtype::SOA)).unwrap();
    let mut octets = msg.finish();
    octets[6..8].copy_from_slice(&ancount.to_be_bytes());
    octets.extend_from_slice(tail);
    Message::from_octets(octets).unwrap()
}

async fn run(message: Message<Vec<u8>>) -> Rcode {
    let request = Request::new(
        "127.0.0.1:12345".parse().unwrap(),
        Instant::now(),
        message,
        UdpTransportContext::default().into(),
        (),
    );
    let svc = NotifyMiddlewareSvc::<Vec<u8>, _, (), _>::new(service_fn(my_service, ()), AcceptAll);
    let mut stream = svc.call(request).await;
    let call_result: CallResult<Vec<u8>> = stream.next().await.unwrap().unwrap();
    let (response, _) = call_result.into_inner();
    let response = response.unwrap().finish();
    Message::from_octets(response.as_dgram_slice().to_vec()).unwrap().header().rcode()
}

#[tokio::test]
async fn well_formed_notify_is_acknowledged() {
    assert_eq!(run(notify_request(0, b"")).await, Rcode::NOERROR);
}

#[tokio::test]
async fn notify_with_a_truncated_answer_record() {
    // ANCOUNT says 1, the record is cut off after the owner name
    let rcode = run(notify_request(1, &[0xC0, 0x0C, 0x00, 0x06])).await;
    assert!(rcode == Rcode::FORMERR || rcode == Rcode::NOERROR, "{rcode:?}");
}
