#![allow(unused_imports, dead_code)]
// The opaque carriers compare their type / key. From two sub-agents' scratch tests.
//
// Place into tests/ and run:
//   cargo test --offline -j3 --test c04_preexisting
//
// Every test asserts the behaviour the property demands, so every test
// FAILS on the unmodified library (each failure = one confirmed finding).

use core::cmp::Ordering;
use core::hash::{Hash, Hasher};
use domain::base::cmp::CanonicalOrd;
use domain::base::iana::{
    Class, Nsec3HashAlgorithm, Rtype, SecurityAlgorithm, ZonemdAlgorithm,
    ZonemdScheme,
};
use domain::base::name::Name;
use domain::base::rdata::{ComposeRecordData, UnknownRecordData};
use domain::base::record::{Record, Ttl};
use domain::base::Serial;
use domain::base::iana::SvcParamKey;
use domain::rdata::svcb::UnknownSvcParam;
use domain::rdata::dnssec::{RtypeBitmap, Timestamp};
use domain::rdata::ipseckey::{Ipseckey, IpseckeyGateway};
use domain::rdata::nsec3::{Nsec3Salt, OwnerHash};
use domain::rdata::{
    AllRecordData, Nsec3, Rrsig, ZoneRecordData, Zonemd, A,
};
use std::collections::hash_map::DefaultHasher;
use std::str::FromStr;
use std::vec::Vec;

type VName = Name<Vec<u8>>;

fn h<T: Hash>(t: &T) -> u64 {
    let mut s = DefaultHasher::new();
    t.hash(&mut s);
    s.finish()
}

fn name(s: &str) -> VName {
    Name::from_str(s).unwrap()
}

fn canon<D: ComposeRecordData>(d: &D) -> Vec<u8> {
    let mut v = Vec::new();
    d.compose_canonical_rdata(&mut v).unwrap();
    v
}

fn unk(rtype: u16, data: &[u8]) -> UnknownRecordData<Vec<u8>> {
    UnknownRecordData::from_octets(Rtype::from_int(rtype), data.to_vec())
        .unwrap()
}

/// UnknownRecordData::eq ignores the record type; ZoneRecordData::Unknown
/// values of different types with the same octets are `==`, but hash
/// differently.
#[test]
fn p2_zone_record_data_unknown_eq_vs_hash() {
    let a: ZoneRecordData<Vec<u8>, VName> =
        ZoneRecordData::Unknown(unk(65400, b"abc"));
    let b: ZoneRecordData<Vec<u8>, VName> =
        ZoneRecordData::Unknown(unk(65401, b"abc"));
    if a == b {
        assert_eq!(h(&a), h(&b), "a == b but hash(a) != hash(b)");
    }
}

/// Same root cause: whole records of different type compare equal, yet
/// the canonical order separates them.
#[test]
fn p2b_record_unknown_eq_ignores_rtype() {
    let a = Record::new(
        name("example."),
        Class::IN,
        Ttl::from_secs(1),
        unk(65400, b"abc"),
    );
    let b = Record::new(
        name("example."),
        Class::IN,
        Ttl::from_secs(1),
        unk(65401, b"abc"),
    );
    assert_ne!(a.canonical_cmp(&b), Ordering::Equal);
    assert!(a != b, "records of different rtype compare equal");
}


#[test]
fn unknown_svc_param_equality_respects_key() {
    use domain::rdata::svcb::UnknownSvcParam;
    let a = UnknownSvcParam::new(65280.into(), b"hello").unwrap();
    let b = UnknownSvcParam::new(65281.into(), b"hello").unwrap();
    assert!(a != b, "key65280=hello and key65281=hello compare equal");
}
