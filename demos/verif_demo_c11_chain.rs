// cargo test --offline --features tsig --test verif_demo_c11_chain
// A multi-message TSIG exchange (AXFR-style) with a key that truncates its
// signatures: the server chains the *untruncated* MAC of its previous answer
// into the next digest, the client (correctly) chains the MAC it received.
// The second answer of an honest exchange fails to verify.
use domain::base::iana::Rcode;
use domain::base::message_builder::MessageBuilder;
use domain::base::{Message, Name, Rtype};
use domain::rdata::tsig::Time48;
use domain::tsig::{Algorithm, ClientSequence, Key, KeyName, ServerSequence};
use std::str::FromStr;
use std::sync::Arc;

fn exchange(signing_len: Option<usize>) -> Vec<Result<(), String>> {
    let key = Arc::new(
        Key::new(
            Algorithm::Sha256,
            b"0123456789abcdef0123456789abcdef",
            KeyName::from_str("key.example.").unwrap(),
            Some(16),
            signing_len,
        )
        .unwrap(),
    );
    let now = Time48::from_u64(1_700_000_000);

    // client request
    let mut req = MessageBuilder::new_vec();
    req.header_mut().set_id(4711);
    let mut req = req.question();
    req.push((Name::<Vec<u8>>::from_str("example.com.").unwrap(), Rtype::AXFR))
        .unwrap();
    let mut req = req.additional();
    let mut client = ClientSequence::request(key.clone(), &mut req, now).unwrap();
    let mut req_msg = Message::from_octets(req.finish()).unwrap();

    // server side
    let mut server = ServerSequence::request(&key, &mut req_msg, now)
        .map_err(|_| ())
        .unwrap()
        .unwrap();

    let mut results = Vec::new();
    for _ in 0..3 {
        let ans = MessageBuilder::new_vec()
            .start_answer(&req_msg, Rcode::NOERROR)
            .unwrap();
        let mut ans = ans.additional();
        server.answer(&mut ans, now).unwrap();
        let mut ans_msg = Message::from_octets(ans.finish()).unwrap();
        results.push(
            client
                .answer(&mut ans_msg, now)
                .map_err(|e| format!("{:?}", e)),
        );
    }
    results
}

#[test]
fn honest_sequence_verifies_with_full_length_macs() {
    for r in exchange(None) {
        r.unwrap();
    }
}

#[test]
fn honest_sequence_verifies_with_truncated_macs() {
    for (i, r) in exchange(Some(16)).into_iter().enumerate() {
        assert!(r.is_ok(), "answer {} of an honest sequence rejected: {:?}", i + 1, r);
    }
}
