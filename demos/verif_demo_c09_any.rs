//! A held reader's answer to a QTYPE ANY query must not depend on RRset types
//! an uncommitted writer has added to the node (nor on hash order).
#![cfg(feature = "unstable-zonetree")]

use std::str::FromStr;

use bytes::Bytes;
use domain::base::iana::{Class, Rtype};
use domain::base::name::{Label, Name};
use domain::base::Ttl;
use domain::rdata::{Aaaa, Txt, ZoneRecordData, A};
use domain::zonetree::{
    AnswerContent, ReadableZone, Rrset, SharedRrset, WritableZoneNode, Zone,
    ZoneBuilder,
};

fn name(s: &str) -> Name<Bytes> {
    Name::from_str(s).unwrap()
}

fn rrset(rtype: Rtype, data: ZoneRecordData<Bytes, Name<Bytes>>) -> SharedRrset {
    let mut rrset = Rrset::new(rtype, Ttl::from_secs(60));
    rrset.push_data(data);
    SharedRrset::new(rrset)
}

async fn node(root: &Box<dyn WritableZoneNode>, label: &str) -> Box<dyn WritableZoneNode> {
    root.update_child(Label::from_slice(label.as_bytes()).unwrap()).await.unwrap()
}

fn lookup(r: &dyn ReadableZone, qname: &str, qtype: Rtype) -> String {
    let ans = r.query(name(qname), qtype).unwrap();
    match ans.content() {
        AnswerContent::Data(rrset) => format!(
            "{:?} {:?}", ans.rcode(),
            rrset.data().iter().map(|d| d.to_string()).collect::<Vec<_>>()
        ),
        AnswerContent::Cname(_) => format!("{:?} CNAME", ans.rcode()),
        AnswerContent::NoData => format!("{:?} nodata", ans.rcode()),
    }
}

#[tokio::test]
async fn any_answer_of_a_held_reader_is_stable() {
    let mut changed = Vec::new();
    for round in 0..20 {
        let zone: Zone = ZoneBuilder::new(name("example.com"), Class::IN).build();
        let mut w = zone.write().await;
        let root = w.open(false).await.unwrap();
        node(&root, "h").await
            .update_rrset(rrset(Rtype::A, ZoneRecordData::A(A::from_str("10.0.0.1").unwrap())))
            .await.unwrap();
        drop(root);
        w.commit(false).await.unwrap();
        drop(w);

        let reader = zone.read();
        let before = lookup(&*reader, "h.example.com", Rtype::ANY);
        assert!(before.contains("10.0.0.1"), "{before}");

        // a second writer adds more types to the node and does not commit
        let w = zone.write().await;
        let root = w.open(false).await.unwrap();
        let n = node(&root, "h").await;
        n.update_rrset(rrset(Rtype::TXT, ZoneRecordData::Txt(Txt::build_from_slice(b"hi").unwrap()))).await.unwrap();
        n.update_rrset(rrset(Rtype::AAAA, ZoneRecordData::Aaaa(Aaaa::from_str("::1").unwrap()))).await.unwrap();
        let during = lookup(&*reader, "h.example.com", Rtype::ANY);
        if during != before {
            changed.push((round, before.clone(), during));
        }
        drop(n);
        drop(root);
        drop(w);
    }
    assert!(changed.is_empty(), "held reader's ANY answer changed: {:?}", &changed[..changed.len().min(3)]);
}
