// Pre-existing violations of C15 in the UNMODIFIED stream transport
// (src/net/client/stream.rs). Each test asserts what the property demands
// and therefore FAILS on the unmodified library.
//
// Place this file in tests/ of the repository and run:
//
//   cargo test --offline --features net,unstable-client-transport \
//       --test c15_pre_stream -- --nocapture --test-threads 1
#![cfg(all(feature = "net", feature = "unstable-client-transport"))]

use domain::base::iana::Rcode;
use domain::base::{Message, MessageBuilder, Name, Rtype, Serial, Ttl};
use domain::net::client::request::{
    RequestMessage, RequestMessageMulti, SendRequest, SendRequestMulti,
};
use domain::net::client::stream;
use domain::rdata::{A, Soa};
use std::str::FromStr;
use std::time::{Duration, Instant};
use tokio::io::{AsyncReadExt, AsyncWriteExt, DuplexStream};

type Conn = stream::Connection<
    RequestMessage<Vec<u8>>,
    RequestMessageMulti<Vec<u8>>,
>;

fn name(s: &str) -> Name<Vec<u8>> {
    Name::from_str(s).unwrap()
}

fn query(qname: &str, qtype: Rtype) -> Message<Vec<u8>> {
    let mut msg = MessageBuilder::new_vec();
    msg.header_mut().set_rd(true);
    let mut msg = msg.question();
    msg.push((name(qname), qtype)).unwrap();
    msg.into_message()
}

fn request(qname: &str) -> RequestMessage<Vec<u8>> {
    RequestMessage::new(query(qname, Rtype::A)).unwrap()
}

fn soa(zone: &str, serial: u32) -> Soa<Name<Vec<u8>>> {
    Soa::new(
        name(&format!("ns.{zone}")),
        name(&format!("admin.{zone}")),
        Serial(serial),
        Ttl::from_secs(60),
        Ttl::from_secs(60),
        Ttl::from_secs(60),
        Ttl::from_secs(60),
    )
}

/// Reads one length-prefixed DNS message.
async fn read_msg(stream: &mut DuplexStream) -> Option<Message<Vec<u8>>> {
    let len = stream.read_u16().await.ok()? as usize;
    let mut buf = vec![0u8; len];
    stream.read_exact(&mut buf).await.ok()?;
    Message::from_octets(buf).ok()
}

async fn write_msg(stream: &mut DuplexStream, msg: &[u8]) {
    stream.write_u16(msg.len() as u16).await.unwrap();
    stream.write_all(msg).await.unwrap();
}

/// A plain answer to `req` with one A record.
fn answer(req: &Message<Vec<u8>>) -> Vec<u8> {
    let mut msg = MessageBuilder::new_vec()
        .start_answer(req, Rcode::NOERROR)
        .unwrap();
    let qname = req.sole_question().unwrap().into_qname();
    msg.push((qname, 60, A::from_octets(192, 0, 2, 1))).unwrap();
    msg.into_message().into_octets()
}

fn setup(timeout: Duration) -> (Conn, DuplexStream) {
    let (client, server) = tokio::io::duplex(1 << 20);
    let mut config = stream::Config::new();
    config.set_response_timeout(timeout);
    let (conn, transport) = Conn::with_config(client, config);
    tokio::spawn(transport.run());
    (conn, server)
}

// P1: the response timeout is one timer per connection that every answer to
// ANY request restarts. A request whose answer was lost is kept pending
// for as long as other requests on the connection keep being answered.
#[tokio::test(flavor = "multi_thread", worker_threads = 2)]
async fn p1_lost_answer_times_out_on_a_busy_connection() {
    let (conn, mut server) = setup(Duration::from_millis(300));

    // The peer answers everything but "lost.example".
    tokio::spawn(async move {
        while let Some(req) = read_msg(&mut server).await {
            let qname = req.sole_question().unwrap().into_qname();
            if qname != name("lost.example") {
                write_msg(&mut server, &answer(&req)).await;
            }
        }
    });

    let start = Instant::now();
    let mut lost = SendRequest::send_request(&conn, request("lost.example"));
    let lost = tokio::spawn(async move {
        let res = lost.get_response().await;
        (res.map(|_| ()), start.elapsed())
    });

    // Other callers keep the connection busy: one request every 200 ms
    // for two seconds, each of them answered at once.
    for i in 0..10 {
        tokio::time::sleep(Duration::from_millis(200)).await;
        let mut req = SendRequest::send_request(
            &conn,
            request(&format!("host{i}.example")),
        );
        assert!(req.get_response().await.is_ok());
    }

    let (res, elapsed) = lost.await.unwrap();
    eprintln!("P1: lost.example completed after {elapsed:?} with {res:?}");
    assert!(
        elapsed < Duration::from_millis(600),
        "response timeout is 300 ms, the request was pending {elapsed:?}"
    );
}

// P2: the first message of an AXFR response is accepted although it has no
// question section at all (RequestMessageMulti::is_answer returns true for
// any AXFR request as soon as qdcount == 0, check_stream uses it for the
// first message, too). The caller is handed somebody else's data.
#[tokio::test(flavor = "multi_thread", worker_threads = 2)]
async fn p2_first_axfr_message_needs_the_question() {
    let (conn, mut server) = setup(Duration::from_millis(500));

    tokio::spawn(async move {
        let req = read_msg(&mut server).await.unwrap();
        // Same ID, QR set, NO question, a complete tiny zone "other.org".
        let mut msg = MessageBuilder::new_vec();
        msg.header_mut().set_id(req.header().id());
        msg.header_mut().set_qr(true);
        msg.header_mut().set_aa(true);
        let mut msg = msg.answer();
        msg.push((name("other.org"), 60, soa("other.org", 7))).unwrap();
        msg.push((name("www.other.org"), 60, A::from_octets(10, 0, 0, 1)))
            .unwrap();
        msg.push((name("other.org"), 60, soa("other.org", 7))).unwrap();
        write_msg(&mut server, &msg.into_message().into_octets()).await;
        // Keep the connection open.
        let _ = read_msg(&mut server).await;
    });

    let req =
        RequestMessageMulti::new(query("example.com", Rtype::AXFR)).unwrap();
    let mut req = SendRequestMulti::send_request(&conn, req);
    let first = req.get_response().await;
    eprintln!(
        "P2: first AXFR response without question: {:?}",
        first.as_ref().map(|m| m.as_ref().map(|m| {
            (m.header_counts().qdcount(), m.header_counts().ancount())
        }))
    );
    assert!(
        !matches!(first, Ok(Some(_))),
        "a first AXFR message without question section was handed to the \
         caller as the answer to its AXFR of example.com"
    );
}

// P3: a zone transfer only keeps its own `mpsc` channel, not the
// connection, alive. If the caller drops its `Connection` handle after
// having started the transfer, Transport::run takes that for "all
// references dropped" and shuts down under the pending transfer.
#[tokio::test(flavor = "multi_thread", worker_threads = 2)]
async fn p3_transfer_survives_dropping_the_connection_handle() {
    let (conn, mut server) = setup(Duration::from_millis(500));

    tokio::spawn(async move {
        let req = read_msg(&mut server).await.unwrap();
        tokio::time::sleep(Duration::from_millis(50)).await;
        let mut msg = MessageBuilder::new_vec()
            .start_answer(&req, Rcode::NOERROR)
            .unwrap();
        msg.push((name("example.com"), 60, soa("example.com", 1))).unwrap();
        msg.push((name("example.com"), 60, soa("example.com", 1))).unwrap();
        let _ = server.write_u16(msg.as_slice().len() as u16).await;
        let _ = server.write_all(msg.as_slice()).await;
        let _ = read_msg(&mut server).await;
    });

    let req =
        RequestMessageMulti::new(query("example.com", Rtype::AXFR)).unwrap();
    let mut req = SendRequestMulti::send_request(&conn, req);
    drop(conn);
    let first = req.get_response().await;
    eprintln!("P3: {:?}", first.as_ref().map(|m| m.is_some()));
    assert!(
        matches!(first, Ok(Some(_))),
        "the peer answered the transfer correctly, the caller got {first:?}"
    );
}

// P4: Transport::run hands the messages of a transfer to the caller with
// `mpsc::Sender::send().await` (capacity 8) from inside its main loop. A
// caller that does not fetch its transfer quickly enough stalls the whole
// connection: no request is accepted, no answer is delivered and not even
// the response timeout fires any more.
#[tokio::test(flavor = "multi_thread", worker_threads = 2)]
async fn p4_slow_transfer_consumer_does_not_block_other_requests() {
    let (conn, mut server) = setup(Duration::from_millis(300));

    tokio::spawn(async move {
        // The first request is the AXFR: send 12 messages of a transfer
        // that does not end yet.
        let req = read_msg(&mut server).await.unwrap();
        for i in 0..12 {
            let mut msg = MessageBuilder::new_vec()
                .start_answer(&req, Rcode::NOERROR)
                .unwrap();
            if i == 0 {
                msg.push((name("example.com"), 60, soa("example.com", 1)))
                    .unwrap();
            }
            msg.push((
                name(&format!("h{i}.example.com")),
                60,
                A::from_octets(10, 0, 0, i),
            ))
            .unwrap();
            write_msg(&mut server, msg.as_slice()).await;
        }
        // Answer whatever else comes in.
        while let Some(req) = read_msg(&mut server).await {
            write_msg(&mut server, &answer(&req)).await;
        }
    });

    let req =
        RequestMessageMulti::new(query("example.com", Rtype::AXFR)).unwrap();
    let mut xfr = SendRequestMulti::send_request(&conn, req);
    // Start the transfer and take its first message, then be busy with
    // something else for a while.
    assert!(matches!(xfr.get_response().await, Ok(Some(_))));
    tokio::time::sleep(Duration::from_millis(100)).await;

    let start = Instant::now();
    let mut other = SendRequest::send_request(&conn, request("www.example"));
    let res = tokio::time::timeout(
        Duration::from_millis(1500),
        other.get_response(),
    )
    .await;
    eprintln!(
        "P4: other request after {:?}: {:?}",
        start.elapsed(),
        res.as_ref().map(|r| r.as_ref().map(|_| ()))
    );
    assert!(
        res.is_ok(),
        "response timeout is 300 ms; the request neither got its answer \
         nor an error within 1500 ms"
    );
    drop(xfr);
}
