//! Decimal numbers that overflow their type in the last digit must be an
//! error, not a panic (debug builds) or a wrapped value (release builds).
#![cfg(feature = "zonefile")]
use domain::zonefile::inplace::Zonefile;

fn read_all(src: &str) -> Vec<String> {
    let mut zone = Zonefile::from(src);
    zone.set_origin("example.com.".parse().unwrap());
    let mut out = Vec::new();
    loop {
        match zone.next_entry() {
            Ok(Some(e)) => out.push(format!("{:?}", e)),
            Ok(None) => break,
            Err(e) => { out.push(format!("ERR {}", e)); break }
        }
    }
    out
}

#[test]
fn ttl_overflow_in_last_digit() {
    // 429496729 * 10 fits into u32, adding 9 does not
    let out = read_all("a 4294967299 IN A 192.0.2.1\n");
    assert!(out[0].starts_with("ERR"), "{:?}", out);
}

#[test]
fn u8_overflow_in_last_digit() {
    // 25 * 10 fits into u8, adding 9 does not (CAA flags are a u8)
    let out = read_all("a 300 IN CAA 259 issue \"ca.example.net\"\n");
    assert!(out[0].starts_with("ERR"), "{:?}", out);
}

#[test]
fn u16_overflow_in_last_digit() {
    let out = read_all("a 300 IN MX 65539 mail\n");
    assert!(out[0].starts_with("ERR"), "{:?}", out);
}

#[test]
fn maxima_still_read() {
    let out = read_all("a 4294967295 IN MX 65535 mail\n");
    assert!(!out[0].starts_with("ERR"), "{:?}", out);
    let out = read_all("a 300 IN CAA 255 issue \"ca.example.net\"\n");
    assert!(!out[0].starts_with("ERR"), "{:?}", out);
}
