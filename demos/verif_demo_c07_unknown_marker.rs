//! The RFC 3597 marker `\#` followed directly by a delimiter: the delimiter
//! must still be interpreted by the reader.
#![cfg(feature = "zonefile")]
use domain::zonefile::inplace::Zonefile;

fn read_all(src: &str) -> Vec<String> {
    let mut zone = Zonefile::from(src);
    zone.set_origin("example.com.".parse().unwrap());
    let mut out = Vec::new();
    loop {
        match zone.next_entry() {
            Ok(Some(e)) => out.push(format!("{:?}", e)),
            Ok(None) => break,
            Err(e) => { out.push(format!("ERR {}", e)); break }
        }
    }
    out
}

#[test]
fn marker_then_paren() {
    let plain = read_all("a 300 IN TYPE731 \\# 4 C0000201\n");
    let spaced = read_all("a 300 IN TYPE731 \\# ( 4 C0000201 )\n");
    let tight = read_all("a 300 IN TYPE731 \\#( 4 C0000201 )\n");
    assert_eq!(plain.len(), 1);
    assert!(!plain[0].starts_with("ERR"), "{:?}", plain);
    assert_eq!(plain, spaced);
    assert_eq!(plain, tight);
}

#[test]
fn marker_then_comment() {
    let plain = read_all("a 300 IN TYPE731 ( \\# ; generic\n 4 C0000201 )\n");
    let tight = read_all("a 300 IN TYPE731 ( \\#; generic\n 4 C0000201 )\n");
    assert!(!plain[0].starts_with("ERR"), "{:?}", plain);
    assert_eq!(plain, tight);
}

#[test]
fn marker_then_line_feed_keeps_line_numbers() {
    // the entry after the record is bad: its error position must not depend on the layout
    let a = read_all("a 300 IN TYPE731 ( \\# \n 4 C0000201 )\nb 300 IN A bad\n");
    let b = read_all("a 300 IN TYPE731 ( \\#\n 4 C0000201 )\nb 300 IN A bad\n");
    assert_eq!(a.last(), b.last());
}
