//! CLASS and TTL of the TSIG record are TSIG variables covered by the MAC
//! (RFC 8945, 4.3.3). A message in which they were altered must not verify.
#![cfg(feature = "tsig")]

use std::str::FromStr;

use domain::base::iana::Rtype;
use domain::base::{Message, MessageBuilder, Name};
use domain::rdata::tsig::Time48;
use domain::tsig::{Algorithm, ClientTransaction, Key, KeyName, ServerTransaction};

fn key() -> Key {
    Key::new(
        Algorithm::Sha256,
        b"0123456789abcdef0123456789abcdef",
        KeyName::from_str("key.example.").unwrap(),
        None,
        None,
    )
    .unwrap()
}

fn signed_request(now: Time48) -> Vec<u8> {
    let key = key();
    let mut msg = MessageBuilder::new_vec();
    msg.header_mut().set_random_id();
    let mut msg = msg.question();
    msg.push((Name::<Vec<u8>>::from_str("example.com.").unwrap(), Rtype::A)).unwrap();
    let mut msg = msg.additional();
    let _ = ClientTransaction::request(&key, &mut msg, now).unwrap();
    msg.finish()
}

/// Offset of the TSIG record's TYPE field: header (12) + question
/// (13 + 4) + owner name "key.example." (13).
const TSIG_TYPE: usize = 12 + 13 + 4 + 13;

fn verifies(octets: Vec<u8>, now: Time48) -> bool {
    let mut msg = Message::from_octets(octets).unwrap();
    matches!(ServerTransaction::request(&key(), &mut msg, now), Ok(Some(_)))
}

#[test]
fn untouched_request_verifies() {
    let now = Time48::now();
    let req = signed_request(now);
    assert_eq!(&req[TSIG_TYPE..TSIG_TYPE + 2], &[0, 250], "offset of the TSIG record");
    assert_eq!(&req[TSIG_TYPE + 2..TSIG_TYPE + 4], &[0, 255], "class ANY");
    assert!(verifies(req, now));
}

#[test]
fn altered_class_is_rejected() {
    let now = Time48::now();
    let mut req = signed_request(now);
    req[TSIG_TYPE + 3] = 1; // ANY -> IN
    assert!(!verifies(req, now), "a TSIG record with CLASS IN was accepted");
}

#[test]
fn altered_ttl_is_rejected() {
    let now = Time48::now();
    for bit in 0..32 {
        let mut req = signed_request(now);
        req[TSIG_TYPE + 4 + bit / 8] ^= 1 << (bit % 8);
        assert!(!verifies(req, now), "a TSIG record with TTL bit {bit} flipped was accepted");
    }
}
