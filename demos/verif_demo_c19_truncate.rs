// cargo test --offline --features unstable-new --test verif_demo_c19_truncate
// The new MessageBuilder::truncate() "removes all message contents and marks
// it as truncated", but leaves the section counts in the header as they were:
// the finished message announces records that are not there, and the
// established parser cannot read it.
#![cfg(feature = "unstable-new")]

use domain::new::base::build::{MessageBuilder, NameCompressor};
use domain::new::base::name::{Name, NameBuf};
use domain::new::base::wire::{AsBytes, U16};
use domain::new::base::{HeaderFlags, QClass, QType, Question};

#[test]
fn truncated_message_is_well_formed() {
    let mut buffer = [0u8; 512];
    let mut compressor = NameCompressor::default();
    let mut builder = MessageBuilder::new(
        &mut buffer,
        &mut compressor,
        U16::new(7),
        HeaderFlags::default(),
    );
    let name: NameBuf = "example.org.".parse().unwrap();
    builder
        .push_question(&Question::<&Name> {
            qname: &name,
            qtype: QType::A,
            qclass: QClass::IN,
        })
        .unwrap();
    builder.truncate();
    let bytes = builder.finish().as_bytes().to_vec();

    let msg = domain::base::Message::from_octets(bytes.as_slice()).unwrap();
    assert!(msg.header().tc());
    // every section the header announces can be read
    let counts = msg.header_counts();
    assert_eq!(
        (counts.qdcount(), counts.ancount(), counts.nscount(), counts.arcount()),
        (0, 0, 0, 0),
        "truncate() removed the contents but the header still counts them"
    );
    assert!(msg.question().all(|q| q.is_ok()));
}
