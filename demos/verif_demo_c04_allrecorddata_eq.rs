#![allow(unused_imports, dead_code)]
// AllRecordData values of the Unknown and Opt variants are equal to themselves. From a sub-agent's scratch tests.
//
// Place into tests/ and run:
//   cargo test --offline -j3 --test c04_preexisting
//
// Every test asserts the behaviour the property demands, so every test
// FAILS on the unmodified library (each failure = one confirmed finding).

use core::cmp::Ordering;
use core::hash::{Hash, Hasher};
use domain::base::cmp::CanonicalOrd;
use domain::base::iana::{
    Class, Nsec3HashAlgorithm, Rtype, SecurityAlgorithm, ZonemdAlgorithm,
    ZonemdScheme,
};
use domain::base::name::Name;
use domain::base::rdata::{ComposeRecordData, UnknownRecordData};
use domain::base::record::{Record, Ttl};
use domain::base::Serial;
use domain::rdata::dnssec::{RtypeBitmap, Timestamp};
use domain::rdata::ipseckey::{Ipseckey, IpseckeyGateway};
use domain::rdata::nsec3::{Nsec3Salt, OwnerHash};
use domain::rdata::{
    AllRecordData, Nsec3, Rrsig, ZoneRecordData, Zonemd, A,
};
use std::collections::hash_map::DefaultHasher;
use std::str::FromStr;
use std::vec::Vec;

type VName = Name<Vec<u8>>;

fn h<T: Hash>(t: &T) -> u64 {
    let mut s = DefaultHasher::new();
    t.hash(&mut s);
    s.finish()
}

fn name(s: &str) -> VName {
    Name::from_str(s).unwrap()
}

fn canon<D: ComposeRecordData>(d: &D) -> Vec<u8> {
    let mut v = Vec::new();
    d.compose_canonical_rdata(&mut v).unwrap();
    v
}

fn unk(rtype: u16, data: &[u8]) -> UnknownRecordData<Vec<u8>> {
    UnknownRecordData::from_octets(Rtype::from_int(rtype), data.to_vec())
        .unwrap()
}

/// AllRecordData::eq has no arm for the Unknown and Opt variants, so a value
/// of those variants is not equal to itself (while cmp() says Equal).
#[test]
fn p1_all_record_data_unknown_not_reflexive() {
    let a: AllRecordData<Vec<u8>, VName> =
        AllRecordData::Unknown(unk(65400, b"abc"));
    let b = a.clone();
    assert_eq!(a.cmp(&b), Ordering::Equal);
    assert!(a == b, "AllRecordData::Unknown(x) != its own clone");
}


#[test]
fn p1b_all_record_data_opt_reflexive() {
    use domain::base::opt::Opt;
    let x: AllRecordData<Vec<u8>, VName> = AllRecordData::Opt(Opt::from_octets(Vec::new()).unwrap());
    assert!(x == x.clone(), "Opt data is not equal to itself");
}
