//! A quoted token read through `scan_string` (control words and the
//! `$INCLUDE` path) must have the same value as its unquoted spelling.
#![cfg(feature = "zonefile")]
use domain::zonefile::inplace::Zonefile;

fn read_all(src: &str) -> Vec<String> {
    let mut zone = Zonefile::from(src);
    zone.set_origin("example.com.".parse().unwrap());
    let mut out = Vec::new();
    loop {
        match zone.next_entry() {
            Ok(Some(e)) => out.push(format!("{:?}", e)),
            Ok(None) => break,
            Err(e) => { out.push(format!("ERR {}", e)); break }
        }
    }
    out
}

#[test]
fn quoted_include_path() {
    let plain = read_all("$INCLUDE sub.zone\n");
    let quoted = read_all("$INCLUDE \"sub.zone\"\n");
    let escaped = read_all("$INCLUDE \"sub\\.zone\"\n");
    assert!(plain[0].contains("sub.zone"), "{:?}", plain);
    assert_eq!(plain, escaped);
    assert_eq!(plain, quoted);
}

#[test]
fn quoted_path_with_space() {
    let quoted = read_all("$INCLUDE \"my zone\"\n");
    let escaped = read_all("$INCLUDE my\\ zone\n");
    assert_eq!(escaped, quoted);
}

#[test]
fn quoted_control_word() {
    let plain = read_all("$TTL 300\na IN A 192.0.2.1\n");
    let quoted = read_all("\"$TTL\" 300\na IN A 192.0.2.1\n");
    assert_eq!(plain, quoted);
}

#[test]
fn empty_quoted_path() {
    let quoted = read_all("$INCLUDE \"\"\n");
    assert!(quoted[0].contains("path: \"\""), "{:?}", quoted);
}
