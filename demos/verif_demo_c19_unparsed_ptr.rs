#![cfg(feature = "unstable-new")]
// Demonstration for C19.hdr12. Place in tests/; run:
//   cargo test --offline --features unstable-new --test verif_demo_c19_unparsed_ptr
// Fails before the fix (UnparsedName refuses a valid pointer into the 12 octets in front of the name and accepts a
// pointer into the header), passes after it.
use domain::new::base::name::{NameBuf, UnparsedName};
use domain::new::base::parse::SplitMessageBytes;

#[test]
fn pointer_just_in_front_of_the_name_is_accepted_by_both() {
    // question "a.b." (5 octets) + type/class, answer owner = pointer to the question name (0xC00C) at contents
    // offset 9.
    let contents = b"\x01a\x01b\x00\x00\x01\x00\x01\xC0\x0C\x00\x01\x00\x01\x00\x00\x00\x00\x00\x04\x01\x02\x03\x04";
    let nb = NameBuf::split_message_bytes(contents, 9).map(|(_, e)| e);
    let un = <&UnparsedName>::split_message_bytes(contents, 9).map(|(n, e)| (n.len(), e));
    assert!(nb.is_ok());
    assert_eq!(un.ok(), Some((2, 11)));
}

#[test]
fn pointer_into_the_header_is_refused_by_both() {
    // owner = pointer to message offset 2 (inside the header) at contents offset 9
    let contents = b"\x01a\x01b\x00\x00\x01\x00\x01\xC0\x02\x00\x01\x00\x01\x00\x00\x00\x00\x00\x04\x01\x02\x03\x04";
    assert!(NameBuf::split_message_bytes(contents, 9).is_err());
    assert!(<&UnparsedName>::split_message_bytes(contents, 9).is_err());
}
