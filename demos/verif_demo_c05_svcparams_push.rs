#![allow(unused_imports, dead_code)]
// Scratch tests for behaviour of the UNMODIFIED library that violates C05.
//
// Place into `tests/` (e.g. `tests/c05_preexisting.rs`) and run:
//
//     cargo test --offline -j3 --test c05_preexisting --no-fail-fast
//
// Every test asserts what the property demands; each one FAILS on the
// unmodified library (worktree HEAD e15cdb0).

use core::str::FromStr;
use domain::base::iana::{
    Class, IpseckeyAlgorithm, OptionCode, Rtype,
};
use domain::base::name::{Name, ParsedName};
use domain::base::opt::{Opt, UnknownOptData};
use domain::base::rdata::{ComposeRecordData, UnknownRecordData};
use domain::base::{Record, Ttl};
use domain::rdata::ipseckey::IpseckeyGateway;
use domain::rdata::{AllRecordData, Ipseckey, Openpgpkey, ZoneRecordData};
use octseq::array::Array;
use octseq::Parser;
use std::collections::hash_map::DefaultHasher;
use std::hash::{Hash, Hasher};

type N = Name<Vec<u8>>;

fn name(s: &str) -> N {
    Name::from_str(s).unwrap()
}

fn compose_record<D: ComposeRecordData>(data: D) -> Vec<u8> {
    let mut buf = Vec::new();
    Record::new(name("example.com."), Class::IN, Ttl::from_secs(60), data)
        .compose(&mut buf)
        .unwrap();
    buf
}

type ParsedAll<'a> = AllRecordData<&'a [u8], ParsedName<&'a [u8]>>;

fn parse_all(buf: &Vec<u8>) -> Record<ParsedName<&[u8]>, ParsedAll<'_>> {
    let mut parser = Parser::from_ref(buf);
    Record::parse(&mut parser).unwrap().unwrap()
}

//------------ 1: AllRecordData equality for Unknown and Opt -----------------

/// `AllRecordData::eq` has arms for all concrete types but none for the
/// `Unknown` and `Opt` variants (src/rdata/macros.rs, `(_, _) => false`).
/// An unknown record type parsed back from its own wire form therefore never
/// equals the original, and not even itself.
/// When `SvcParamsBuilder::push` runs out of buffer space after key and
/// length have been appended, the partial parameter stays in the internal
/// buffer. `freeze` still works (it follows the pointers), but every later
/// `push` walks the raw buffer and panics on `parse_param(..).unwrap()`.
#[test]
fn svc_params_builder_usable_after_failed_push() {
    use domain::rdata::svcb::{SvcParams, SvcParamsBuilder, UnknownSvcParam};
    let mut builder = SvcParamsBuilder::<Array<32>>::empty();
    builder
        .push(&UnknownSvcParam::new(1.into(), b"abcd").unwrap())
        .unwrap();
    // 16 octets used; key + len fit, the 20 value octets do not.
    assert!(builder
        .push(&UnknownSvcParam::new(2.into(), [0u8; 20]).unwrap())
        .is_err());
    let res = std::panic::catch_unwind(move || {
        let mut builder = builder;
        builder
            .push(&UnknownSvcParam::new(3.into(), b"x").unwrap())
            .map(|_| builder.freeze::<Vec<u8>>().unwrap())
    });
    match res {
        Ok(Ok(params)) => {
            let params: SvcParams<Vec<u8>> = params;
            assert_eq!(
                params.as_slice(),
                b"\x00\x01\x00\x04abcd\x00\x03\x00\x01x"
            );
        }
        Ok(Err(_)) => {} // refusing would be acceptable
        Err(_) => panic!("push after a failed push panics"),
    }
}
