//! C01: ANCOUNT=0xFFFF must not make CNAME-chain following overflow.
//! cargo test --offline --test verif_demo_c01_cname
use domain::base::Message;

#[test]
fn canonical_name_with_huge_ancount() {
    // header: id 0, flags 0x8000 (QR), QDCOUNT 1, ANCOUNT 0xFFFF, NS 0, AR 0
    let mut m = vec![0, 0, 0x80, 0, 0, 1, 0xFF, 0xFF, 0, 0, 0, 0];
    m.extend_from_slice(b"\x07example\x03com\x00\x00\x01\x00\x01"); // question example.com A IN
    let msg = Message::from_octets(m).unwrap();
    let _ = msg.canonical_name(); // must return, Some or None
}
