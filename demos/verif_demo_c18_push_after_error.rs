// cargo test --offline --test verif_demo_c18_push_after_error
// base64::Decoder::push documents: "It is okay to push more data after the
// first error. The method will just keep returned errors."  After the
// malformed group `x=y` it returned an error but left its buffer index one
// past the end of the buffer: the next push panicked (index out of bounds).
use domain::utils::base64::Decoder;

#[test]
fn pushing_after_a_padding_error_keeps_returning_errors() {
    let mut dec = Decoder::<Vec<u8>>::new();
    let mut results = Vec::new();
    for ch in "Zg=a".chars() {
        results.push(dec.push(ch).is_ok());
    }
    assert_eq!(results, [true, true, true, false]);
    // documented as fine; must not panic and must not turn into success
    assert!(dec.push('Z').is_err());
    assert!(dec.push('g').is_err());
    assert!(dec.finalize().is_err());
}
