//! C11 demonstrations: cargo test --offline --features tsig --test verif_demo_c11
use domain::base::iana::{Rcode, TsigRcode};
use domain::base::message::Message;
use domain::base::message_builder::MessageBuilder;
use domain::base::name::Name;
use domain::base::iana::Rtype;
use domain::base::ToName;
use domain::rdata::tsig::{Time48, Tsig};
use domain::tsig::{Algorithm, ClientTransaction, Key, KeyName, ServerTransaction};
use std::str::FromStr;

fn key(secret: &[u8]) -> Key {
    Key::new(Algorithm::Sha256, secret, KeyName::from_str("key.example.").unwrap(), None, None).unwrap()
}

fn signed_request(k: &Key, now: Time48) -> Vec<u8> {
    let mut b = MessageBuilder::new_vec();
    b.header_mut().set_id(0x1234);
    let mut q = b.question();
    q.push((Name::<Vec<u8>>::from_str("example.com.").unwrap(), Rtype::A)).unwrap();
    let mut add = q.additional();
    let _tr = ClientTransaction::request(k, &mut add, now).unwrap();
    add.finish()
}

#[test]
fn wrong_mac_is_answered_with_badsig() {
    let now = Time48::from_u64(1_700_000_000);
    let client_key = key(b"0123456789abcdef0123456789abcdef");
    let server_key = key(b"ffffffffffffffffffffffffffffffff"); // same name + algorithm, other secret
    let mut msg = Message::from_octets(signed_request(&client_key, now)).unwrap();
    match ServerTransaction::request(&server_key, &mut msg, now) {
        Err(err) => assert_eq!(err.error(), TsigRcode::BADSIG, "RFC 8945 5.2.2: a MAC mismatch is BADSIG"),
        Ok(_) => panic!("forged MAC accepted"),
    }
}

#[test]
fn badtime_response_mac_follows_rfc8945() {
    let signed_at = Time48::from_u64(1_700_000_000);
    let server_now = Time48::from_u64(1_700_100_000); // far outside the fudge
    let secret = b"0123456789abcdef0123456789abcdef";
    let k = key(secret);
    let req = signed_request(&k, signed_at);
    // request MAC
    let req_msg = Message::from_octets(req.clone()).unwrap();
    let req_tsig = req_msg.additional().unwrap().limit_to::<Tsig<_, _>>().next().unwrap().unwrap();
    let req_mac: Vec<u8> = req_tsig.data().mac().as_ref().to_vec();
    let mut msg = Message::from_octets(req).unwrap();
    let err = match ServerTransaction::request(&k, &mut msg, server_now) {
        Err(err) => err,
        Ok(_) => panic!("expected BADTIME"),
    };
    assert_eq!(err.error(), TsigRcode::BADTIME);
    let resp = err.build_message(&msg, MessageBuilder::new_vec()).unwrap().finish();
    let resp_msg = Message::from_octets(resp.clone()).unwrap();
    assert_eq!(resp_msg.header().rcode(), Rcode::NOTAUTH);
    // locate the TSIG record
    let mut start = 0;
    let mut tsig = None;
    let mut sec = resp_msg.additional().unwrap();
    loop {
        let pos = sec.pos();
        match sec.next() {
            Some(rr) => {
                let rr = rr.unwrap();
                if rr.rtype() == Rtype::TSIG { start = pos; tsig = Some(rr.into_record::<Tsig<_, _>>().unwrap().unwrap()); }
            }
            None => break,
        }
    }
    let tsig = tsig.expect("response carries a TSIG");
    let other: Vec<u8> = tsig.data().other().as_ref().to_vec();
    assert_eq!(other.len(), 6, "wire other data is the 48 bit server time");
    // independent RFC 8945 4.3.3 computation
    let hk = ring::hmac::Key::new(ring::hmac::HMAC_SHA256, secret);
    let mut ctx = ring::hmac::Context::with_key(&hk);
    ctx.update(&(req_mac.len() as u16).to_be_bytes());
    ctx.update(&req_mac);
    let mut hdr = resp[..12].to_vec();
    hdr[0..2].copy_from_slice(&tsig.data().original_id().to_be_bytes());
    let ar = u16::from_be_bytes([hdr[10], hdr[11]]) - 1;
    hdr[10..12].copy_from_slice(&ar.to_be_bytes());
    ctx.update(&hdr);
    ctx.update(&resp[12..start]);
    let mut name = Vec::new();
    tsig.owner().compose_canonical(&mut name).unwrap();
    ctx.update(&name);
    ctx.update(&255u16.to_be_bytes());
    ctx.update(&0u32.to_be_bytes());
    let mut alg = Vec::new();
    tsig.data().algorithm().compose_canonical(&mut alg).unwrap();
    ctx.update(&alg);
    ctx.update(&tsig.data().time_signed().into_octets());
    ctx.update(&tsig.data().fudge().to_be_bytes());
    ctx.update(&tsig.data().error().to_int().to_be_bytes());
    ctx.update(&(other.len() as u16).to_be_bytes());
    ctx.update(&other);
    let expected = ctx.sign();
    assert_eq!(tsig.data().mac().as_ref(), expected.as_ref(), "MAC of the BADTIME response differs from the RFC 8945 computation");
}
