// Pre-existing behaviour of the UNMODIFIED library that goes against
// property C20 (or its spirit). Every test states what the property asks for
// and therefore FAILS on the unmodified library, except
// pre1_stripped_copy_... (without the b), which is the control showing that
// the DO=1 entry itself does expire (it passes).
//
// Place this file in tests/ of the repository (e.g. tests/c20_pre.rs), run:
//
//   cargo test --offline --features net,unstable-client-cache --test c20_pre
//

#![cfg(all(feature = "net", feature = "unstable-client-cache"))]
#![allow(dead_code)]

use std::future::Future;
use std::pin::Pin;
use std::str::FromStr;
use std::sync::{Arc, Mutex};
use std::time::Duration;

use bytes::Bytes;
use domain::base::iana::{Class, Rcode, SecurityAlgorithm};
use domain::base::{Message, MessageBuilder, Name, Rtype, Ttl};
use domain::net::client::cache;
use domain::net::client::request::{
    ComposeRequest, Error, GetResponse, RequestMessage, SendRequest,
};
use domain::rdata::dnssec::Timestamp;
use domain::rdata::{Rrsig, A};

//------------ A scripted upstream -------------------------------------------

type Req = RequestMessage<Vec<u8>>;
type Responder =
    dyn Fn(&Message<Vec<u8>>) -> Result<Message<Bytes>, Error> + Send + Sync;

/// An upstream transport that answers every request from a closure and
/// counts how often it was asked.
#[derive(Clone)]
struct Mock {
    responder: Arc<Responder>,
    calls: Arc<Mutex<usize>>,
}

impl Mock {
    fn new(
        f: impl Fn(&Message<Vec<u8>>) -> Result<Message<Bytes>, Error>
            + Send
            + Sync
            + 'static,
    ) -> Self {
        Mock {
            responder: Arc::new(f),
            calls: Arc::new(Mutex::new(0)),
        }
    }

    fn calls(&self) -> usize {
        *self.calls.lock().unwrap()
    }
}

struct MockReq(Option<Result<Message<Bytes>, Error>>);

impl std::fmt::Debug for MockReq {
    fn fmt(&self, f: &mut std::fmt::Formatter<'_>) -> std::fmt::Result {
        f.write_str("MockReq")
    }
}

impl GetResponse for MockReq {
    fn get_response(
        &mut self,
    ) -> Pin<
        Box<
            dyn Future<Output = Result<Message<Bytes>, Error>>
                + Send
                + Sync
                + '_,
        >,
    > {
        let r = self.0.take().expect("polled after completion");
        Box::pin(async move { r })
    }
}

impl SendRequest<Req> for Mock {
    fn send_request(&self, req: Req) -> Box<dyn GetResponse + Send + Sync> {
        *self.calls.lock().unwrap() += 1;
        let msg = req.to_message().unwrap();
        Box::new(MockReq(Some((self.responder)(&msg))))
    }
}

//------------ Helpers --------------------------------------------------------

fn query(
    qname: &str,
    qtype: Rtype,
    rd: bool,
    ad: bool,
    cd: bool,
    dnssec_ok: bool,
) -> Req {
    let mut msg = MessageBuilder::new_vec();
    msg.header_mut().set_rd(rd);
    msg.header_mut().set_ad(ad);
    msg.header_mut().set_cd(cd);
    let mut msg = msg.question();
    msg.push((name(qname), qtype)).unwrap();
    let mut req = RequestMessage::new(msg).unwrap();
    if dnssec_ok {
        req.set_dnssec_ok(true);
    }
    req
}

async fn ask<U>(
    conn: &cache::Connection<U>,
    req: Req,
) -> Result<Message<Bytes>, Error>
where
    U: Clone + SendRequest<Req> + Send + Sync + 'static,
{
    let mut r = conn.send_request(req);
    r.get_response().await
}

fn name(s: &str) -> Name<Vec<u8>> {
    Name::from_str(s).unwrap()
}

fn to_bytes(m: Message<Vec<u8>>) -> Message<Bytes> {
    Message::from_octets(Bytes::from(m.into_octets())).unwrap()
}

fn rrsig(covered: Rtype, ttl: u32) -> Rrsig<Vec<u8>, Name<Vec<u8>>> {
    Rrsig::new(
        covered,
        SecurityAlgorithm::ECDSAP256SHA256,
        2,
        Ttl::from_secs(ttl),
        Timestamp::from(2_000_000_000),
        Timestamp::from(1_000_000_000),
        4711,
        name("example.com"),
        vec![0u8; 64],
    )
    .unwrap()
}

fn wants_dnssec(req: &Message<Vec<u8>>) -> bool {
    req.opt().is_some_and(|o| o.dnssec_ok())
}

/// (section, type, ttl) of every record except OPT.
fn records(msg: &Message<Bytes>) -> Vec<(&'static str, Rtype, u32)> {
    let mut v = Vec::new();
    for rr in msg.answer().unwrap() {
        let rr = rr.unwrap();
        v.push(("an", rr.rtype(), rr.ttl().as_secs()));
    }
    for rr in msg.authority().unwrap() {
        let rr = rr.unwrap();
        v.push(("ns", rr.rtype(), rr.ttl().as_secs()));
    }
    for rr in msg.additional().unwrap() {
        let rr = rr.unwrap();
        if rr.rtype() != Rtype::OPT {
            v.push(("ar", rr.rtype(), rr.ttl().as_secs()));
        }
    }
    v
}

//------------ Pre-existing behaviour of the unmodified library --------------

use domain::base::rdata::UnknownRecordData;

/// (1) cache_lookup_do_ad / Value::new_from_value_and_response: the copy of
/// a DO=1 entry that is made for a DO=0 query gets a validity recomputed from
/// the stripped message but keeps the creation time. If the RRSIG had the
/// smallest TTL of the upstream response (10 s here, the A record has 100 s),
/// the upstream response is still being served, minus the signature, 40 s
/// after its smallest TTL elapsed.
#[tokio::test(start_paused = true)]
async fn pre1_stripped_copy_outlives_smallest_ttl_of_upstream_response() {
    let mock = Mock::new(|req| {
        let mut b = MessageBuilder::new_vec()
            .start_answer(req, Rcode::NOERROR)
            .unwrap();
        b.header_mut().set_ad(true);
        b.push((
            name("example.com"),
            Class::IN,
            100,
            A::from_octets(192, 0, 2, 1),
        ))
        .unwrap();
        b.push((name("example.com"), Class::IN, 10, rrsig(Rtype::A, 100)))
            .unwrap();
        Ok(to_bytes(b.into_message()))
    });
    let conn = cache::Connection::new(mock.clone());
    let r1 =
        ask(&conn, query("example.com", Rtype::A, true, false, false, true))
            .await
            .unwrap();
    assert_eq!(
        records(&r1),
        vec![("an", Rtype::A, 100), ("an", Rtype::RRSIG, 10)]
    );

    tokio::time::advance(Duration::from_secs(50)).await;

    // A DO=1 query correctly goes upstream now ...
    ask(&conn, query("example.com", Rtype::A, true, false, false, true))
        .await
        .unwrap();
    assert_eq!(mock.calls(), 2);
}

#[tokio::test(start_paused = true)]
async fn pre1b_stripped_copy_outlives_smallest_ttl_of_upstream_response() {
    let mock = Mock::new(|req| {
        let mut b = MessageBuilder::new_vec()
            .start_answer(req, Rcode::NOERROR)
            .unwrap();
        b.push((
            name("example.com"),
            Class::IN,
            100,
            A::from_octets(192, 0, 2, 1),
        ))
        .unwrap();
        b.push((name("example.com"), Class::IN, 10, rrsig(Rtype::A, 100)))
            .unwrap();
        Ok(to_bytes(b.into_message()))
    });
    let conn = cache::Connection::new(mock.clone());
    ask(&conn, query("example.com", Rtype::A, true, false, false, true))
        .await
        .unwrap();

    tokio::time::advance(Duration::from_secs(50)).await;

    // ... but a DO=0 query is answered from the entry that expired 40 s ago.
    let r2 =
        ask(&conn, query("example.com", Rtype::A, true, false, false, false))
            .await
            .unwrap();
    assert_eq!(
        mock.calls(),
        2,
        "DO=0 query answered from a cached upstream response whose smallest \
         TTL (10 s) elapsed 40 s ago: {:?}",
        records(&r2)
    );
}

/// (2) decrement_ttl: a response the cache accepted (validity() only looks
/// at the record headers) cannot be replayed when one of its records has
/// record data that AllRecordData cannot parse. The caller that got
/// Ok(message) from upstream gets Err(MessageParseError) from the cache for
/// the same question, for as long as the entry is valid (100 s here, not the
/// failure bound).
#[tokio::test(start_paused = true)]
async fn pre2_accepted_response_is_replayed_as_an_error() {
    let mock = Mock::new(|req| {
        let mut b = MessageBuilder::new_vec()
            .start_answer(req, Rcode::NOERROR)
            .unwrap();
        b.push((
            name("example.com"),
            Class::IN,
            100,
            A::from_octets(192, 0, 2, 1),
        ))
        .unwrap();
        let mut b = b.additional();
        // An AAAA record with three octets of record data.
        b.push((
            name("x.example.com"),
            Class::IN,
            100,
            UnknownRecordData::from_octets(Rtype::AAAA, vec![1u8, 2, 3])
                .unwrap(),
        ))
        .unwrap();
        Ok(to_bytes(b.into_message()))
    });
    let conn = cache::Connection::new(mock.clone());
    let r1 =
        ask(&conn, query("example.com", Rtype::A, true, false, false, false))
            .await;
    assert!(r1.is_ok());
    tokio::time::advance(Duration::from_secs(60)).await;
    let r2 =
        ask(&conn, query("example.com", Rtype::A, true, false, false, false))
            .await;
    assert!(
        r2.is_ok(),
        "upstream answered with a message, the cache serves {:?} \
         (upstream calls: {})",
        r2,
        mock.calls()
    );
}

/// (3) decrement_ttl: the question of the replayed message is built from the
/// name in the request and the type and class in the cached response, so a
/// cached response whose question differs from the request is served with a
/// question upstream never sent.
#[tokio::test(start_paused = true)]
async fn pre3_question_of_cached_response_is_rewritten() {
    let mock = Mock::new(|req| {
        let mut b = MessageBuilder::new_vec();
        *b.header_mut() = req.header();
        b.header_mut().set_qr(true);
        let mut b = b.question();
        b.push((name("other.example.org"), Rtype::A)).unwrap();
        let mut b = b.answer();
        b.push((
            name("other.example.org"),
            Class::IN,
            100,
            A::from_octets(192, 0, 2, 1),
        ))
        .unwrap();
        Ok(to_bytes(b.into_message()))
    });
    let conn = cache::Connection::new(mock.clone());
    let r1 =
        ask(&conn, query("example.com", Rtype::A, true, false, false, false))
            .await
            .unwrap();
    let r2 =
        ask(&conn, query("example.com", Rtype::A, true, false, false, false))
            .await
            .unwrap();
    assert_eq!(mock.calls(), 1);
    assert_eq!(
        format!("{}", r1.first_question().unwrap().qname()),
        format!("{}", r2.first_question().unwrap().qname()),
        "the cached copy carries a different question than what upstream sent"
    );
}

/// (4) remove_dnssec: the OPT record of the DO=1 response, with the DO bit
/// set, is handed to a query that carried no OPT record at all.
#[tokio::test(start_paused = true)]
async fn pre4_do_bit_in_opt_exposed_to_plain_query() {
    let mock = Mock::new(|req| {
        let mut b = MessageBuilder::new_vec()
            .start_answer(req, Rcode::NOERROR)
            .unwrap();
        b.push((
            name("example.com"),
            Class::IN,
            100,
            A::from_octets(192, 0, 2, 1),
        ))
        .unwrap();
        let mut b = b.additional();
        if wants_dnssec(req) {
            b.opt(|opt| {
                opt.set_dnssec_ok(true);
                Ok(())
            })
            .unwrap();
        }
        Ok(to_bytes(b.into_message()))
    });
    let conn = cache::Connection::new(mock.clone());
    ask(&conn, query("example.com", Rtype::A, true, false, false, true))
        .await
        .unwrap();
    let r2 =
        ask(&conn, query("example.com", Rtype::A, true, false, false, false))
            .await
            .unwrap();
    assert_eq!(mock.calls(), 1);
    assert!(
        !r2.opt().is_some_and(|o| o.dnssec_ok()),
        "a query without OPT got a response with an OPT record with DO set"
    );
}
