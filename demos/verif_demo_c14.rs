//! C14: upstream-controlled values the validator .expect()s on can be errors.
//! cargo test --offline --features unstable-validator,ring --test verif_demo_c14
//! (the two functions are private to the validator, so this shows that the values they
//! `.expect("should not fail")` on are `Err` for hostile response content)
use domain::base::opt::AllOptData;
use domain::base::Message;
use domain::rdata::nsec3::OwnerHash;
use std::str::FromStr;

#[test]
fn nsec3_owner_label_need_not_be_base32hex() {
    // dnssec::validator::nsec::nsec3_label_to_hash does  OwnerHash::from_str(label).expect("should not fail")
    // on the first label of an NSEC3 owner taken from the response.
    assert!(OwnerHash::<Vec<u8>>::from_str("not-base32hex!").is_err());
}

#[test]
fn known_edns_option_with_bad_length_fails_to_parse() {
    // net::client::validator::{remove_dnssec, add_opt, serve_fail} do
    //   for o in opt.opt().iter() { let x: AllOptData<_, _> = o.expect("should not fail"); .. }
    // on the OPT record of the upstream response.
    let mut m = vec![0, 0, 0x80, 0, 0, 0, 0, 0, 0, 0, 0, 1];
    // OPT RR: root owner, type 41, class 1232, ttl 0, rdlen 7: option 10 (COOKIE) with length 3
    m.extend_from_slice(&[0, 0, 41, 0x04, 0xD0, 0, 0, 0, 0, 0, 7, 0, 10, 0, 3, 1, 2, 3]);
    let msg = Message::from_octets(m).unwrap();
    let opt = msg.opt().expect("OPT record present");
    let items: Vec<_> = opt.opt().iter::<AllOptData<_, domain::base::Name<&[u8]>>>().collect();
    assert!(items.iter().any(|o| o.is_err()), "a malformed COOKIE option yields Err, which the validator .expect()s");
}
