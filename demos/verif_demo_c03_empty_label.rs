//! A name with an empty inner label must be rejected.
#![cfg(feature = "zonefile")]
use domain::zonefile::inplace::{Zonefile, Entry};
use domain::base::name::ToName;

fn read_all(src: &str) -> Vec<String> {
    let mut zone = Zonefile::from(src);
    zone.set_origin("example.com.".parse().unwrap());
    let mut out = Vec::new();
    loop {
        match zone.next_entry() {
            Ok(Some(Entry::Record(r))) => {
                let owner = r.owner().to_name::<Vec<u8>>();
                out.push(format!("owner={} labels={} wire={:?} data={}", owner, owner.label_count(), owner.as_slice(), r.data()));
            }
            Ok(Some(e)) => out.push(format!("{:?}", e)),
            Ok(None) => break,
            Err(e) => { out.push(format!("ERR {}", e)); break }
        }
    }
    out
}

#[test]
fn empty_inner_label_in_owner() {
    let out = read_all("a..b 300 IN A 192.0.2.1\n");
    eprintln!("{:?}", out);
    assert!(out[0].starts_with("ERR"), "{:?}", out);
}

#[test]
fn empty_inner_label_in_rdata() {
    let out = read_all("a 300 IN CNAME x..y\n");
    eprintln!("{:?}", out);
    assert!(out[0].starts_with("ERR"), "{:?}", out);
    let out = read_all("a 300 IN CNAME x..\n");
    eprintln!("{:?}", out);
    assert!(out[0].starts_with("ERR"), "{:?}", out);
}

#[test]
fn escaped_variant() {
    // same through the slow path (an escape earlier in the token)
    let out = read_all("\\097..b 300 IN A 192.0.2.1\n");
    eprintln!("{:?}", out);
    assert!(out[0].starts_with("ERR"), "{:?}", out);
}
