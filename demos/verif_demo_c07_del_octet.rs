//! The DEL octet (0x7F) must be treated the same whether or not the token
//! also contains an escape sequence.
#![cfg(feature = "zonefile")]
use domain::zonefile::inplace::Zonefile;

fn read_all(src: &[u8]) -> Vec<String> {
    let mut zone = Zonefile::from(src);
    zone.set_origin("example.com.".parse().unwrap());
    let mut out = Vec::new();
    loop {
        match zone.next_entry() {
            Ok(Some(e)) => out.push(format!("{:?}", e)),
            Ok(None) => break,
            Err(e) => { out.push(format!("ERR {}", e)); break }
        }
    }
    out
}

#[test]
fn del_in_name_with_and_without_escape() {
    // same owner name, `x` once plain and once as \120
    let plain = read_all(b"x\x7Fy 300 IN A 192.0.2.1\n");
    let escaped = read_all(b"\\120\x7Fy 300 IN A 192.0.2.1\n");
    assert_eq!(plain[0].starts_with("ERR"), escaped[0].starts_with("ERR"), "{:?} / {:?}", plain, escaped);
}

#[test]
fn del_in_txt_with_and_without_escape() {
    let plain = read_all(b"a 300 IN TXT \"x\x7Fy\"\n");
    let escaped = read_all(b"a 300 IN TXT \"\\120\x7Fy\"\n");
    assert_eq!(plain[0].starts_with("ERR"), escaped[0].starts_with("ERR"), "{:?} / {:?}", plain, escaped);
}
