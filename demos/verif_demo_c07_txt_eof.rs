//! A TXT record whose last quoted string ends exactly at the end of the input
//! (no trailing line feed) must give a record or an error, never a panic.
#![cfg(feature = "zonefile")]
use domain::zonefile::inplace::Zonefile;

fn read_all(src: &str) -> Vec<String> {
    let mut zone = Zonefile::from(src);
    zone.set_origin("example.com.".parse().unwrap());
    let mut out = Vec::new();
    loop {
        match zone.next_entry() {
            Ok(Some(e)) => out.push(format!("{:?}", e)),
            Ok(None) => break,
            Err(e) => { out.push(format!("ERR {}", e)); break }
        }
    }
    out
}

#[test]
fn txt_at_eof_with_newline() {
    let out = read_all("a 300 IN TXT \"foo\"\n");
    assert_eq!(out.len(), 1, "{:?}", out);
}

#[test]
fn txt_at_eof_without_newline() {
    // Before dc91e56 this panicked (index out of bounds in convert_charstr).
    // Like the other entry scanners (see sibling_entry_scanner_at_eof) the
    // reader now reports "short buffer".
    let out = read_all("a 300 IN TXT \"foo\"");
    assert_eq!(out.len(), 1, "{:?}", out);
}

#[test]
fn a_at_eof_without_newline() {
    let out = read_all("a 300 IN A 192.0.2.1");
    assert_eq!(out.len(), 1, "{:?}", out);
}

#[test]
fn txt_without_strings_does_not_eat_next_line() {
    let out = read_all("a 300 IN TXT\nb 300 IN A 192.0.2.1\n");
    eprintln!("{:#?}", out);
    assert!(out[0].starts_with("ERR"), "{:?}", out);
}

#[test]
fn sibling_entry_scanner_at_eof() {
    let out = read_all("a 300 IN NSEC b.example.com. A TXT");
    eprintln!("NSEC at EOF: {:?}", out);
    let out = read_all("a 300 IN DS 1 8 2 AABB CCDD");
    eprintln!("DS at EOF: {:?}", out);
}
