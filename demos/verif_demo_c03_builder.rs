//! C03: NameBuilder must never produce an over-long name.
//! cargo test --offline --test verif_demo_c03_builder
use domain::base::name::{Name, NameBuilder, RelativeName};

fn filled() -> NameBuilder<Vec<u8>> {
    let mut b = NameBuilder::new_vec();
    for _ in 0..25 { b.append_label(b"123456789").unwrap(); } // 250 octets
    b
}

#[test]
fn append_slice_inside_a_label_checks_the_name_length() {
    let mut b = filled();
    b.append_slice(b"12").unwrap();            // starts a label: 253 octets
    let r = b.append_slice(&[b'x'; 50]);       // continues the label
    if r.is_ok() {
        let name = b.finish();
        assert!(RelativeName::from_octets(name.as_slice().to_vec()).is_ok(),
            "builder produced a relative name of {} octets", name.as_slice().len());
    }
}

#[test]
fn push_starting_a_label_checks_the_name_length() {
    let mut b = filled();
    b.append_label(b"12").unwrap();            // 253 octets, no open label
    if b.push(b'x').is_ok() {                  // would start a new label: 255 octets
        let name = b.into_name().unwrap();
        assert!(Name::from_octets(name.as_slice().to_vec()).is_ok(),
            "builder produced an absolute name of {} octets", name.as_slice().len());
    }
}
