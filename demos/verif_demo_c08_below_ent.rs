//! A name that exists below an empty non-terminal created through the write
//! interface must be found by a query, as it is by walk().
#![cfg(feature = "unstable-zonetree")]

use std::collections::BTreeSet;
use std::str::FromStr;
use std::sync::{Arc, Mutex};

use bytes::Bytes;
use domain::base::iana::{Class, Rtype};
use domain::base::name::{Label, Name};
use domain::base::Ttl;
use domain::rdata::{ZoneRecordData, A};
use domain::zonetree::{
    AnswerContent, ReadableZone, Rrset, SharedRrset, WritableZoneNode, Zone,
    ZoneBuilder,
};

fn name(s: &str) -> Name<Bytes> {
    Name::from_str(s).unwrap()
}

fn a_rrset(addr: &str) -> SharedRrset {
    let mut rrset = Rrset::new(Rtype::A, Ttl::from_secs(60));
    rrset.push_data(ZoneRecordData::A(A::from_str(addr).unwrap()));
    SharedRrset::new(rrset)
}

async fn child(n: &Box<dyn WritableZoneNode>, label: &str) -> Box<dyn WritableZoneNode> {
    n.update_child(Label::from_slice(label.as_bytes()).unwrap()).await.unwrap()
}

fn lookup(r: &dyn ReadableZone, qname: &str, qtype: Rtype) -> String {
    let ans = r.query(name(qname), qtype).unwrap();
    match ans.content() {
        AnswerContent::Data(rrset) => format!(
            "{:?} {:?}", ans.rcode(),
            rrset.data().iter().map(|d| d.to_string()).collect::<Vec<_>>()
        ),
        AnswerContent::Cname(_) => format!("{:?} CNAME", ans.rcode()),
        AnswerContent::NoData => format!("{:?} nodata", ans.rcode()),
    }
}

fn walk(r: &dyn ReadableZone) -> BTreeSet<String> {
    let out = Arc::new(Mutex::new(BTreeSet::new()));
    let out2 = out.clone();
    r.walk(Box::new(move |owner, rrset, _cut| {
        for d in rrset.data() {
            out2.lock().unwrap().insert(format!("{} {} {}", owner, rrset.rtype(), d));
        }
    }));
    let res = out.lock().unwrap().clone();
    res
}

#[tokio::test]
async fn name_below_an_empty_non_terminal() {
    let zone: Zone = ZoneBuilder::new(name("example.com"), Class::IN).build();
    let mut w = zone.write().await;
    let root = w.open(false).await.unwrap();
    // dept.example.com: first given a record, which is then removed again
    // (it is now an empty non-terminal carrying the NXDOMAIN marker) ...
    let dept = child(&root, "dept").await;
    dept.update_rrset(a_rrset("10.0.0.9")).await.unwrap();
    dept.remove_rrset(Rtype::A).await.unwrap();
    // ... and host.dept.example.com owns an address
    child(&dept, "host").await.update_rrset(a_rrset("10.0.0.1")).await.unwrap();
    drop(dept);
    drop(root);
    w.commit(false).await.unwrap();
    drop(w);

    let r = zone.read();
    let walked = walk(&*r);
    assert!(walked.iter().any(|l| l.starts_with("host.dept.example.com")), "{walked:?}");
    let answer = lookup(&*r, "host.dept.example.com", Rtype::A);
    assert!(answer.contains("10.0.0.1"), "walk lists the record, the query says: {answer}");
}
