//! The algorithm name in a TSIG record is a domain name: its case must not
//! matter (the digest uses its canonical form anyway).
#![cfg(feature = "tsig")]

use std::str::FromStr;

use domain::base::iana::Rtype;
use domain::base::{Message, MessageBuilder, Name};
use domain::rdata::tsig::Time48;
use domain::tsig::{Algorithm, ClientTransaction, Key, KeyName, ServerTransaction};

fn key() -> Key {
    Key::new(
        Algorithm::Sha256,
        b"0123456789abcdef0123456789abcdef",
        KeyName::from_str("key.example.").unwrap(),
        None,
        None,
    )
    .unwrap()
}

#[test]
fn algorithm_name_in_upper_case() {
    let now = Time48::now();
    let key = key();
    let mut msg = MessageBuilder::new_vec();
    msg.header_mut().set_random_id();
    let mut msg = msg.question();
    msg.push((Name::<Vec<u8>>::from_str("example.com.").unwrap(), Rtype::A)).unwrap();
    let mut msg = msg.additional();
    let _ = ClientTransaction::request(&key, &mut msg, now).unwrap();
    let mut octets = msg.finish();

    // a peer that writes the algorithm name as HMAC-SHA256.
    let pos = octets
        .windows(11)
        .position(|w| w == b"hmac-sha256")
        .expect("algorithm name in the TSIG record");
    octets[pos..pos + 11].make_ascii_uppercase();

    let mut msg = Message::from_octets(octets).unwrap();
    let res = ServerTransaction::request(&key, &mut msg, now);
    assert!(
        matches!(res, Ok(Some(_))),
        "request with algorithm HMAC-SHA256. was refused: {:?}",
        res.err().map(|e| e.error())
    );
}

#[test]
fn from_name_ignores_case() {
    let name = Name::<Vec<u8>>::from_str("HMAC-SHA512.").unwrap();
    assert_eq!(Algorithm::from_name(&name), Some(Algorithm::Sha512));
}
