//! Demonstration for the C17/C14 finding repaired by the "fix: validator handles
//! signature times with RFC 1982 arithmetic" commit.  Place in tests/ and run
//!   cargo test --offline --test c17_validator_times
//! It exercises exactly the expressions the validator used (they are private
//! to the validator module, so the expressions are reproduced on the public
//! `Timestamp` type):
//!   old check_sig :  ts_now.canonical_gt(&expiration)           (raw u32 order)
//!   RFC 1982      :  ts_now > expiration                        (sequence space)
//!   old ttl_for_sig: expiration.into_int() - now.into_int()     (checked u32 `-`)
use domain::base::cmp::CanonicalOrd;
use domain::rdata::dnssec::Timestamp;

#[test]
fn raw_order_disagrees_with_rfc1982() {
    let now = Timestamp::from(0x6AB0_0000u32);
    // more than 2^31 "ahead" in raw integers = in the past in sequence space
    let expiration = Timestamp::from(0xF000_0000u32);
    assert!(now > expiration, "RFC 1982: the signature has expired");
    // the old expression said "not expired":
    assert!(now.canonical_gt(&expiration), "raw comparison accepts the expired signature");
}

#[test]
fn raw_subtraction_overflows() {
    let now = Timestamp::from(1000u32);
    let expiration = Timestamp::from(999u32);
    // old ttl_for_sig expression: panics with overflow checks on
    let _ = expiration.into_int() - now.into_int();
}
