// PRE-EXISTING violation of C04 in the UNMODIFIED library (new API,
// feature `unstable-new`).
//
// Run, after copying to tests/:
//   cargo test --offline --features unstable-new --test pre3_new_name_cmp
//
// Clause: "The ordering of names is the canonical name order of RFC 4034
// section 6.1", "comparison is a total order", "independent of
// representation".
//
// `<domain::new::base::name::Name as Ord>::cmp` (src/new/base/name/
// absolute.rs) first zips the two names' OCTETS from the end; when that finds
// no mismatch it concludes that one name is a suffix of the other and
// answers `self.len().cmp(&that.len())`. But an octet suffix need not be a
// LABEL suffix: the shorter name's length octets can line up with content
// octets of one longer label of the other name (any octet < 64 will do: a
// control character, a digit, '*', '-', ...). Then the two names differ in
// their last non-root label and have to be ordered by that label, not by
// length.
//
// Observed below: "0\001a." (one label 30 01 61) sorts AFTER "a." although
// its label starts with '0' < 'a'; the same two names as `RevName` (and in the
// old `domain::base::name::Name`) sort the other way round, so the order
// depends on the representation, and with a third name the order is not even
// transitive with respect to the RFC 4034 order used for all other pairs.
use core::cmp::Ordering;
use domain::new::base::name::NameBuf;
use domain::new::base::wire::ParseBytes;

fn name(wire: &[u8]) -> NameBuf {
    NameBuf::parse_bytes(wire).unwrap()
}

/// RFC 4034 6.1 reference: labels from the right, lower-cased octet strings.
fn reference(a: &[u8], b: &[u8]) -> Ordering {
    fn labels(mut w: &[u8]) -> Vec<Vec<u8>> {
        let mut res = Vec::new();
        while !w.is_empty() {
            let n = usize::from(w[0]);
            res.push(w[1..=n].to_ascii_lowercase());
            w = &w[n + 1..];
        }
        res
    }
    labels(a).iter().rev().cmp(labels(b).iter().rev())
}

#[test]
fn octet_suffix_is_not_label_suffix() {
    let long: &[u8] = b"\x030\x01a\x00"; // the single label "0\001a"
    let short: &[u8] = b"\x01a\x00"; // a.
    assert_eq!(reference(long, short), Ordering::Less);
    // the old API agrees with the reference
    assert_eq!(
        domain::base::Name::from_octets(long)
            .unwrap()
            .cmp(&domain::base::Name::from_octets(short).unwrap()),
        Ordering::Less
    );
    // so does the reversed representation of the new API
    assert_eq!(
        name(long).to_revname().cmp(&name(short).to_revname()),
        Ordering::Less
    );
    // the flat representation of the new API does not
    assert_eq!(name(long).cmp(&name(short)), Ordering::Less);
}

#[test]
fn hyphen_is_a_length_octet() {
    // '-' is 0x2d = 45: "x-" followed by 45 octets ends in the wire form of
    // a 45 octet label.
    let mut short = vec![45u8];
    short.extend_from_slice(&[b'y'; 45]);
    short.push(0);
    let mut long = vec![47u8, b'x', b'-'];
    long.extend_from_slice(&[b'y'; 45]);
    long.push(0);
    assert_eq!(reference(&long, &short), Ordering::Less); // "x-yy.." < "yy.."
    assert_eq!(name(&long).cmp(&name(&short)), Ordering::Less);
}

#[test]
fn differential() {
    let wires: Vec<Vec<u8>> = vec![
        b"\x00".to_vec(),
        b"\x01a\x00".to_vec(),
        b"\x01b\x00".to_vec(),
        b"\x030\x01a\x00".to_vec(),
        b"\x03z\x01a\x00".to_vec(),
        b"\x01z\x01a\x00".to_vec(),
        b"\x010\x01a\x00".to_vec(),
        b"\x05a\x010\x01a\x00".to_vec(),
        b"\x02\x01a\x00".to_vec(),
        b"\x01A\x00".to_vec(),
        b"\x03Z\x01A\x00".to_vec(),
    ];
    let mut bad = Vec::new();
    for a in &wires {
        for b in &wires {
            let got = name(a).cmp(&name(b));
            let exp = reference(a, b);
            if got != exp {
                bad.push(format!("{} vs {}: {:?}, expected {:?}", name(a), name(b), got, exp));
            }
        }
    }
    assert!(bad.is_empty(), "{:#?}", bad);
}
