//! SvcParam keys containing '9' or 'z' (e.g. the generic form key9,
//! key19, key65529) must be readable.
#![cfg(feature = "zonefile")]
use domain::zonefile::inplace::Zonefile;

fn read_all(src: &str) -> Vec<String> {
    let mut zone = Zonefile::from(src);
    zone.set_origin("example.com.".parse().unwrap());
    let mut out = Vec::new();
    loop {
        match zone.next_entry() {
            Ok(Some(e)) => out.push(format!("{:?}", e)),
            Ok(None) => break,
            Err(e) => { out.push(format!("ERR {}", e)); break }
        }
    }
    out
}

#[test]
fn key_with_digit_9() {
    let control = read_all("a 300 IN SVCB 1 . key18=x\n");
    assert!(!control[0].starts_with("ERR"), "{control:?}");
    for key in ["key19", "key90", "key65529"] {
        let out = read_all(&format!("a 300 IN SVCB 1 . {key}=x\n"));
        assert!(!out[0].starts_with("ERR"), "{key}: {out:?}");
    }
}
