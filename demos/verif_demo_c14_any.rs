// PRE-EXISTING (unmodified library): a correctly signed answer to a QTYPE=ANY
// query is reported Bogus.
//
// Run (file placed in tests/c14_pre_any.rs):
//   cargo test --offline --features unstable-validator,ring,unstable-crypto-sign --test c14_pre_any
//
// validate_msg() looks for the answer with get_answer_state(), which demands
// `g.rtype() == qtype`. No RRset has type ANY, so the (fully signed) answer is
// taken for a NODATA response without SOA/NSEC and the result is Bogus
// ("Correctly signed answers from a correctly signed hierarchy are reported
// secure", quantified over all queries).
#![allow(dead_code, unused_imports)]

#[test]
fn signed_answer_to_any_query_is_secure() {
    block_on(async {
        let w = world();
        let e = &w.example;
        // The validator probes "www.example. DS"; answer honestly.
        let mut proof = signed(e, &[soa("example.")]);
        proof.extend(signed(
            e,
            &[nsec(
                "www.example.",
                "example.",
                &[Rtype::A, Rtype::TXT, Rtype::RRSIG, Rtype::NSEC],
            )],
        ));
        w.up.nodata("www.example.", Rtype::DS, &proof);
        let vc = context(&w.root, &w.up);
        let mut ans = signed(e, &[a("www.example.", [192, 0, 2, 1])]);
        ans.extend(signed(e, &[txt("www.example.", "hello")]));
        let msg =
            message("www.example.", Rtype::ANY, Rcode::NOERROR, &ans, &[]);
        assert_eq!(validate(&vc, &msg).await, ValidationState::Secure);
    });
}

// ---------------------------------------------------------------------------
// Test harness: an in-memory signed DNS hierarchy, a mock upstream transport
// and helpers to build (and tamper with) response messages.
// ---------------------------------------------------------------------------

use std::collections::HashMap;
use std::future::Future;
use std::pin::Pin;
use std::str::FromStr;
use std::sync::{Arc, Mutex};

use bytes::Bytes;
use domain::base::iana::{
    Class, DigestAlgorithm, Nsec3HashAlgorithm, Rcode, SecurityAlgorithm,
};
use domain::base::name::{Name, ToLabelIter, ToName};
use domain::base::{Message, MessageBuilder, Record, Rtype, Serial, Ttl};
use domain::crypto::sign::{generate, GenerateParams, KeyPair, SignRaw};
use domain::dnssec::common::nsec3_hash;
use domain::dnssec::validator::anchor::TrustAnchors;
use domain::dnssec::validator::base::{DnskeyExt, RrsigExt};
use domain::dnssec::validator::context::{
    Config, ValidationContext, ValidationState,
};
use domain::net::client::request::{
    ComposeRequest, Error, GetResponse, RequestMessage, SendRequest,
};
use domain::rdata::dnssec::{RtypeBitmap, Timestamp};
use domain::rdata::nsec3::{Nsec3Salt, OwnerHash};
use domain::rdata::{
    Cname, Dname, Dnskey, Ds, Ns, Nsec, Nsec3, Rrsig, Soa, Txt, ZoneRecordData, A,
};

pub type N = Name<Bytes>;
pub type Data = ZoneRecordData<Bytes, N>;
pub type Rec = Record<N, Data>;

pub fn n(s: &str) -> N {
    Name::<Bytes>::from_str(s).unwrap()
}

pub fn rec(owner: &str, ttl: u32, data: impl Into<Data>) -> Rec {
    Record::new(n(owner), Class::IN, Ttl::from_secs(ttl), data.into())
}

pub fn a(owner: &str, addr: [u8; 4]) -> Rec {
    rec(owner, 3600, A::from_octets(addr[0], addr[1], addr[2], addr[3]))
}

pub fn txt(owner: &str, text: &str) -> Rec {
    rec(
        owner,
        3600,
        Txt::<Bytes>::build_from_slice(text.as_bytes()).unwrap(),
    )
}

pub fn cname(owner: &str, target: &str) -> Rec {
    rec(owner, 3600, Cname::new(n(target)))
}

pub fn dname(owner: &str, target: &str) -> Rec {
    rec(owner, 3600, Dname::new(n(target)))
}

pub fn ns(owner: &str, target: &str) -> Rec {
    rec(owner, 3600, Ns::new(n(target)))
}

pub fn soa(owner: &str) -> Rec {
    rec(
        owner,
        3600,
        Soa::new(
            n("ns.invalid."),
            n("host.invalid."),
            Serial(1),
            Ttl::from_secs(3600),
            Ttl::from_secs(600),
            Ttl::from_secs(86400),
            Ttl::from_secs(3600),
        ),
    )
}

pub fn bitmap(types: &[Rtype]) -> RtypeBitmap<Bytes> {
    let mut b = RtypeBitmap::<Bytes>::builder();
    for t in types {
        b.add(*t).unwrap();
    }
    b.finalize()
}

pub fn nsec(owner: &str, next: &str, types: &[Rtype]) -> Rec {
    rec(owner, 3600, Nsec::new(n(next), bitmap(types)))
}

pub const SALT: &[u8] = b"\xab\xcd";

pub fn h(name: &str) -> OwnerHash<Bytes> {
    let salt = Nsec3Salt::<Bytes>::from_octets(Bytes::from_static(SALT)).unwrap();
    let hash: OwnerHash<Vec<u8>> =
        nsec3_hash(n(name), Nsec3HashAlgorithm::SHA1, 0, &salt).unwrap();
    OwnerHash::from_octets(Bytes::copy_from_slice(hash.as_slice())).unwrap()
}

/// Returns a copy of `hash` with `delta` added to the last octet (no carry
/// handling beyond saturation -- good enough to step just before / after a
/// hash value).
pub fn hash_add(hash: &OwnerHash<Bytes>, delta: i16) -> OwnerHash<Bytes> {
    let mut v = hash.as_slice().to_vec();
    let mut i = v.len() - 1;
    let mut d = delta;
    loop {
        let cur = v[i] as i16 + d;
        if cur < 0 {
            v[i] = (cur + 256) as u8;
            d = -1;
        } else if cur > 255 {
            v[i] = (cur - 256) as u8;
            d = 1;
        } else {
            v[i] = cur as u8;
            break;
        }
        if i == 0 {
            break;
        }
        i -= 1;
    }
    OwnerHash::from_octets(Bytes::from(v)).unwrap()
}

/// An NSEC3 record with the given owner hash, next hash, flags and types.
pub fn nsec3(
    zone: &str,
    owner_hash: &OwnerHash<Bytes>,
    next_hash: &OwnerHash<Bytes>,
    flags: u8,
    types: &[Rtype],
) -> Rec {
    let owner = format!("{}.{}", owner_hash, zone);
    let salt = Nsec3Salt::<Bytes>::from_octets(Bytes::from_static(SALT)).unwrap();
    rec(
        &owner,
        3600,
        Nsec3::new(
            Nsec3HashAlgorithm::SHA1,
            flags,
            0,
            salt,
            next_hash.clone(),
            bitmap(types),
        ),
    )
}

//------------ Keys and signing ------------------------------------------------

pub struct ZoneKey {
    pub zone: N,
    pub dnskey: Dnskey<Bytes>,
    pub pair: KeyPair,
}

impl ZoneKey {
    pub fn generate(zone: &str, flags: u16) -> Self {
        let (secret, public) =
            generate(&GenerateParams::EcdsaP256Sha256, flags).unwrap();
        let pair = KeyPair::from_bytes(&secret, &public).unwrap();
        let dnskey = Dnskey::new(
            public.flags(),
            public.protocol(),
            public.algorithm(),
            Bytes::copy_from_slice(public.public_key().as_ref()),
        )
        .unwrap();
        ZoneKey {
            zone: n(zone),
            dnskey,
            pair,
        }
    }

    pub fn key_tag(&self) -> u16 {
        self.dnskey.key_tag()
    }

    pub fn dnskey_rec(&self) -> Rec {
        Record::new(
            self.zone.clone(),
            Class::IN,
            Ttl::from_secs(3600),
            self.dnskey.clone().into(),
        )
    }

    pub fn ds_rec(&self) -> Rec {
        let digest = self
            .dnskey
            .digest(&self.zone, DigestAlgorithm::SHA256)
            .unwrap();
        Record::new(
            self.zone.clone(),
            Class::IN,
            Ttl::from_secs(3600),
            Ds::new(
                self.key_tag(),
                self.dnskey.algorithm(),
                DigestAlgorithm::SHA256,
                Bytes::copy_from_slice(digest.as_ref()),
            )
            .unwrap()
            .into(),
        )
    }

    /// The trust anchor line for this key in zonefile format.
    pub fn anchor(&self) -> String {
        format!("{} 3600 IN DNSKEY {}", self.zone.fmt_with_dot(), self.dnskey)
    }
}

pub fn now() -> u32 {
    Timestamp::now().into_int()
}

#[derive(Clone, Copy)]
pub struct SigOpts {
    pub inception: u32,
    pub expiration: u32,
    /// Override for the RRSIG labels field (None: derive from owner).
    pub labels: Option<u8>,
}

impl Default for SigOpts {
    fn default() -> Self {
        let now = now();
        SigOpts {
            inception: now - 3600,
            expiration: now + 86400,
            labels: None,
        }
    }
}

/// Sign an RRset (all records must have the same owner, class and type).
pub fn sign_with(key: &ZoneKey, rrset: &[Rec], opts: SigOpts) -> Rec {
    let first = &rrset[0];
    let owner = first.owner().clone();
    let mut labels = (owner.iter_labels().count() - 1) as u8;
    if owner.first().is_wildcard() {
        labels -= 1;
    }
    let labels = opts.labels.unwrap_or(labels);
    let mk = |signature: Bytes| {
        Rrsig::<Bytes, N>::new(
            first.rtype(),
            key.dnskey.algorithm(),
            labels,
            first.ttl(),
            Timestamp::from(opts.expiration),
            Timestamp::from(opts.inception),
            key.key_tag(),
            key.zone.clone(),
            signature,
        )
        .unwrap()
    };
    let unsigned = mk(Bytes::new());
    let mut buf = Vec::new();
    let mut copy: Vec<Rec> = rrset.to_vec();
    unsigned.signed_data(&mut buf, &mut copy).unwrap();
    let sig = key.pair.sign_raw(&buf).unwrap();
    let rrsig = mk(Bytes::copy_from_slice(sig.as_ref()));
    Record::new(owner, Class::IN, first.ttl(), rrsig.into())
}

pub fn sign(key: &ZoneKey, rrset: &[Rec]) -> Rec {
    sign_with(key, rrset, SigOpts::default())
}

/// Returns the RRset followed by its signature.
pub fn signed(key: &ZoneKey, rrset: &[Rec]) -> Vec<Rec> {
    let mut v = rrset.to_vec();
    v.push(sign(key, rrset));
    v
}

/// Re-own a record (used to simulate wildcard expansion).
pub fn with_owner(r: &Rec, owner: &str) -> Rec {
    Record::new(n(owner), r.class(), r.ttl(), r.data().clone())
}

//------------ Messages -------------------------------------------------------

pub fn message(
    qname: &str,
    qtype: Rtype,
    rcode: Rcode,
    answer: &[Rec],
    authority: &[Rec],
) -> Message<Bytes> {
    let mut mb = MessageBuilder::new_vec();
    mb.header_mut().set_qr(true);
    mb.header_mut().set_rcode(rcode);
    let mut mb = mb.question();
    mb.push((n(qname), qtype)).unwrap();
    let mut mb = mb.answer();
    for r in answer {
        mb.push(r.clone()).unwrap();
    }
    let mut mb = mb.authority();
    for r in authority {
        mb.push(r.clone()).unwrap();
    }
    Message::from_octets(Bytes::from(mb.finish())).unwrap()
}

//------------ Mock upstream --------------------------------------------------

type Table = HashMap<(N, Rtype), Message<Bytes>>;

/// An upstream that answers the validator's own DS and DNSKEY queries from a
/// table. Unknown questions get an empty NOERROR reply.
#[derive(Clone, Default)]
pub struct Upstream {
    table: Arc<Mutex<Table>>,
    log: Arc<Mutex<Vec<(N, Rtype)>>>,
}

impl Upstream {
    pub fn new() -> Self {
        Default::default()
    }

    pub fn set(&self, qname: &str, qtype: Rtype, msg: Message<Bytes>) {
        self.table.lock().unwrap().insert((n(qname), qtype), msg);
    }

    /// Install a positive reply.
    pub fn answer(&self, qname: &str, qtype: Rtype, answer: &[Rec]) {
        self.set(
            qname,
            qtype,
            message(qname, qtype, Rcode::NOERROR, answer, &[]),
        );
    }

    /// Install a NODATA reply.
    pub fn nodata(&self, qname: &str, qtype: Rtype, authority: &[Rec]) {
        self.set(
            qname,
            qtype,
            message(qname, qtype, Rcode::NOERROR, &[], authority),
        );
    }

    pub fn queries(&self) -> Vec<(N, Rtype)> {
        self.log.lock().unwrap().clone()
    }
}

#[derive(Debug)]
struct Reply(Option<Message<Bytes>>);

impl GetResponse for Reply {
    fn get_response(
        &mut self,
    ) -> Pin<
        Box<
            dyn Future<Output = Result<Message<Bytes>, Error>>
                + Send
                + Sync
                + '_,
        >,
    > {
        let msg = self.0.take();
        Box::pin(async move { msg.ok_or(Error::ConnectionClosed) })
    }
}

impl SendRequest<RequestMessage<Vec<u8>>> for Upstream {
    fn send_request(
        &self,
        request_msg: RequestMessage<Vec<u8>>,
    ) -> Box<dyn GetResponse + Send + Sync> {
        let req = request_msg.to_message().unwrap();
        let q = req.sole_question().unwrap();
        let key = (q.qname().to_name::<Bytes>(), q.qtype());
        self.log.lock().unwrap().push(key.clone());
        let reply = match self.table.lock().unwrap().get(&key) {
            Some(msg) => msg.clone(),
            None => message(
                &format!("{}", key.0),
                key.1,
                Rcode::NOERROR,
                &[],
                &[],
            ),
        };
        Box::new(Reply(Some(reply)))
    }
}

pub type Vc = ValidationContext<Upstream>;

pub fn context(anchor: &ZoneKey, upstream: &Upstream) -> Vc {
    context_with(anchor, upstream, Config::new())
}

pub fn context_with(anchor: &ZoneKey, upstream: &Upstream, cfg: Config) -> Vc {
    let ta = TrustAnchors::from_u8(anchor.anchor().as_bytes()).unwrap();
    ValidationContext::with_config(ta, upstream.clone(), cfg)
}

pub async fn validate(vc: &Vc, msg: &Message<Bytes>) -> ValidationState {
    let mut msg = msg.clone();
    let (state, _ede) = vc
        .validate_msg::<Bytes, Vec<u8>>(&mut msg)
        .await
        .expect("validate_msg returned an error");
    state
}

pub fn block_on<F: Future>(f: F) -> F::Output {
    tokio::runtime::Builder::new_current_thread()
        .enable_all()
        .build()
        .unwrap()
        .block_on(f)
}

//------------ A standard hierarchy -------------------------------------------

/// root (trust anchor) -> "example." (secure delegation). Both zones have
/// a single combined signing key. The upstream knows the DNSKEY RRsets and
/// the DS RRset of the delegation.
pub struct World {
    pub up: Upstream,
    pub root: ZoneKey,
    pub example: ZoneKey,
}

pub fn world() -> World {
    let up = Upstream::new();
    let root = ZoneKey::generate(".", 257);
    let example = ZoneKey::generate("example.", 257);
    up.answer(".", Rtype::DNSKEY, &signed(&root, &[root.dnskey_rec()]));
    up.answer("example.", Rtype::DS, &signed(&root, &[example.ds_rec()]));
    up.answer(
        "example.",
        Rtype::DNSKEY,
        &signed(&example, &[example.dnskey_rec()]),
    );
    World { up, root, example }
}
