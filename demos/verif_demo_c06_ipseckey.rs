// cargo test --offline --features zonefile --test verif_demo_c06_ipseckey
// An IPSECKEY record without a gateway (gateway type 0) is written by the
// zone-file writer (ZonefileFmt) with *no* gateway token, but the reader (and
// RFC 4025, and the type's own Display) require ".": the written text does
// not read back.
#![cfg(feature = "zonefile")]

use bytes::Bytes;
use domain::base::iana::Class;
use domain::base::name::{FlattenInto, Name};
use domain::base::zonefile_fmt::{DisplayKind, ZonefileFmt};
use domain::base::{Record, Ttl};
use domain::rdata::ipseckey::{Ipseckey, IpseckeyGateway};
use domain::rdata::ZoneRecordData;
use domain::zonefile::inplace::{Entry, Zonefile};

type Data = ZoneRecordData<Bytes, Name<Bytes>>;
type Rec = Record<Name<Bytes>, Data>;

#[test]
fn ipseckey_without_gateway_reads_back() {
    let owner = Name::from_octets(Bytes::from_static(b"\x07example\x03com\x00")).unwrap();
    let data: Data = ZoneRecordData::Ipseckey(Ipseckey::new(
        10,
        2.into(),
        IpseckeyGateway::None,
        Bytes::from_static(b"\x01\x02\x03\x04"),
    ));
    let rec: Rec = Record::new(owner, Class::IN, Ttl::from_secs(3600), data);
    for kind in [DisplayKind::Simple, DisplayKind::Tabbed, DisplayKind::Multiline] {
        let mut text = rec.display_zonefile(kind).to_string();
        text.push('\n');
        let mut zone = Zonefile::from(text.as_str());
        let entry = zone
            .next_entry()
            .unwrap_or_else(|err| panic!("reading {text:?} failed: {err}"));
        let read: Rec = match entry {
            Some(Entry::Record(read)) => read.flatten_into(),
            other => panic!("{text:?} gave {other:?}"),
        };
        assert_eq!(read, rec, "{text}");
    }
}
