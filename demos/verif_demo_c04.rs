//! C04 demonstrations (default features): cargo test --offline --test verif_demo_c04
use domain::base::cmp::CanonicalOrd;
use domain::base::iana::{Class, Rtype};
use domain::base::name::Name;
use domain::base::{Record, Ttl};
use domain::rdata::dnssec::{Nsec, RtypeBitmap};
use domain::rdata::svcb::{Svcb, SvcParams};
use domain::rdata::A;
use domain::base::rdata::ComposeRecordData;
use std::cmp::Ordering;
use std::collections::hash_map::DefaultHasher;
use std::hash::{Hash, Hasher};
use std::str::FromStr;

fn h<T: Hash>(t: &T) -> u64 { let mut s = DefaultHasher::new(); t.hash(&mut s); s.finish() }

#[test]
fn equal_records_hash_equal() {
    let n = Name::<Vec<u8>>::from_str("example.com.").unwrap();
    let a = Record::new(n.clone(), Class::IN, Ttl::from_secs(10), A::from_octets(1, 2, 3, 4));
    let b = Record::new(n, Class::IN, Ttl::from_secs(20), A::from_octets(1, 2, 3, 4));
    assert!(a == b, "records differing only in TTL compare equal");
    assert_eq!(h(&a), h(&b), "equal records must hash equal");
}

#[test]
fn nsec_order_looks_at_the_other_bitmap() {
    let n = Name::<Vec<u8>>::from_str("example.com.").unwrap();
    let mut b1 = RtypeBitmap::<Vec<u8>>::builder(); b1.add(Rtype::A).unwrap();
    let mut b2 = RtypeBitmap::<Vec<u8>>::builder(); b2.add(Rtype::MX).unwrap();
    let x = Nsec::new(n.clone(), b1.finalize());
    let y = Nsec::new(n, b2.finalize());
    assert!(x != y);
    assert_ne!(x.cmp(&y), Ordering::Equal, "Ord says Equal for unequal values");
    assert_ne!(x.canonical_cmp(&y), Ordering::Equal, "canonical order says Equal for unequal values");
    assert_ne!(x.partial_cmp(&y), Some(Ordering::Equal));
}

#[test]
fn svcb_canonical_order_is_wire_octet_order() {
    let t1 = Name::<Vec<u8>>::from_str("B.example.").unwrap();
    let t2 = Name::<Vec<u8>>::from_str("a.example.").unwrap();
    let p = SvcParams::<Vec<u8>>::from_octets(Vec::new()).ok().unwrap();
    let x = Svcb::new(1, t1, p.clone()).ok().unwrap();
    let y = Svcb::new(1, t2, p).ok().unwrap();
    let mut wx = Vec::new(); x.compose_canonical_rdata(&mut wx).unwrap();
    let mut wy = Vec::new(); y.compose_canonical_rdata(&mut wy).unwrap();
    assert_eq!(x.canonical_cmp(&y), wx.cmp(&wy), "RFC 4034 6.3: canonical RDATA order is the octet order of the canonical form");
}
