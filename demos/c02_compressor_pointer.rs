use domain::base::iana::Rtype;
use domain::base::message_builder::{HashCompressor, MessageBuilder, StaticCompressor, TreeCompressor};
use domain::base::{Message, Name};
use domain::rdata::{Ns, Txt};
use std::str::FromStr;

fn run<C: domain::base::wire::Composer + AsRef<[u8]>>(target: C) -> Vec<u8> {
    let mut msg = MessageBuilder::from_target(target).ok().unwrap().answer();
    let filler = Name::<Vec<u8>>::from_str("f.").unwrap();
    // fill beyond 0x4000 with TXT records that contain no new names
    let txt = Txt::<Vec<u8>>::build_from_slice(&[b'x'; 200]).unwrap();
    while msg.as_slice().len() < 0x4100 {
        msg.push((&filler, 3600, txt.clone())).unwrap();
    }
    let late = Name::<Vec<u8>>::from_str("late.example.").unwrap();
    let ns = Ns::new(Name::<Vec<u8>>::from_str("ns.late.example.").unwrap());
    msg.push((&late, 3600, ns.clone())).unwrap();
    msg.push((&late, 3600, ns)).unwrap();
    msg.finish().as_ref().to_vec()
}

fn check(octets: Vec<u8>) {
    let msg = Message::from_octets(octets).unwrap();
    let mut late = 0;
    for rr in msg.answer().unwrap() {
        let rr = rr.unwrap();
        if rr.rtype() == Rtype::NS {
            assert_eq!(rr.owner().to_string(), "late.example");
            late += 1;
        }
    }
    assert_eq!(late, 2);
}

#[test]
fn static_compressor() { check(run(StaticCompressor::new(Vec::new()))); }
#[test]
fn tree_compressor() { check(run(TreeCompressor::new(Vec::new()))); }
#[test]
fn hash_compressor() { check(run(HashCompressor::new(Vec::new()))); }
