//! An NSEC3 / NSEC3PARAM salt or next-owner hash longer than 255 octets
//! cannot be encoded; the reader must refuse it instead of building a value
//! that panics when it is composed.
#![cfg(feature = "zonefile")]
use domain::zonefile::inplace::{Entry, Zonefile};

fn first(src: &str) -> Result<Option<Entry>, String> {
    let mut zone = Zonefile::from(src);
    zone.set_origin("example.com.".parse().unwrap());
    zone.next_entry().map_err(|e| e.to_string())
}

#[test]
fn salt_of_300_octets() {
    let salt = "ab".repeat(300);
    let res = first(&format!("a 300 IN NSEC3PARAM 1 0 0 {salt}\n"));
    assert!(res.is_err(), "a 300-octet salt was accepted");
}

#[test]
fn next_owner_hash_of_300_octets() {
    // 480 base32hex characters = 300 octets
    let hash = "0".repeat(480);
    let res = first(&format!("a 300 IN NSEC3 1 0 0 - {hash} A\n"));
    assert!(res.is_err(), "a 300-octet next-owner hash was accepted");
}

#[test]
fn maximum_lengths_are_fine() {
    let salt = "ab".repeat(255);
    assert!(first(&format!("a 300 IN NSEC3PARAM 1 0 0 {salt}\n")).is_ok());
    let hash = "0".repeat(408); // 255 octets
    assert!(first(&format!("a 300 IN NSEC3 1 0 0 - {hash} A\n")).is_ok());
}

#[test]
fn owner_hash_from_str_of_300_octets() {
    use domain::rdata::nsec3::OwnerHash;
    use std::str::FromStr;
    let res = OwnerHash::<Vec<u8>>::from_str(&"0".repeat(480));
    assert!(res.is_err(), "a 300-octet hash was accepted: {} octets", res.unwrap().as_slice().len());
    assert!(OwnerHash::<Vec<u8>>::from_str(&"0".repeat(408)).is_ok());
}
