#![allow(unused_imports, dead_code)]
// Scratch tests for behaviour of the UNMODIFIED library that violates C05.
//
// Place into `tests/` (e.g. `tests/c05_preexisting.rs`) and run:
//
//     cargo test --offline -j3 --test c05_preexisting --no-fail-fast
//
// Every test asserts what the property demands; each one FAILS on the
// unmodified library (worktree HEAD e15cdb0).

use core::str::FromStr;
use domain::base::iana::{
    Class, IpseckeyAlgorithm, OptionCode, Rtype,
};
use domain::base::name::{Name, ParsedName};
use domain::base::opt::{Opt, UnknownOptData};
use domain::base::rdata::{ComposeRecordData, UnknownRecordData};
use domain::base::{Record, Ttl};
use domain::rdata::ipseckey::IpseckeyGateway;
use domain::rdata::{AllRecordData, Ipseckey, Openpgpkey, ZoneRecordData};
use octseq::array::Array;
use octseq::Parser;
use std::collections::hash_map::DefaultHasher;
use std::hash::{Hash, Hasher};

type N = Name<Vec<u8>>;

fn name(s: &str) -> N {
    Name::from_str(s).unwrap()
}

fn compose_record<D: ComposeRecordData>(data: D) -> Vec<u8> {
    let mut buf = Vec::new();
    Record::new(name("example.com."), Class::IN, Ttl::from_secs(60), data)
        .compose(&mut buf)
        .unwrap();
    buf
}

type ParsedAll<'a> = AllRecordData<&'a [u8], ParsedName<&'a [u8]>>;

fn parse_all(buf: &Vec<u8>) -> Record<ParsedName<&[u8]>, ParsedAll<'_>> {
    let mut parser = Parser::from_ref(buf);
    Record::parse(&mut parser).unwrap().unwrap()
}

//------------ 1: AllRecordData equality for Unknown and Opt -----------------

/// `AllRecordData::eq` has arms for all concrete types but none for the
/// `Unknown` and `Opt` variants (src/rdata/macros.rs, `(_, _) => false`).
/// An unknown record type parsed back from its own wire form therefore never
/// equals the original, and not even itself.
/// `Opt::push_raw_option` checks `current_len + option_len <= 65535` but
/// then appends `4 + option_len` octets. The OPT RDATA can thus be pushed
/// beyond 65,535 octets; the push reports success and `rdlen()` /
/// `Record::compose` later panic with "long OPT".
#[test]
fn opt_push_keeps_rdata_within_u16() {
    let mut opt = Opt::<Vec<u8>>::empty();
    let big = vec![0u8; 65_535];
    let res = opt.push(&UnknownOptData::new(OptionCode::PADDING, big).unwrap());
    if res.is_ok() {
        assert!(
            opt.len() <= 65_535,
            "push succeeded but OPT rdata is {} octets long",
            opt.len()
        );
    }
}

/// Same defect, two moderately sized options: after the first push the
/// rdata is 32,768 octets; 32,768 + 32,767 = 65,535 passes the check, but
/// the rdata becomes 65,539 octets.
#[test]
fn opt_push_twice_keeps_rdata_within_u16() {
    let mut opt = Opt::<Vec<u8>>::empty();
    opt.push(
        &UnknownOptData::new(OptionCode::PADDING, vec![0u8; 32_764]).unwrap(),
    )
    .unwrap();
    let res = opt.push(
        &UnknownOptData::new(OptionCode::PADDING, vec![0u8; 32_767]).unwrap(),
    );
    if res.is_ok() {
        let rdlen = std::panic::catch_unwind(|| opt.rdlen(false));
        assert!(
            rdlen.is_ok(),
            "both pushes succeeded, rdata is {} octets, rdlen() panics",
            opt.len()
        );
    }
}

/// When the octets builder runs out of space in the middle of
/// `Opt::push_raw_option` (after code and length have been written), the
/// error is returned but the partial option stays in the OPT data. The
/// value then composes to RDATA that the library's own parser rejects.
#[test]
fn opt_failed_push_leaves_value_intact() {
    let mut opt = Opt::<Array<16>>::empty();
    opt.push(&UnknownOptData::new(OptionCode::from_int(65001), b"abcd").unwrap())
        .unwrap();
    let before = opt.len();
    // 8 used; 4 header + 12 data do not fit into the remaining 8.
    let res = opt.push(
        &UnknownOptData::new(OptionCode::from_int(65002), [7u8; 12]).unwrap(),
    );
    assert!(res.is_err());

    let mut buf = Vec::new();
    opt.compose_rdata(&mut buf).unwrap();
    assert!(
        Opt::parse(&mut Parser::from_ref(buf.as_slice())).is_ok(),
        "OPT rdata {:02x?} written after a failed push does not parse \
         (length before the failed push: {}, after: {})",
        buf,
        before,
        opt.len()
    );
    assert_eq!(opt.len(), before, "failed push changed the OPT data");
}
