// Further ways in which NameCompressor emits a pointer to a wrong name.
// (Observations only; not fixed.)
//
// Run with:
//   cargo test --offline --features unstable-new --test verif_other_c19
//   cargo test --offline --features unstable-new --test verif_other_c19 --release
#![cfg(feature = "unstable-new")]

use domain::new::base::build::{MessageBuilder, NameCompressor};
use domain::new::base::name::{Name, NameBuf};
use domain::new::base::wire::{AsBytes, U16};
use domain::new::base::{
    HeaderFlags, QClass, QType, Question, RClass, RType, Record, TTL,
};

fn decode_questions(bytes: &[u8]) -> Vec<String> {
    let msg = domain::base::Message::from_octets(bytes).unwrap();
    msg.question()
        .map(|q| format!("{}.", q.unwrap().qname()))
        .collect()
}

fn build_questions(names: &[String]) -> Vec<u8> {
    let mut buffer = [0u8; 2048];
    let mut compressor = NameCompressor::default();
    let mut builder = MessageBuilder::new(
        &mut buffer,
        &mut compressor,
        U16::new(0),
        HeaderFlags::default(),
    );
    for name in names {
        let buf: NameBuf;
        let qname = if name == "." {
            Name::ROOT
        } else {
            buf = name.parse().unwrap();
            &*buf
        };
        let question = Question::<&Name> {
            qname,
            qtype: QType::A,
            qclass: QClass::IN,
        };
        builder.push_question(&question).unwrap();
    }
    builder.finish().as_bytes().to_vec()
}

fn check_questions(names: &[String]) {
    let bytes = build_questions(names);
    let decoded = decode_questions(&bytes);
    for (i, (got, want)) in decoded.iter().zip(names).enumerate() {
        let got = if got == ".." { "." } else { got.as_str() };
        assert_eq!(got, want, "name #{i} reads back differently");
    }
}

//--- (a) 'last_use' can decrease, so a parent is evicted before its child

#[test]
fn parent_evicted_before_child() {
    let long = "xxxxxxxxxxxxxxxxxxxx.c.example.org.".to_string();
    let mut names: Vec<String> = vec![
        "example.org.".into(),   // entry 0
        "c.example.org.".into(), // entry 1, child of entry 0
        long.clone(),            // entry 2, child of entry 1
        // Fully compressed: last_use[0] = L+23, last_use[1] = L+21.
        long.clone(),
        // Uses entry 0 with a short remainder, six bytes later:
        // last_use[0] = L+8 -- now BELOW that of its child, entry 1.
        "q.example.org.".into(), // entry 3
    ];
    // Fill the 28 unused entries, then evict entries 2 and 3.
    for i in 1..=30 {
        names.push(format!("n{i:02}."));
    }
    // This evicts entry 0 (the parent) although entry 1 (its child) lives.
    names.push("example.net.".into());
    // Matches the new entry 0, then the stale entry 1 "below" it.
    names.push("c.example.net.".into());
    check_questions(&names);
}

//--- (b) uninitialized entries (hash 0, parent 0) are matched

/// A copy of `NameCompressor::hash_label()` for labels of up to 15 bytes.
fn hash_label(wire: &[u8]) -> u16 {
    fn multiply_mix(x: u64, y: u64) -> u64 {
        let prod = (x as u128) * (y as u128);
        (prod as u64) ^ ((prod >> 64) as u64)
    }
    let (mut s0, mut s1) = (0x243f6a8885a308d3u64, 0x13198a2e03707344u64);
    let len = wire.len();
    assert!((4..=16).contains(&len));
    if len >= 8 {
        let a = u64::from_le_bytes(wire[..8].try_into().unwrap());
        let b = u64::from_le_bytes(wire[len - 8..].try_into().unwrap());
        s0 ^= a | 0x20202020_20202020;
        s1 ^= b | 0x20202020_20202020;
    } else {
        let a = u32::from_le_bytes(wire[..4].try_into().unwrap());
        let b = u32::from_le_bytes(wire[len - 4..].try_into().unwrap());
        s0 ^= (a | 0x20202020) as u64;
        s1 ^= (b | 0x20202020) as u64;
    }
    (multiply_mix(s0, s1) >> 48) as u16
}

#[test]
#[cfg(target_pointer_width = "64")]
fn uninitialized_entry_is_matched() {
    // Find a label whose hash is zero.
    let label = (0..10_000_000u32)
        .map(|i| format!("h{i:06}"))
        .find(|l| {
            let mut wire = vec![l.len() as u8];
            wire.extend_from_slice(l.as_bytes());
            hash_label(&wire) == 0
        })
        .expect("some label hashes to zero");
    println!("label with hash 0: {label}");

    // The root name is not registered, so entry 0 ('example.org.') is not at
    // offset 0, but uninitialized entries claim to be (pos = 0, len = 0).
    check_questions(&[
        ".".into(),
        "example.org.".into(),
        format!("{label}.example.org."),
    ]);
}

//--- (c) the compressor is not rolled back when a push fails

#[test]
fn failed_push_leaves_stale_entry() {
    let mut buffer = [0u8; 12 + 17 + 60];
    let mut compressor = NameCompressor::default();
    let mut builder = MessageBuilder::new(
        &mut buffer,
        &mut compressor,
        U16::new(0),
        HeaderFlags::default(),
    );
    let name = |s: &str| s.parse::<NameBuf>().unwrap();

    let qname = name("example.org.");
    builder
        .push_question(&Question::<&Name> {
            qname: &qname,
            qtype: QType::A,
            qclass: QClass::IN,
        })
        .unwrap();

    // Too large; fails, but 'x' (child of 'example.org.') stays registered.
    let x = name("x.example.org.");
    builder
        .push_answer(&Record::<&Name, [u8; 100]> {
            rname: &x,
            rtype: RType::TXT,
            rclass: RClass::IN,
            ttl: TTL::from(0),
            rdata: [0u8; 100],
        })
        .unwrap_err();

    // Written where the failed record would have been.
    let xy = name("x.y.example.org.");
    for rname in [&xy, &x] {
        builder
            .push_answer(&Record::<&Name, [u8; 4]> {
                rname,
                rtype: RType::A,
                rclass: RClass::IN,
                ttl: TTL::from(0),
                rdata: [127, 0, 0, 1],
            })
            .unwrap();
    }

    let bytes = builder.finish().as_bytes().to_vec();
    let msg = domain::base::Message::from_octets(&bytes[..]).unwrap();
    let owners: Vec<String> = msg
        .answer()
        .unwrap()
        .map(|rr| format!("{}.", rr.unwrap().owner()))
        .collect();
    assert_eq!(owners, ["x.y.example.org.", "x.example.org."]);
}
