//! C01: `Label::iter_slice` on a self-referencing compression pointer must stop.
//! cargo test --offline --test verif_demo_c01_slice
use domain::base::name::Label;
use std::sync::mpsc;
use std::time::Duration;

#[test]
fn self_pointer_terminates() {
    let (tx, rx) = mpsc::channel();
    std::thread::spawn(move || {
        // label "a" then a pointer at offset 2 that points to offset 2 (itself)
        let buf = [0x01u8, b'a', 0xC0, 0x02];
        let n = Label::iter_slice(&buf, 0).count();
        let _ = tx.send(n);
    });
    let n = rx.recv_timeout(Duration::from_secs(5)).expect("iterator did not terminate within 5 s");
    assert_eq!(n, 1);
}
