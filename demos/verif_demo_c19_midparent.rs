// Demo: NameCompressor::compress_name() treats an entry that was compressed
// against the MIDDLE of its parent as a child of the WHOLE parent, and so
// emits a pointer to a different name.
//
// Run with:
//   cargo test --offline --features unstable-new --test verif_demo_c19_midparent
//
// Builds a message with the NEW message builder whose question names are
// `NameBuf`s, then decodes the produced bytes with the ESTABLISHED parser
// (`domain::base::Message`) and checks that every name reads back as written.
#![cfg(feature = "unstable-new")]

use domain::new::base::build::{MessageBuilder, NameCompressor};
use domain::new::base::name::{Name, NameBuf};
use domain::new::base::wire::{AsBytes, U16};
use domain::new::base::{HeaderFlags, QClass, QType, Question};

/// Build a message with one question per name and return the wire bytes.
fn build(names: &[&str]) -> Vec<u8> {
    let mut buffer = [0u8; 512];
    let mut compressor = NameCompressor::default();
    let mut builder = MessageBuilder::new(
        &mut buffer,
        &mut compressor,
        U16::new(0),
        HeaderFlags::default(),
    );
    for name in names {
        let name: NameBuf = name.parse().unwrap();
        let question = Question::<&Name> {
            qname: &name,
            qtype: QType::A,
            qclass: QClass::IN,
        };
        builder.push_question(&question).unwrap();
    }
    builder.finish().as_bytes().to_vec()
}

/// Decode the question names with the established parser.
fn decode(bytes: &[u8]) -> Vec<String> {
    let msg = domain::base::Message::from_octets(bytes).unwrap();
    msg.question()
        .map(|q| format!("{}.", q.unwrap().qname()))
        .collect()
}

fn check(names: &[&str]) -> Vec<u8> {
    let bytes = build(names);
    let decoded = decode(&bytes);
    let decoded: Vec<&str> = decoded.iter().map(|s| s.as_str()).collect();
    assert_eq!(
        decoded, names,
        "names read back differently; contents = {:?}",
        String::from_utf8_lossy(&bytes[12..])
    );
    bytes
}

#[test]
fn child_of_suffix_is_not_child_of_whole_parent() {
    // 'unequal.org.' shares only 'org.' with 'example.org.'. HEAD then emits
    // 'unequal.example.org.' as a bare pointer to 'unequal.org.'.
    check(&["example.org.", "unequal.org.", "unequal.example.org."]);
}

#[test]
fn child_of_suffix_with_prefix() {
    // HEAD emits the third name as 'www' + pointer to 'unequal.org.'.
    check(&["example.org.", "unequal.org.", "www.unequal.example.org."]);
}

#[test]
fn child_of_whole_parent_is_not_child_of_suffix() {
    // The opposite direction: 'a.example.org.' is a child of the whole
    // parent, so 'a.org.' must not be emitted as a pointer to it.
    check(&["example.org.", "a.example.org.", "a.org."]);
}

#[test]
fn two_depths_into_the_same_parent() {
    // Children hanging off two different suffixes of the same parent.
    check(&[
        "a.b.c.d.",
        "x.d.",
        "x.c.d.",
        "x.b.c.d.",
        "x.a.b.c.d.",
        "y.x.c.d.",
        "y.x.d.",
    ]);
}

#[test]
fn child_of_suffix_is_still_reused() {
    // The entry for 'unequal' (child of the 'org.' suffix) must remain
    // usable for names that really are below 'unequal.org.'.
    let bytes =
        check(&["example.org.", "unequal.org.", "www.unequal.org."]);
    assert_eq!(
        &bytes[12..],
        b"\x07example\x03org\x00\x00\x01\x00\x01\
          \x07unequal\xC0\x14\x00\x01\x00\x01\
          \x03www\xC0\x1D\x00\x01\x00\x01"
    );
}
