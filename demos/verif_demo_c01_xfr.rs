//! C01/C10: a transfer reply whose question is not AXFR/IXFR must be rejected with an error.
//! cargo test --offline --features unstable-xfr --test verif_demo_c01_xfr
use bytes::Bytes;
use domain::base::Message;
use domain::net::xfr::protocol::XfrResponseInterpreter;

#[test]
fn non_xfr_question_is_an_error() {
    // QR, QDCOUNT 1, ANCOUNT 1
    let mut m = vec![0, 0, 0x80, 0, 0, 1, 0, 1, 0, 0, 0, 0];
    m.extend_from_slice(b"\x07example\x03com\x00\x00\x01\x00\x01"); // question: A IN
    m.extend_from_slice(b"\xC0\x0C\x00\x01\x00\x01\x00\x00\x00\x00\x00\x04\x01\x02\x03\x04"); // A record
    let msg = Message::from_octets(Bytes::from(m)).unwrap();
    let mut interp = XfrResponseInterpreter::new();
    assert!(interp.interpret_response(msg).is_err());
}
