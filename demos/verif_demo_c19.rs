//! C19: the new name compressor only ever emits pointers that resolve to the intended name.
//! cargo test --offline --features unstable-new --test verif_demo_c19
#![cfg(feature = "unstable-new")]
use std::str::FromStr;
use domain::new::base::build::{MessageBuilder, NameCompressor};
use domain::new::base::name::NameBuf;
use domain::new::base::wire::{AsBytes, U16};
use domain::new::base::{HeaderFlags, QClass, QType, Question, RClass, RType, Record};
use domain::new::rdata::RecordData;

#[test]
fn name_first_written_near_offset_16383_is_still_referenced_correctly() {
    let mut buffer = vec![0u8; 40000];
    let mut compressor = NameCompressor::default();
    let mut builder = MessageBuilder::new(&mut buffer, &mut compressor, U16::new(1), *HeaderFlags::default().set_qr(true));
    builder.push_question(&Question { qname: &*NameBuf::from_str("q.").unwrap(), qtype: QType::A, qclass: QClass::IN }).unwrap();
    // fill with records owned by the (already known) name "q." until the next owner would start
    // at message offset 16380 (contents offset 16368 .. 16383 region)
    let filler = NameBuf::from_str("q.").unwrap();
    loop {
        let len = builder.message().as_bytes().len();
        if len >= 16384 { assert!(len <= 16395, "filler step misses the window: {len}"); break; }
        builder.push_answer(&Record { rname: &*filler, rtype: RType::A, rclass: RClass::IN, ttl: 60.into(),
            rdata: <RecordData<'_, ()>>::A("192.0.2.1".parse().unwrap()) }).unwrap();
    }
    let late = NameBuf::from_str("late.example.").unwrap();
    for _ in 0..2 {
        builder.push_answer(&Record { rname: &*late, rtype: RType::A, rclass: RClass::IN, ttl: 60.into(),
            rdata: <RecordData<'_, ()>>::A("192.0.2.1".parse().unwrap()) }).unwrap();
    }
    let bytes = builder.finish().as_bytes().to_vec();
    let msg = domain::base::Message::from_octets(bytes.as_slice()).unwrap();
    let owners: Vec<String> = msg.answer().unwrap().map(|rr| rr.expect("built message parses").owner().to_string()).collect();
    let n = owners.len();
    assert_eq!(owners[n - 1], "late.example");
    assert_eq!(owners[n - 2], "late.example");
}
