// scratch: sign/verify over many types with resolver transformations
#![cfg(all(
    feature = "unstable-sign",
    feature = "unstable-validator",
    feature = "ring",
    feature = "zonefile"
))]

use std::str::FromStr;

use bytes::Bytes;
use domain::base::cmp::CanonicalOrd;
use domain::base::iana::Class;
use domain::base::name::{FlattenInto, Name, ParsedName, ToLabelIter};
use domain::base::rdata::ComposeRecordData;
use domain::base::{
    Message, MessageBuilder, Record, Rtype, StaticCompressor, ToName, Ttl,
};
use domain::crypto::sign::{KeyPair, SecretKeyBytes};
use domain::dnssec::common::parse_from_bind;
use domain::dnssec::sign::keys::SigningKey;
use domain::dnssec::sign::records::SortedRecords;
use domain::dnssec::sign::signatures::rrsigs::{
    GenerateRrsigConfig, sign_sorted_zone_records,
};
use domain::dnssec::validator::base::RrsigExt;
use domain::rdata::dnssec::Timestamp;
use domain::rdata::{AllRecordData, Dnskey, Rrsig, ZoneRecordData};
use domain::zonefile::inplace::{Entry, Zonefile};

type N = Name<Bytes>;
type D = ZoneRecordData<Bytes, N>;

fn name(s: &str) -> N {
    N::from_str(s).unwrap()
}

fn load_key() -> (SigningKey<Bytes, KeyPair>, Dnskey<Vec<u8>>) {
    let base = "test-data/dnssec-keys/Ktest.+015+56037";
    let sk = SecretKeyBytes::parse_from_bind(
        &std::fs::read_to_string(format!("{base}.private")).unwrap(),
    )
    .unwrap();
    let pk = parse_from_bind::<Vec<u8>>(
        &std::fs::read_to_string(format!("{base}.key")).unwrap(),
    )
    .unwrap();
    let kp = KeyPair::from_bytes(&sk, pk.data()).unwrap();
    (
        SigningKey::new(name("example."), pk.data().flags(), kp),
        pk.data().clone(),
    )
}

const ZONE: &str = r#"
$ORIGIN example.
$TTL 3600
@ IN SOA Ns.Example. Admin.Example. 1 2 3 4 5
@ NS nsB.Example.
@ NS NSa.example.
@ NS nsa.sub.example.
@ MX 10 Mail.Example.
@ MX 10 mail.a.example.
@ MX 2 zzz.example.
@ MX 256 AAA.example.
@ TXT "b"
@ TXT "aa"
@ TXT "a" "b"
@ TXT ""
@ TXT "A"
a A 10.0.0.200
a A 10.0.0.3
a A 9.255.0.3
a AAAA 2001:db8::2
a AAAA 2001:db8::1:0
cn CNAME Target.Example.
dn DNAME Other.Example.
p PTR Host.Example.
p PTR aost.example.
h HINFO "PC" "linux"
h HINFO "pc" "Linux"
h HINFO "a" "zzzzzz"
s SRV 10 1 80 Www.Example.
s SRV 10 1 80 a.www.example.
s SRV 9 1 80 zzz.example.
s SRV 10 0 80 zzz.example.
n NAPTR 100 10 "u" "sip" "!^.*$!sip:x@example.com!" .
n NAPTR 100 10 "U" "SIP" "" Repl.Example.
n NAPTR 100 10 "" "" "" a.example.
r RP Mbox.Example. Txt.Example.
r RP a.example. zz.example.
mi MINFO R.Example. E.Example.
mb MB Host.Example.
mg MG Host.Example.
mr MR Host.Example.
c CAA 0 issue "ca.example.net"
c CAA 128 Issue "x"
c CAA 0 iodef "mailto:a@example"
ds DS 12345 8 2 AABBCCDDEEFF00112233445566778899AABBCCDDEEFF00112233445566778899
ds DS 12345 8 1 AABBCCDDEEFF00112233445566778899AABBCCDD
ds DS 12 13 2 0ABBCCDDEEFF00112233445566778899AABBCCDDEEFF00112233445566778899
k DNSKEY 256 3 15 2tstZAjgmlDTePn0NVXrAHBJmg84LoaFVxzLl1anjGI=
k DNSKEY 257 3 15 m1NELLVVQKl4fHVn/KKdeNO0PrYKGT3IGbYseT8XcKo=
ssh SSHFP 1 1 AABBCCDDEEFF00112233445566778899AABBCCDD
ssh SSHFP 1 2 AABBCCDDEEFF00112233445566778899AABBCCDDEEFF00112233445566778899
tl TLSA 3 1 1 AABBCCDDEEFF00112233445566778899AABBCCDDEEFF00112233445566778899
tl TLSA 3 0 1 AABBCCDDEEFF00112233445566778899AABBCCDDEEFF00112233445566778899
sv SVCB 1 Svc.Example. alpn=h2 port=8443
sv SVCB 1 svc.example. alpn=h2
sv SVCB 0 Alias.Example.
ht HTTPS 1 . alpn=h3,h2 ipv4hint=192.0.2.1
ht HTTPS 2 B.example. port=1
np NSEC3PARAM 1 0 10 AABB
np NSEC3PARAM 1 0 10 -
ns NSEC Next.Example. A RRSIG NSEC
n3 NSEC3 1 1 12 aabbccdd 2t7b4g4vsa5smi47k61mv5bv1a22bojr MX DNSKEY NS SOA NSEC3PARAM RRSIG
un TYPE65280 \# 3 010203
un TYPE65280 \# 2 0102
un TYPE65280 \# 0
*.w A 10.1.1.1
*.w A 10.1.1.0
*.w MX 5 Wild.Example.
UPPER.Case A 10.2.2.2
upper.case A 10.2.2.1
ip IPSECKEY 10 3 2 Gw.Example. AQNRU3mG7TVTO2BkR47usntb102uFJtugbo6BSGvgqt4AQ==
ip IPSECKEY 10 1 2 192.0.2.38 AQNRU3mG7TVTO2BkR47usntb102uFJtugbo6BSGvgqt4AQ==
ip IPSECKEY 10 0 2 . AQNRU3mG7TVTO2BkR47usntb102uFJtugbo6BSGvgqt4AQ==
op OPENPGPKEY AABBCCDD
cd CDS 12345 8 2 AABBCCDDEEFF00112233445566778899AABBCCDDEEFF00112233445566778899
cd CDS 0 0 0 00
ck CDNSKEY 256 3 15 2tstZAjgmlDTePn0NVXrAHBJmg84LoaFVxzLl1anjGI=
zm ZONEMD 2018031900 1 1 AABBCCDDEEFF00112233445566778899AABBCCDDEEFF00112233445566778899AABBCCDDEEFF00112233445566778899
"#;

fn load_zone() -> SortedRecords<N, D> {
    let mut zf = Zonefile::load(&mut ZONE.as_bytes()).unwrap();
    let mut records = SortedRecords::<N, D>::default();
    loop {
        match zf.next_entry() {
            Ok(Some(Entry::Record(rec))) => {
                let rec: Record<N, D> = rec.flatten_into();
                if let Err(r) = records.insert(rec) {
                    println!("DUPLICATE rejected: {r}");
                }
            }
            Ok(Some(_)) => {}
            Ok(None) => break,
            Err(e) => panic!("zonefile: {e}"),
        }
    }
    records
}

fn flip_case<NN: ToName>(n: &NN) -> N {
    let mut v = n.to_vec().as_slice().to_vec();
    // flip case of letters in labels
    let mut i = 0;
    while i < v.len() {
        let l = v[i] as usize;
        for j in i + 1..i + 1 + l {
            if v[j].is_ascii_alphabetic() {
                v[j] ^= 0x20;
            }
        }
        i += l + 1;
    }
    N::from_octets(Bytes::from(v)).unwrap()
}

type WD = AllRecordData<Bytes, ParsedName<Bytes>>;

#[test]
fn all_types() {
    let (key, dnskey) = load_key();
    let zone = load_zone();
    println!("{} records", zone.len());
    let sigs = sign_sorted_zone_records(
        &name("example."),
        zone.owner_rrs(),
        &[&key],
        &GenerateRrsigConfig::new(Timestamp::from(1000), Timestamp::from(2000)),
    )
    .unwrap();
    let mut failures = Vec::new();
    let mut checked = 0;
    for rrset in zone.rrsets() {
        let rtype = rrset.rtype();
        let owner = rrset.owner().clone();
        let Some(sig) = sigs.iter().find(|s| {
            s.owner() == &owner && s.data().type_covered() == rtype
        }) else {
            println!("no sig for {owner} {rtype}");
            continue;
        };
        checked += 1; println!("  {owner} {rtype} x{}", rrset.len());
        let recs: Vec<Record<N, D>> = rrset.iter().cloned().collect();

        // canonical order check vs canonical bytes
        for x in &recs {
            for y in &recs {
                let mut bx = Vec::new();
                let mut by = Vec::new();
                x.data().compose_canonical_rdata(&mut bx).unwrap();
                y.data().compose_canonical_rdata(&mut by).unwrap();
                if x.data().canonical_cmp(y.data()) != bx.cmp(&by) {
                    failures.push(format!(
                        "ORDER {owner} {rtype}: {} vs {}",
                        x.data(),
                        y.data()
                    ));
                }
            }
        }

        // 1. direct
        {
            let mut rrs = recs.clone();
            rrs.reverse();
            let mut buf = Vec::new();
            sig.data().signed_data(&mut buf, &mut rrs).unwrap();
            if sig.data().verify_signed_data(&dnskey, &buf).is_err() {
                failures.push(format!("DIRECT {owner} {rtype}"));
            }
        }
        // 2. via message with compression, reversed order, ttl decremented,
        //    owner case flipped
        {
            let mut msg = MessageBuilder::from_target(
                StaticCompressor::new(Vec::<u8>::new()),
            )
            .unwrap()
            .question();
            msg.push((name("example."), Rtype::SOA)).unwrap();
            let mut msg = msg.answer();
            // some names first to give compression targets
            for rr in zone.iter().filter(|r| r.rtype() == Rtype::NS) {
                msg.push(Record::new(name("filler.example."), rr.class(), rr.ttl(), rr.data().clone())).unwrap();
            }
            let exp_owner = if owner.iter_labels().next().unwrap().is_wildcard()
            {
                // expand
                let mut s = String::from("X.y");
                s.push_str(&format!("{}", owner)[1..]);
                s.push('.');
                name(&s)
            } else {
                flip_case(&owner)
            };
            for rr in recs.iter().rev() {
                msg.push(Record::new(
                    exp_owner.clone(),
                    rr.class(),
                    Ttl::from_secs(7),
                    rr.data().clone(),
                ))
                .unwrap();
            }
            msg.push(Record::new(
                exp_owner.clone(),
                Class::IN,
                Ttl::from_secs(7),
                sig.data().clone(),
            ))
            .unwrap();
            let wire = Bytes::from(msg.finish().into_target());
            let msg = Message::from_octets(wire).unwrap();
            let mut rrs: Vec<Record<ParsedName<Bytes>, WD>> = Vec::new();
            let mut wsig = None;
            for rr in msg.answer().unwrap() {
                let rr = rr.unwrap();
                if rr.owner() != exp_owner {
                    continue;
                }
                let rec = rr.into_record::<WD>().unwrap().unwrap();
                if rec.rtype() == Rtype::RRSIG {
                    if let AllRecordData::Rrsig(s) = rec.data() {
                        wsig = Some(s.clone());
                    }
                } else {
                    rrs.push(rec);
                }
            }
            let wsig: Rrsig<Bytes, ParsedName<Bytes>> = wsig.unwrap();
            assert_eq!(rrs.len(), recs.len());
            let mut buf = Vec::new();
            wsig.signed_data(&mut buf, &mut rrs).unwrap();
            if wsig.verify_signed_data(&dnskey, &buf).is_err() {
                failures.push(format!("WIRE {owner} {rtype}"));
            }
        }
    }
    println!("checked {checked} rrsets");
    for f in &failures {
        println!("FAIL: {f}");
    }
    assert!(failures.is_empty());
}
