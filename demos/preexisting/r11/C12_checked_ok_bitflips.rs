// scratch: single-bit alterations
#![cfg(all(
    feature = "unstable-sign",
    feature = "unstable-validator",
    feature = "ring"
))]

use std::str::FromStr;

use bytes::Bytes;
use domain::base::iana::{Class, SecurityAlgorithm};
use domain::base::name::Name;
use domain::base::{Record, Rtype, Ttl};
use domain::crypto::sign::{KeyPair, SecretKeyBytes};
use domain::dnssec::common::parse_from_bind;
use domain::dnssec::sign::keys::SigningKey;
use domain::dnssec::sign::records::{Rrset, SortedRecords};
use domain::dnssec::sign::signatures::rrsigs::sign_rrset;
use domain::dnssec::validator::base::RrsigExt;
use domain::rdata::dnssec::Timestamp;
use domain::rdata::{Dnskey, Mx, Rrsig, ZoneRecordData};

type N = Name<Bytes>;
type D = ZoneRecordData<Bytes, N>;

fn name(s: &str) -> N {
    N::from_str(s).unwrap()
}

fn load_key(
    alg: SecurityAlgorithm,
    tag: u16,
) -> (SigningKey<Bytes, KeyPair>, Dnskey<Vec<u8>>) {
    let base = format!(
        "test-data/dnssec-keys/Ktest.+{:03}+{:05}",
        alg.to_int(),
        tag
    );
    let sk = SecretKeyBytes::parse_from_bind(
        &std::fs::read_to_string(format!("{base}.private")).unwrap(),
    )
    .unwrap();
    let pk = parse_from_bind::<Vec<u8>>(
        &std::fs::read_to_string(format!("{base}.key")).unwrap(),
    )
    .unwrap();
    let kp = KeyPair::from_bytes(&sk, pk.data()).unwrap();
    (
        SigningKey::new(name("Example."), pk.data().flags(), kp),
        pk.data().clone(),
    )
}

fn verifies(
    sig: &Rrsig<Bytes, N>,
    dnskey: &Dnskey<Vec<u8>>,
    records: &[Record<N, D>],
) -> bool {
    let mut rrs = records.to_vec();
    let mut buf = Vec::new();
    if sig.signed_data(&mut buf, &mut rrs).is_err() {
        return false;
    }
    sig.verify_signed_data(dnskey, &buf).is_ok()
}

#[test]
fn flips() {
    for (alg, tag) in [
        (SecurityAlgorithm::RSASHA256, 60616),
        (SecurityAlgorithm::ECDSAP256SHA256, 42253),
        (SecurityAlgorithm::ECDSAP384SHA384, 33566),
        (SecurityAlgorithm::ED25519, 56037),
    ] {
        for owner in ["*.w.example.", "www.example."] {
            let (key, dnskey) = load_key(alg, tag);
            let mut sorted = SortedRecords::<N, D>::default();
            for (p, h) in [(10u16, "mail.example."), (20, "mx2.example.")] {
                sorted
                    .insert(Record::new(
                        name(owner),
                        Class::IN,
                        Ttl::from_secs(3600),
                        D::Mx(Mx::new(p, name(h))),
                    ))
                    .unwrap();
            }
            let rrset = Rrset::new_from_owned(&sorted).unwrap();
            let sig = sign_rrset(
                &key,
                &rrset,
                Timestamp::from(1000),
                Timestamp::from(2000),
            )
            .unwrap();
            let s = sig.data().clone();
            let recs: Vec<_> = sorted.iter().cloned().collect();
            assert!(verifies(&s, &dnskey, &recs));
            let mut bad = Vec::new();

            // RRSIG fields
            let mk = |tc: u16, al: u8, lb: u8, ot: u32, ex: u32, inc: u32, kt: u16, sn: &N, sg: &[u8]| {
                Rrsig::new(
                    Rtype::from_int(tc),
                    SecurityAlgorithm::from_int(al),
                    lb,
                    Ttl::from_secs(ot),
                    Timestamp::from(ex),
                    Timestamp::from(inc),
                    kt,
                    sn.clone(),
                    Bytes::copy_from_slice(sg),
                )
                .unwrap()
            };
            let tc = s.type_covered().to_int();
            let al = s.algorithm().to_int();
            let lb = s.labels();
            let ot = s.original_ttl().as_secs();
            let ex = s.expiration().into_int();
            let inc = s.inception().into_int();
            let kt = s.key_tag();
            let sn = s.signer_name().clone();
            let sg = s.signature().to_vec();
            for b in 0..16 {
                if verifies(&mk(tc ^ (1 << b), al, lb, ot, ex, inc, kt, &sn, &sg), &dnskey, &recs) { bad.push(format!("type_covered bit {b}")); }
                if verifies(&mk(tc, al, lb, ot, ex, inc, kt ^ (1 << b), &sn, &sg), &dnskey, &recs) { bad.push(format!("key_tag bit {b}")); }
            }
            for b in 0..8 {
                if verifies(&mk(tc, al ^ (1 << b), lb, ot, ex, inc, kt, &sn, &sg), &dnskey, &recs) { bad.push(format!("alg bit {b}")); }
                if verifies(&mk(tc, al, lb ^ (1 << b), ot, ex, inc, kt, &sn, &sg), &dnskey, &recs) { bad.push(format!("labels bit {b}")); }
            }
            for b in 0..32 {
                if verifies(&mk(tc, al, lb, ot ^ (1 << b), ex, inc, kt, &sn, &sg), &dnskey, &recs) { bad.push(format!("ottl bit {b}")); }
                if verifies(&mk(tc, al, lb, ot, ex ^ (1 << b), inc, kt, &sn, &sg), &dnskey, &recs) { bad.push(format!("exp bit {b}")); }
                if verifies(&mk(tc, al, lb, ot, ex, inc ^ (1 << b), kt, &sn, &sg), &dnskey, &recs) { bad.push(format!("inc bit {b}")); }
            }
            // signer name
            let snb = sn.as_slice().to_vec();
            for i in 0..snb.len() {
                for b in 0..8 {
                    let mut v = snb.clone();
                    v[i] ^= 1 << b;
                    if let Ok(n2) = N::from_octets(Bytes::from(v.clone())) {
                        let case_only = b == 5 && snb[i].is_ascii_alphabetic() && i != 0 && i != 8;
                        if verifies(&mk(tc, al, lb, ot, ex, inc, kt, &n2, &sg), &dnskey, &recs) && !case_only {
                            bad.push(format!("signer byte {i} bit {b} -> {n2}"));
                        }
                    }
                }
            }
            // signature
            for i in 0..sg.len() {
                for b in 0..8 {
                    let mut v = sg.clone();
                    v[i] ^= 1 << b;
                    if verifies(&mk(tc, al, lb, ot, ex, inc, kt, &sn, &v), &dnskey, &recs) { bad.push(format!("sig byte {i} bit {b}")); }
                }
            }
            // truncated / extended signature
            {
                let mut v = sg.clone(); v.push(0);
                if verifies(&mk(tc, al, lb, ot, ex, inc, kt, &sn, &v), &dnskey, &recs) { bad.push("sig + 00".to_string()); }
                let mut v = sg.clone(); v.insert(0, 0);
                if verifies(&mk(tc, al, lb, ot, ex, inc, kt, &sn, &v), &dnskey, &recs) { bad.push("00 + sig".to_string()); }
                let v = &sg[..sg.len()-1];
                if verifies(&mk(tc, al, lb, ot, ex, inc, kt, &sn, v), &dnskey, &recs) { bad.push("sig - last".to_string()); }
            }
            // key
            let kb = dnskey.public_key().clone();
            for i in 0..kb.len() {
                for b in 0..8 {
                    let mut v = kb.clone();
                    v[i] ^= 1 << b;
                    let k2 = Dnskey::new(dnskey.flags(), 3, dnskey.algorithm(), v).unwrap();
                    if verifies(&s, &k2, &recs) { bad.push(format!("key byte {i} bit {b}")); }
                }
            }
            {
                let mut v = kb.clone(); v.push(0);
                let k2 = Dnskey::new(dnskey.flags(), 3, dnskey.algorithm(), v).unwrap();
                if verifies(&s, &k2, &recs) { bad.push("key + 00".to_string()); }
            }
            // records: class, ttl irrelevant, rdata, owner
            for b in 0..16 {
                let r2: Vec<_> = recs.iter().map(|r| Record::new(r.owner().clone(), Class::from_int(r.class().to_int() ^ (1 << b)), r.ttl(), r.data().clone())).collect();
                if verifies(&s, &dnskey, &r2) { bad.push(format!("class bit {b}")); }
                let mut r3 = recs.clone();
                if let D::Mx(mx) = recs[0].data() {
                    *r3[0].data_mut() = D::Mx(Mx::new(mx.preference() ^ (1 << b), mx.exchange().clone()));
                }
                if verifies(&s, &dnskey, &r3) { bad.push(format!("mx pref bit {b}")); }
            }
            // drop a record / duplicate a record
            if verifies(&s, &dnskey, &recs[..1]) { bad.push("dropped record".into()); }
            let mut dup = recs.clone(); dup.push(recs[0].clone());
            if verifies(&s, &dnskey, &dup) { bad.push("duplicated record".into()); }
            println!("{alg} {owner}: {} unexpected acceptances {:?}", bad.len(), bad);
            assert!(bad.is_empty());
        }
    }
}
