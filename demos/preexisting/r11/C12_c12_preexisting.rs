// Pre-existing violations of C12 in the UNMODIFIED library.
//
// Every test asserts what the property demands; a FAILING test therefore
// demonstrates a violation by the unmodified code.
//
// Place in tests/ of the repository and run
//
//   cargo test --offline --all-features --test c12_preexisting
//
// Observed on the unmodified worktree: all seven tests FAIL (p1, p2, p4, p4b are
// violations of C12 proper; p3 is the documented "caller must check" gap of
// the primitive; p5 and p6 are side observations outside the C12 quantifier).
#![cfg(all(
    feature = "unstable-sign",
    feature = "unstable-validator",
    feature = "ring"
))]

use std::str::FromStr;

use bytes::Bytes;
use domain::base::iana::Class;
use domain::base::name::Name;
use domain::base::rdata::UnknownRecordData;
use domain::base::{Record, Rtype, Ttl};
use domain::crypto::sign::{KeyPair, SecretKeyBytes};
use domain::dnssec::common::parse_from_bind;
use domain::dnssec::sign::keys::SigningKey;
use domain::dnssec::sign::records::{Rrset, SortedRecords};
use domain::dnssec::sign::signatures::rrsigs::{
    GenerateRrsigConfig, sign_rrset, sign_sorted_zone_records,
};
use domain::dnssec::validator::base::RrsigExt;
use domain::rdata::dnssec::Timestamp;
use domain::rdata::{A, Dnskey, Rrsig, Soa, ZoneRecordData};

type N = Name<Bytes>;
type D = ZoneRecordData<Bytes, N>;

fn name(s: &str) -> N {
    N::from_str(s).unwrap()
}

fn load_key() -> (SigningKey<Bytes, KeyPair>, Dnskey<Vec<u8>>) {
    let base = "test-data/dnssec-keys/Ktest.+015+56037";
    let sk = SecretKeyBytes::parse_from_bind(
        &std::fs::read_to_string(format!("{base}.private")).unwrap(),
    )
    .unwrap();
    let pk = parse_from_bind::<Vec<u8>>(
        &std::fs::read_to_string(format!("{base}.key")).unwrap(),
    )
    .unwrap();
    let kp = KeyPair::from_bytes(&sk, pk.data()).unwrap();
    (
        SigningKey::new(name("example."), pk.data().flags(), kp),
        pk.data().clone(),
    )
}

fn verifies(
    sig: &Rrsig<Bytes, N>,
    dnskey: &Dnskey<Vec<u8>>,
    records: &[Record<N, D>],
) -> bool {
    let mut rrs = records.to_vec();
    let mut buf = Vec::new();
    sig.signed_data(&mut buf, &mut rrs).unwrap();
    sig.verify_signed_data(dnskey, &buf).is_ok()
}

fn a(owner: &str, class: Class, ip: &str) -> Record<N, D> {
    Record::new(
        name(owner),
        class,
        Ttl::from_secs(3600),
        D::A(A::from_str(ip).unwrap()),
    )
}

fn soa() -> Record<N, D> {
    Record::new(
        name("example."),
        Class::IN,
        Ttl::from_secs(3600),
        D::Soa(Soa::new(
            name("ns.example."),
            name("admin.example."),
            1.into(),
            Ttl::from_secs(1),
            Ttl::from_secs(1),
            Ttl::from_secs(1),
            Ttl::from_secs(1),
        )),
    )
}

fn zone_sigs(
    key: &SigningKey<Bytes, KeyPair>,
    zone: &SortedRecords<N, D>,
) -> Vec<Record<N, Rrsig<Bytes, N>>> {
    sign_sorted_zone_records(
        &name("example."),
        zone.owner_rrs(),
        &[key],
        &GenerateRrsigConfig::new(
            Timestamp::from(1_000),
            Timestamp::from(2_000),
        ),
    )
    .unwrap()
}

/// P1: `SortedRecords::update_data()` claims that changing the data of a
/// record cannot invalidate the sort order ("the data is not part of the sort
/// key"). It is part of it: the canonical order *within* an RRset is by
/// RDATA. After an update the RRset is signed in non-canonical order and the
/// RRSIG does not verify.
#[test]
fn p1_update_data_then_sign_zone() {
    let (key, dnskey) = load_key();
    let mut zone = SortedRecords::<N, D>::default();
    zone.insert(soa()).unwrap();
    zone.insert(a("www.example.", Class::IN, "192.0.2.1")).unwrap();
    zone.insert(a("www.example.", Class::IN, "192.0.2.5")).unwrap();

    // Renumber the first host.
    let old = D::A(A::from_str("192.0.2.1").unwrap());
    zone.update_data(
        |rr| *rr.data() == old,
        D::A(A::from_str("192.0.2.9").unwrap()),
    );

    let sigs = zone_sigs(&key, &zone);
    let sig = sigs
        .iter()
        .find(|s| s.data().type_covered() == Rtype::A)
        .unwrap();
    let rrset: Vec<_> =
        zone.iter().filter(|r| r.rtype() == Rtype::A).cloned().collect();
    assert_eq!(rrset.len(), 2);
    assert!(
        verifies(sig.data(), &dnskey, &rrset),
        "RRSIG made by sign_sorted_zone_records after update_data() does \
         not verify"
    );
}

/// P2: the RRset iterators group by owner (and type) only, not by class.
/// Records of two classes that end up adjacent are signed as ONE RRset.
#[test]
fn p2_rrsets_of_two_classes_are_signed_as_one() {
    let (key, dnskey) = load_key();
    let mut zone = SortedRecords::<N, D>::default();
    zone.insert(a("example.", Class::IN, "192.0.2.1")).unwrap();
    zone.insert(a("example.", Class::CH, "192.0.2.2")).unwrap();

    // The collection itself knows that these are different RRsets ...
    assert_eq!(zone.len(), 2);
    // ... the RRset iterator should agree.
    let n_rrsets = zone.rrsets().count();

    let sigs = zone_sigs(&key, &zone);
    let in_rrset = vec![a("example.", Class::IN, "192.0.2.1")];
    let ch_rrset = vec![a("example.", Class::CH, "192.0.2.2")];
    let in_ok = sigs
        .iter()
        .any(|s| s.class() == Class::IN && verifies(s.data(), &dnskey, &in_rrset));
    let ch_ok = sigs
        .iter()
        .any(|s| s.class() == Class::CH && verifies(s.data(), &dnskey, &ch_rrset));
    assert!(
        n_rrsets == 2 && in_ok && ch_ok,
        "rrsets()={n_rrsets} sigs={} IN verifies={in_ok} CH verifies={ch_ok}",
        sigs.len()
    );
}

/// P4: a record given in RFC 3597 syntax (`A \# 4 c0000209`) is kept as
/// `ZoneRecordData::Unknown`. `canonical_cmp` between an `Unknown` and a typed
/// value of the same type is `Equal`, so (a) `SortedRecords::insert` rejects
/// the second record as a duplicate and (b) `sign_rrset` signs the two in the
/// order given. A validator that sees two ordinary A records sorts them and
/// the signature fails.
#[test]
fn p4_unknown_and_typed_record_of_same_type() {
    let (key, dnskey) = load_key();
    let generic = Record::new(
        name("www.example."),
        Class::IN,
        Ttl::from_secs(3600),
        D::Unknown(
            UnknownRecordData::from_octets(
                Rtype::A,
                Bytes::from_static(&[192, 0, 2, 9]),
            )
            .unwrap(),
        ),
    );
    let typed = a("www.example.", Class::IN, "192.0.2.1");

    // (a) insert
    let mut zone = SortedRecords::<N, D>::default();
    zone.insert(generic.clone()).unwrap();
    let inserted = zone.insert(typed.clone()).is_ok();

    // (b) sign_rrset, which sorts on its own.
    let recs = [generic.clone(), typed.clone()];
    let rrset = Rrset::new_from_owned(&recs).unwrap();
    let sig =
        sign_rrset(&key, &rrset, Timestamp::from(1_000), Timestamp::from(2_000))
            .unwrap();
    // What a validator gets from the wire: two A records.
    let wire = vec![
        a("www.example.", Class::IN, "192.0.2.9"),
        a("www.example.", Class::IN, "192.0.2.1"),
    ];
    let ok = verifies(sig.data(), &dnskey, &wire);
    assert!(
        inserted && ok,
        "insert of distinct record accepted={inserted}, signature verifies={ok}"
    );
}

/// P3: altering the key: the flags (ZONE bit cleared) or the protocol octet
/// of the DNSKEY do not matter to `verify_signed_data`.
#[test]
fn p3_altered_key_flags_or_protocol() {
    let (key, dnskey) = load_key();
    let recs = [a("www.example.", Class::IN, "192.0.2.1")];
    let rrset = Rrset::new_from_owned(&recs).unwrap();
    let sig =
        sign_rrset(&key, &rrset, Timestamp::from(1_000), Timestamp::from(2_000))
            .unwrap();
    let mut rrs = recs.to_vec();
    let mut buf = Vec::new();
    sig.data().signed_data(&mut buf, &mut rrs).unwrap();
    assert!(sig.data().verify_signed_data(&dnskey, &buf).is_ok());

    let no_zone_bit = Dnskey::new(
        dnskey.flags() & !0x0100,
        3,
        dnskey.algorithm(),
        dnskey.public_key().clone(),
    )
    .unwrap();
    let bad_proto = Dnskey::new(
        dnskey.flags(),
        2,
        dnskey.algorithm(),
        dnskey.public_key().clone(),
    )
    .unwrap();
    let a_ = sig.data().verify_signed_data(&no_zone_bit, &buf).is_err();
    let b_ = sig.data().verify_signed_data(&bad_proto, &buf).is_err();
    assert!(
        a_ && b_,
        "rejected key without ZONE flag: {a_}; rejected key with protocol 2: {b_}"
    );
}

/// P5 (side observation, completeness rather than C12): `SignableZone::
/// sign_zone` (sign *into* a separate collection) only signs what it wrote to
/// the output collection, i.e. the NSEC records; the RRsets of the zone itself
/// get no RRSIG at all.
#[test]
fn p5_sign_into_signs_only_the_nsecs() {
    use domain::dnssec::sign::SigningConfig;
    use domain::dnssec::sign::traits::SignableZone;

    let (key, _dnskey) = load_key();
    let mut zone = SortedRecords::<N, D>::default();
    zone.insert(soa()).unwrap();
    zone.insert(a("www.example.", Class::IN, "192.0.2.1")).unwrap();

    let cfg = SigningConfig::new(
        Default::default(),
        Timestamp::from(1_000),
        Timestamp::from(2_000),
    );
    let mut out = SortedRecords::<N, D>::default();
    zone.sign_zone(&name("example."), &cfg, &[&key], &mut out).unwrap();
    let covered: Vec<Rtype> = out
        .iter()
        .filter_map(|r| match r.data() {
            ZoneRecordData::Rrsig(s) => Some(s.type_covered()),
            _ => None,
        })
        .collect();
    assert!(
        covered.contains(&Rtype::SOA) && covered.contains(&Rtype::A),
        "types covered by the generated RRSIGs: {covered:?}"
    );
}

/// P6 (outside the ring quantifier): with both backends enabled an Ed448 key
/// is accepted for signing (OpenSSL fallback) but the validation primitive
/// only ever asks ring, which reports the algorithm as unsupported.
#[cfg(feature = "openssl")]
#[test]
fn p6_ed448_signs_but_does_not_verify_when_ring_is_enabled() {
    let base = "test-data/dnssec-keys/Ktest.+016+07379";
    let sk = SecretKeyBytes::parse_from_bind(
        &std::fs::read_to_string(format!("{base}.private")).unwrap(),
    )
    .unwrap();
    let pk = parse_from_bind::<Vec<u8>>(
        &std::fs::read_to_string(format!("{base}.key")).unwrap(),
    )
    .unwrap();
    let kp = KeyPair::from_bytes(&sk, pk.data()).unwrap();
    let key: SigningKey<Bytes, KeyPair> =
        SigningKey::new(name("example."), pk.data().flags(), kp);
    let recs = [a("www.example.", Class::IN, "192.0.2.1")];
    let rrset = Rrset::new_from_owned(&recs).unwrap();
    let sig =
        sign_rrset(&key, &rrset, Timestamp::from(1_000), Timestamp::from(2_000))
            .unwrap();
    let mut rrs = recs.to_vec();
    let mut buf = Vec::new();
    sig.data().signed_data(&mut buf, &mut rrs).unwrap();
    assert_eq!(sig.data().verify_signed_data(pk.data(), &buf), Ok(()));
}

/// P4b: the same through the zone file parser: one record of an RRset written
/// in RFC 3597 generic syntax.
#[cfg(feature = "zonefile")]
#[test]
fn p4b_generic_syntax_record_in_zone_file() {
    use domain::base::name::FlattenInto;
    use domain::zonefile::inplace::{Entry, Zonefile};

    let text = "$ORIGIN example.\n$TTL 3600\n\
                www IN A \\# 4 c0000209\n\
                www IN A 192.0.2.1\n";
    let mut zf = Zonefile::load(&mut text.as_bytes()).unwrap();
    let mut parsed: Vec<Record<N, D>> = Vec::new();
    while let Some(entry) = zf.next_entry().unwrap() {
        if let Entry::Record(rec) = entry {
            parsed.push(rec.flatten_into());
        }
    }
    assert_eq!(parsed.len(), 2);

    let (key, dnskey) = load_key();
    let mut zone = SortedRecords::<N, D>::default();
    zone.insert(soa()).unwrap();
    zone.extend(parsed);
    assert_eq!(zone.len(), 3);
    let sigs = zone_sigs(&key, &zone);
    let sig = sigs
        .iter()
        .find(|s| s.data().type_covered() == Rtype::A)
        .unwrap();
    let wire = vec![
        a("www.example.", Class::IN, "192.0.2.9"),
        a("www.example.", Class::IN, "192.0.2.1"),
    ];
    assert!(
        verifies(sig.data(), &dnskey, &wire),
        "RRSIG over an RRset with one generic-syntax record does not verify"
    );
}
