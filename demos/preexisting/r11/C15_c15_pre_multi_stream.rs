// Pre-existing violation of C15 in the UNMODIFIED multi-stream transport
// (src/net/client/multi_stream.rs, Transport::run). The test asserts what
// the property demands and therefore FAILS on the unmodified library.
//
// Place this file in tests/ of the repository and run:
//
//   cargo test --offline --features net,unstable-client-transport \
//       --test c15_pre_multi_stream -- --nocapture
//
// While Transport::run waits for a new connection it also polls the
// runners of the old stream transports:
//
//     let runners_empty = runners.is_empty();      // computed ONCE
//     loop { tokio::select! {
//         res_conn = stream_fut.as_mut() => { ...; break }
//         _ = runners.next(), if !runners_empty => {}
//     } }
//
// As soon as the last old runner finishes during that wait,
// `runners.next()` is `Ready(None)` on every poll, the guard is stale and
// the loop spins without ever yielding. On a current-thread runtime nothing
// else runs any more: neither the connect future's timer nor the timeout
// of the request - the request never completes.
//
// An old runner is still alive at that point if its `shutdown()` of the
// stream takes a while (TLS close_notify on a congested socket, here a
// wrapper that needs 2.5 s).
#![cfg(all(feature = "net", feature = "unstable-client-transport"))]

use domain::base::iana::Rcode;
use domain::base::{Message, MessageBuilder, Name, Rtype};
use domain::net::client::multi_stream;
use domain::net::client::protocol::AsyncConnect;
use domain::net::client::request::{RequestMessage, SendRequest};
use std::future::Future;
use std::io;
use std::pin::Pin;
use std::str::FromStr;
use std::sync::Arc;
use std::sync::atomic::{AtomicUsize, Ordering};
use std::task::{Context, Poll};
use std::time::Duration;
use tokio::io::{
    AsyncRead, AsyncReadExt, AsyncWrite, AsyncWriteExt, DuplexStream, ReadBuf,
};
use tokio::time::Sleep;

/// A stream whose shutdown takes 2.5 seconds.
struct SlowClose {
    inner: DuplexStream,
    closing: Option<Pin<Box<Sleep>>>,
}

impl AsyncRead for SlowClose {
    fn poll_read(
        mut self: Pin<&mut Self>,
        cx: &mut Context<'_>,
        buf: &mut ReadBuf<'_>,
    ) -> Poll<io::Result<()>> {
        Pin::new(&mut self.inner).poll_read(cx, buf)
    }
}

impl AsyncWrite for SlowClose {
    fn poll_write(
        mut self: Pin<&mut Self>,
        cx: &mut Context<'_>,
        buf: &[u8],
    ) -> Poll<io::Result<usize>> {
        Pin::new(&mut self.inner).poll_write(cx, buf)
    }

    fn poll_flush(
        mut self: Pin<&mut Self>,
        cx: &mut Context<'_>,
    ) -> Poll<io::Result<()>> {
        Pin::new(&mut self.inner).poll_flush(cx)
    }

    fn poll_shutdown(
        mut self: Pin<&mut Self>,
        cx: &mut Context<'_>,
    ) -> Poll<io::Result<()>> {
        if self.closing.is_none() {
            // Control: C15_CLOSE_MS=0 makes the shutdown immediate, the
            // request then completes after a few seconds.
            let ms = std::env::var("C15_CLOSE_MS")
                .ok()
                .and_then(|s| s.parse().ok())
                .unwrap_or(2500);
            self.closing =
                Some(Box::pin(tokio::time::sleep(Duration::from_millis(ms))));
        }
        match self.closing.as_mut().unwrap().as_mut().poll(cx) {
            Poll::Pending => Poll::Pending,
            Poll::Ready(()) => Pin::new(&mut self.inner).poll_shutdown(cx),
        }
    }
}

/// The first connection is there at once and is closed by the peer after
/// the first request; every later connection takes 3 s to establish and
/// then works.
#[derive(Clone)]
struct Connector(Arc<AtomicUsize>);

impl AsyncConnect for Connector {
    type Connection = SlowClose;
    type Fut = Pin<
        Box<dyn Future<Output = io::Result<SlowClose>> + Send + Sync>,
    >;

    fn connect(&self) -> Self::Fut {
        let n = self.0.fetch_add(1, Ordering::SeqCst);
        Box::pin(async move {
            let (client, mut server) = tokio::io::duplex(65536);
            if n == 0 {
                tokio::spawn(async move {
                    // Read the request, then hang up.
                    let len = server.read_u16().await.unwrap() as usize;
                    let mut buf = vec![0u8; len];
                    server.read_exact(&mut buf).await.unwrap();
                    drop(server);
                });
            } else {
                tokio::time::sleep(Duration::from_secs(3)).await;
                tokio::spawn(async move {
                    loop {
                        let Ok(len) = server.read_u16().await else { break };
                        let mut buf = vec![0u8; len as usize];
                        if server.read_exact(&mut buf).await.is_err() {
                            break;
                        }
                        let req = Message::from_octets(buf).unwrap();
                        let msg = MessageBuilder::new_vec()
                            .start_answer(&req, Rcode::NOERROR)
                            .unwrap()
                            .into_message();
                        let msg = msg.as_slice();
                        server.write_u16(msg.len() as u16).await.unwrap();
                        server.write_all(msg).await.unwrap();
                    }
                });
            }
            Ok(SlowClose {
                inner: client,
                closing: None,
            })
        })
    }
}

fn request() -> RequestMessage<Vec<u8>> {
    let mut msg = MessageBuilder::new_vec();
    msg.header_mut().set_rd(true);
    let mut msg = msg.question();
    msg.push((
        Name::<Vec<u8>>::from_str("www.example.com").unwrap(),
        Rtype::A,
    ))
    .unwrap();
    RequestMessage::new(msg.into_message()).unwrap()
}

#[test]
fn request_completes_when_old_runner_ends_during_connect() {
    let (tx, rx) = std::sync::mpsc::channel();
    std::thread::spawn(move || {
        let rt = tokio::runtime::Builder::new_current_thread()
            .enable_all()
            .build()
            .unwrap();
        rt.block_on(async move {
            let mut config = multi_stream::Config::default();
            config.set_response_timeout(Duration::from_secs(8));
            let (conn, transport) = multi_stream::Connection::with_config(
                Connector(Default::default()),
                config,
            );
            tokio::spawn(transport.run());
            let start = std::time::Instant::now();
            let res = conn.send_request(request()).get_response().await;
            let _ = tx.send((res.map(|_| ()), start.elapsed()));
        });
    });

    // The request has a timeout of 8 s. Whatever happens, it has to be
    // over (answer or error) well within 20 s.
    match rx.recv_timeout(Duration::from_secs(20)) {
        Ok((res, elapsed)) => {
            eprintln!("P5: completed after {elapsed:?} with {res:?}");
        }
        Err(_) => panic!(
            "the request (timeout 8 s) did not complete within 20 s: the \
             runtime thread is spinning in multi_stream::Transport::run"
        ),
    }
}
