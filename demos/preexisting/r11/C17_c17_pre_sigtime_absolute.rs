// Pre-existing behaviour of the UNMODIFIED library (property C17).
//
// Place at tests/c17_pre_sigtime_absolute.rs and run:
//
//   cargo test --offline --features serde,unstable-sign,ring --test c17_pre_sigtime_absolute
//
// (`serde` and `ring` are only needed because `unstable-sign` does not
// compile without them; the first test only needs default features.)
//
// Two conversions of an RRSIG signature time (`rdata::dnssec::Timestamp`,
// RFC 1982 ordered) into absolute, totally ordered times do not preserve
// the RFC 1982 order of the signature times:
//
// 1. `Timestamp::to_system_time(reference)` (src/rdata/dnssec.rs; same code
//    in src/new/rdata/dnssec/rrsig.rs). For a reference time in era 0 (all
//    real clocks until 2106) a signature time that is RFC 1982-*older* than
//    the reference but numerically larger by 2^31 or more (i.e. a time
//    before 1970-01-01, e.g. what `Timestamp::from_str("19691231235959")`
//    yields) is kept at `k = 0` and so converted to a time up to 136 years
//    *after* the reference. This contradicts the method's own documented
//    guarantee 2 ("the difference to the reference fits in an i32") and
//    the advertised use ("can be used to sort Timestamp values"). It is
//    deliberate (comment "Try to use k-1 but only if k is not zero", and
//    pinned by the table test `timestamp_to_system_time`), but it is a
//    decision about which signature time is newer that comes out wrong.
//
// 2. `impl From<Timestamp> for UnixTime` (src/dnssec/sign/keys/keyset.rs)
//    takes the 32-bit value as seconds since 1970 without any reference,
//    and `UnixTime` is totally ordered (derives `Ord`). Two signature times
//    on either side of the 2^32 wrap-around, 32 seconds apart, convert to
//    `UnixTime`s in the opposite order, 136 years apart.
//
// The tests assert the RFC 1982 consistent behaviour, so they FAIL on the
// unmodified library.

use core::str::FromStr;
use std::time::{Duration, UNIX_EPOCH};

use domain::rdata::dnssec::Timestamp;

#[test]
fn to_system_time_keeps_rfc1982_order_relative_to_reference() {
    // A present-day reference time.
    let ref_secs = 1_790_000_000u64;
    let reference = UNIX_EPOCH + Duration::from_secs(ref_secs);
    let ref_ts = Timestamp::from(ref_secs as u32);

    // One second before the Unix epoch, as the library's own parser
    // produces it.
    let ts = Timestamp::from_str("19691231235959").unwrap();
    assert_eq!(ts.into_int(), 0xFFFF_FFFF);

    // RFC 1982: the signature time is older than the reference (by
    // 1_790_000_001 s, which is less than 2^31).
    assert!(ts < ref_ts);

    // So the absolute time must not be later than the reference, and
    // must be within 2^31 s of it.
    let abs = ts.to_system_time(reference);
    assert!(
        abs <= reference,
        "older signature time converted to {:?} s after the reference",
        abs.duration_since(reference).map(|d| d.as_secs())
    );
}

#[cfg(feature = "unstable-sign")]
#[test]
fn unix_time_keeps_rfc1982_order() {
    use domain::dnssec::sign::keys::keyset::UnixTime;

    let before_wrap = Timestamp::from(0xFFFF_FFF0);
    let after_wrap = Timestamp::from(0x0000_0010);
    assert!(before_wrap < after_wrap);

    let a = UnixTime::from(before_wrap);
    let b = UnixTime::from(after_wrap);
    assert!(
        a < b,
        "UnixTime order of signature times across the wrap is reversed: \
         {a} vs {b}"
    );
}
