// Pre-existing behaviour of the UNMODIFIED library (property C17).
//
// Place at tests/c17_pre_sign_validity_undefined.rs and run:
//
//   cargo test --offline --features serde,unstable-sign,ring --test c17_pre_sign_validity_undefined
//
// `sign_rrset()` / `sign_sorted_rrset_in()` (src/dnssec/sign/signatures/
// rrsigs.rs) reject a signature validity period whose expiration lies before
// its inception with `if expiration < inception`. For an inception and
// expiration exactly 2^31 seconds apart the RFC 1982 order is undefined,
// `expiration < inception` is false, and the period is accepted -- with
// either of the two as the inception. Expected: `InvalidSignatureValidityPeriod`
// (the in-crate test's own comment says the limit is 2^31 - 1), and in any
// case not "valid" for both (a, b) and (b, a).
//
// The test asserts the expected behaviour, so it FAILS on the unmodified
// library.

use domain::base::iana::Class;
use domain::base::{Name, Record, Ttl};
use domain::crypto::sign::{generate, GenerateParams, KeyPair};
use domain::dnssec::sign::error::SigningError;
use domain::dnssec::sign::keys::SigningKey;
use domain::dnssec::sign::records::Rrset;
use domain::dnssec::sign::signatures::rrsigs::sign_rrset;
use domain::rdata::dnssec::Timestamp;
use domain::rdata::{ZoneRecordData, A};

type N = Name<Vec<u8>>;

fn try_sign(inception: u32, expiration: u32) -> Result<(), SigningError> {
    let (sec_bytes, pub_key) =
        generate(&GenerateParams::Ed25519, 256).unwrap();
    let key_pair = KeyPair::from_bytes(&sec_bytes, &pub_key).unwrap();
    let apex: N = "example.".parse().unwrap();
    let key = SigningKey::new(apex, 256, key_pair);

    let owner: N = "www.example.".parse().unwrap();
    let data: ZoneRecordData<Vec<u8>, N> =
        A::new("192.0.2.1".parse().unwrap()).into();
    let records =
        [Record::new(owner, Class::IN, Ttl::from_secs(3600), data)];
    let rrset = Rrset::new_from_owned(&records).unwrap();

    sign_rrset(
        &key,
        &rrset,
        Timestamp::from(inception),
        Timestamp::from(expiration),
    )
    .map(|_| ())
}

#[test]
fn sanity() {
    assert!(try_sign(5, 10).is_ok());
    assert!(try_sign(0xFFFF_FFF0, 16).is_ok());
    assert!(try_sign(0, 0x7FFF_FFFF).is_ok());
    assert!(matches!(
        try_sign(10, 5),
        Err(SigningError::InvalidSignatureValidityPeriod(_, _))
    ));
    assert!(matches!(
        try_sign(0, 0x8000_0001),
        Err(SigningError::InvalidSignatureValidityPeriod(_, _))
    ));
}

#[test]
fn period_of_exactly_2_pow_31_is_not_a_valid_period() {
    assert_eq!(
        Timestamp::from(0).partial_cmp(&Timestamp::from(0x8000_0000)),
        None
    );
    let forth = try_sign(0, 0x8000_0000).is_ok();
    let back = try_sign(0x8000_0000, 0).is_ok();
    assert!(
        !forth && !back,
        "period 0..2^31 accepted: {forth}, period 2^31..0 accepted: {back}"
    );
}
