// Pre-existing behaviour of the UNMODIFIED library (property C17).
//
// Place at tests/c17_pre_zone_diff_undefined.rs and run:
//
//   cargo test --offline --features unstable-zonetree --test c17_pre_zone_diff_undefined
//
// `InMemoryZoneDiffBuilder::build()` (-> `InMemoryZoneDiff::new`, file
// src/zonetree/types.rs) refuses a diff whose end serial is not newer than
// its start serial with `start == end || end < start`. For two serials that
// are exactly 2^31 apart RFC 1982 leaves the order undefined:
// `end < start` is false (and so is `end > start`), so the check lets the
// pair through and the diff is handed out as a *forward* diff -- in both
// directions (0 -> 2^31 and 2^31 -> 0). Expected: `InvalidSerialRange`,
// because "end is newer than start" cannot be established.
//
// The test asserts the expected behaviour, so it FAILS on the unmodified
// library.

use core::str::FromStr;

use domain::base::{Name, Rtype, Serial, Ttl};
use domain::rdata::{Soa, ZoneRecordData};
use domain::zonetree::types::StoredName;
use domain::zonetree::{InMemoryZoneDiffBuilder, Rrset, SharedRrset};

fn mk_soa_rrset(serial: Serial) -> SharedRrset {
    let mname: StoredName = Name::from_str("mname.example.com").unwrap();
    let rname: StoredName = Name::from_str("rname.example.com").unwrap();
    let ttl = Ttl::from_secs(3600);
    let soa = Soa::new(mname, rname, serial, ttl, ttl, ttl, ttl);
    let mut rrset = Rrset::new(Rtype::SOA, ttl);
    rrset.push_data(ZoneRecordData::Soa(soa));
    SharedRrset::new(rrset)
}

fn build(start: u32, end: u32) -> bool {
    let apex: StoredName = Name::from_str("example.com").unwrap();
    let mut builder = InMemoryZoneDiffBuilder::new();
    builder.remove(apex.clone(), Rtype::SOA, mk_soa_rrset(Serial(start)));
    builder.add(apex, Rtype::SOA, mk_soa_rrset(Serial(end)));
    builder.build().is_ok()
}

#[test]
fn sanity() {
    assert!(build(1, 2));
    assert!(build(0xFFFF_FFFF, 0));
    assert!(build(0, 0x7FFF_FFFF));
    assert!(!build(2, 1));
    assert!(!build(0, 0xFFFF_FFFF));
    assert!(!build(0, 0x8000_0001));
    assert!(!build(5, 5));
}

#[test]
fn serials_with_undefined_order_do_not_make_a_forward_diff() {
    // Neither is newer than the other ...
    assert_eq!(Serial(0).partial_cmp(&Serial(0x8000_0000)), None);
    // ... so neither direction is a valid old -> new diff. At the very
    // least they cannot both be.
    let forth = build(0, 0x8000_0000);
    let back = build(0x8000_0000, 0);
    assert!(
        !forth && !back,
        "diff 0 -> 2^31 accepted: {forth}, diff 2^31 -> 0 accepted: {back}"
    );
}
