// Pre-existing violations of property C10 in the UNMODIFIED library.
//
// Place this file in tests/ of the repository (e.g. tests/c10_preexisting.rs) and run:
//
//   cargo test -j3 --offline --all-features --test c10_preexisting
//
// Every `pre_*` test states the behaviour the property demands and FAILS on the
// unmodified library (observed 2026-09-24 on worktree HEAD 704d82e); the two
// `control_*` tests pass and show that the harness itself is sound.
//
//  P1  pre_axfr_diff_lacks_removals            WriteNode::remove_all() records nothing in the diff
//  P2  pre_stale_diff_add_then_delete          stale "added" entry (InMemoryZoneDiffBuilder / WriteNode::remove_rrset)
//  P3  pre_stale_diff_delete_then_readd        stale "removed" entry (WriteNode::update_rrset)
//  P4  pre_ixfr_first_message_single_soa       XfrZoneUpdateIterator::next(): first message == [SOA] is an error
//  P4b pre_ixfr_fallback_compat_mode_rejected  same, produced by the library's own server (compatibility mode)
//  P5  pre_ixfr_dropped_sequence_accepted      RecordProcessor::process_record(): IXFR may end on a serial it never reached
//  P6  pre_uncommitted_adds_visible_as_nodata  WriteNode::update_child(): nodes of an uncommitted / rolled back transfer are visible
//  P7  pre_ixfr_fallback_soa_only_zone         RecordProcessor::process_record(): (SOA, SOA) answer to IXFR never clears the zone
//  P8  pre_ixfr_wrong_base_accepted            ZoneUpdater::apply(BeginBatchDelete) ignores the old SOA
//  P9  pre_cname_after_axfr_served_differently ZoneUpdater never creates Special::Cname / Special::Cut
//  P10 pre_axfr_with_authority_soa_panics_server  XfrMiddlewareSvc::preprocess() reaches unreachable!()
#![cfg(all(
    feature = "unstable-zonetree",
    feature = "unstable-server-transport",
    feature = "unstable-xfr"
))]
#![allow(dead_code)]

use core::future::{Future, Ready, ready};
use core::pin::Pin;
use core::str::FromStr;
use std::collections::BTreeSet;
use std::sync::{Arc, Mutex};

use bytes::Bytes;
use futures_util::StreamExt;
use futures_util::stream::Once;
use octseq::Octets;
use tokio::time::Instant;

use domain::base::iana::{Class, Rcode};
use domain::base::{
    Message, MessageBuilder, Name, ParsedName, Record, Rtype, Serial, Ttl,
};
use domain::net::server::message::{
    NonUdpTransportContext, Request, TransportSpecificContext,
};
use domain::net::server::middleware::xfr::{
    XfrData, XfrDataProvider, XfrDataProviderError, XfrMiddlewareSvc,
};
use domain::net::server::service::{Service, ServiceResult};
use domain::net::xfr::protocol::XfrResponseInterpreter;
use domain::rdata::{A, Ns, Soa, Txt, ZoneRecordData};
use domain::zonetree::types::ZoneUpdate;
use domain::zonetree::update::ZoneUpdater;
use domain::zonetree::{
    InMemoryZoneDiff, Rrset, SharedRrset, StoredName, Zone, ZoneBuilder,
};

type Rec = Record<StoredName, ZoneRecordData<Bytes, StoredName>>;

fn n(s: &str) -> StoredName {
    Name::from_str(s).unwrap()
}

fn soa_rec(apex: &str, serial: u32) -> Rec {
    let t = Ttl::from_secs(3600);
    Record::new(
        n(apex),
        Class::IN,
        t,
        ZoneRecordData::Soa(Soa::new(
            n("ns.example.com"),
            n("admin.example.com"),
            Serial(serial),
            t,
            t,
            t,
            t,
        )),
    )
}

fn a_rec(owner: &str, addr: &str) -> Rec {
    Record::new(
        n(owner),
        Class::IN,
        Ttl::from_secs(300),
        ZoneRecordData::A(A::from_str(addr).unwrap()),
    )
}

fn ns_rec(owner: &str, target: &str) -> Rec {
    Record::new(
        n(owner),
        Class::IN,
        Ttl::from_secs(300),
        ZoneRecordData::Ns(Ns::new(n(target))),
    )
}

fn txt_rec(owner: &str, len: usize) -> Rec {
    let v = vec![b'x'; len];
    let txt: Txt<Bytes> = Txt::build_from_slice(&v).unwrap();
    Record::new(
        n(owner),
        Class::IN,
        Ttl::from_secs(300),
        ZoneRecordData::Txt(txt),
    )
}

/// Build a zone from records (first must be the SOA).
fn mk_zone(apex: &str, recs: &[Rec]) -> Zone {
    let mut b = ZoneBuilder::new(n(apex), Class::IN);
    let mut groups: Vec<(StoredName, Rrset)> = vec![];
    for r in recs {
        if let Some((_, rrset)) = groups
            .iter_mut()
            .find(|(o, rs)| o == r.owner() && rs.rtype() == r.rtype())
        {
            rrset.push_data(r.data().clone());
        } else {
            let mut rrset = Rrset::new(r.rtype(), r.ttl());
            rrset.push_data(r.data().clone());
            groups.push((r.owner().clone(), rrset));
        }
    }
    for (o, rs) in groups {
        b.insert_rrset(&o, SharedRrset::new(rs)).unwrap();
    }
    b.build()
}

fn dump(zone: &Zone) -> BTreeSet<String> {
    let out = Arc::new(Mutex::new(BTreeSet::new()));
    let out2 = out.clone();
    zone.read().walk(Box::new(move |owner, rrset, _cut| {
        for d in rrset.data() {
            out2.lock().unwrap().insert(format!(
                "{} {} {} {}",
                owner,
                rrset.ttl().as_secs(),
                rrset.rtype(),
                d
            ));
        }
    }));
    let res = out.lock().unwrap().clone();
    res
}

//------------ server side ----------------------------------------------------

#[derive(Clone)]
struct NextSvc;
impl Service<Vec<u8>, ()> for NextSvc {
    type Target = Vec<u8>;
    type Stream = Once<Ready<ServiceResult<Self::Target>>>;
    type Future = Ready<Self::Stream>;
    fn call(&self, _request: Request<Vec<u8>, ()>) -> Self::Future {
        unimplemented!()
    }
}

#[derive(Clone)]
struct Provider {
    zone: Zone,
    diffs: Vec<Arc<InMemoryZoneDiff>>,
    compat: bool,
}

impl XfrDataProvider<()> for Provider {
    type Diff = Arc<InMemoryZoneDiff>;
    fn request<Octs>(
        &self,
        _req: &Request<Octs, ()>,
        diff_from: Option<Serial>,
    ) -> Pin<
        Box<
            dyn Future<
                    Output = Result<
                        XfrData<Self::Diff>,
                        XfrDataProviderError,
                    >,
                > + Sync
                + Send
                + '_,
        >,
    >
    where
        Octs: Octets + Send + Sync,
    {
        let diffs = match diff_from {
            Some(s) => {
                match self.diffs.iter().position(|d| d.start_serial == s) {
                    Some(p) => self.diffs[p..].to_vec(),
                    None => vec![],
                }
            }
            None => vec![],
        };
        Box::pin(ready(Ok(XfrData::new(
            self.zone.clone(),
            diffs,
            self.compat,
        ))))
    }
}

fn mk_req(apex: &str, ixfr_serial: Option<u32>) -> Request<Vec<u8>, ()> {
    let msg = MessageBuilder::new_vec();
    let mut msg = msg.question();
    let qtype = if ixfr_serial.is_some() {
        Rtype::IXFR
    } else {
        Rtype::AXFR
    };
    msg.push((n(apex), qtype)).unwrap();
    let msg = if let Some(s) = ixfr_serial {
        let mut msg = msg.authority();
        let r = soa_rec(apex, s);
        msg.push(r).unwrap();
        msg.into_message()
    } else {
        msg.into_message()
    };
    Request::new(
        "127.0.0.1:12345".parse().unwrap(),
        Instant::now(),
        msg,
        TransportSpecificContext::NonUdp(NonUdpTransportContext::new(None)),
        (),
    )
}

async fn serve(
    provider: Provider,
    req: Request<Vec<u8>, ()>,
) -> Vec<Message<Bytes>> {
    let svc = XfrMiddlewareSvc::<Vec<u8>, NextSvc, (), Provider>::new(
        NextSvc, provider, 2,
    );
    let mut stream = svc.call(req).await;
    let mut out = vec![];
    while let Some(item) = stream.next().await {
        let cr = item.unwrap();
        let (resp, _fb) = cr.into_inner();
        if let Some(resp) = resp {
            let m = resp.as_message();
            out.push(
                Message::from_octets(Bytes::copy_from_slice(m.as_slice()))
                    .unwrap(),
            );
        }
    }
    out
}

//------------ client side ----------------------------------------------------

async fn receive(
    zone: &Zone,
    msgs: Vec<Message<Bytes>>,
) -> Result<Vec<InMemoryZoneDiff>, String> {
    let mut interp = XfrResponseInterpreter::new();
    let mut updater = ZoneUpdater::<ParsedName<Bytes>>::new(zone.clone())
        .await
        .map_err(|e| format!("{e}"))?;
    let mut diffs = vec![];
    for m in msgs {
        let it = interp
            .interpret_response(m)
            .map_err(|e| format!("interp: {e}"))?;
        for u in it {
            let u = u.map_err(|e| format!("iter: {e:?}"))?;
            if let Some(d) =
                updater.apply(u).await.map_err(|e| format!("upd: {e}"))?
            {
                diffs.push(d);
            }
        }
    }
    if !interp.is_finished() {
        return Err("not finished".into());
    }
    Ok(diffs)
}

async fn apply_all(zone: &Zone, ups: Vec<ZoneUpdate<Rec>>) -> Vec<InMemoryZoneDiff> {
    let mut updater = ZoneUpdater::<StoredName>::new(zone.clone()).await.unwrap();
    let mut diffs = vec![];
    for u in ups {
        if let Some(d) = updater.apply(u).await.unwrap() {
            diffs.push(d);
        }
    }
    diffs
}

fn diff_dump(d: &InMemoryZoneDiff) -> (BTreeSet<String>, BTreeSet<String>) {
    let f = |m: &std::collections::HashMap<(StoredName, Rtype), SharedRrset>| {
        let mut s = BTreeSet::new();
        for ((o, _), rs) in m.iter() {
            for d in rs.data() {
                s.insert(format!("{} {} {} {}", o, rs.ttl().as_secs(), rs.rtype(), d));
            }
        }
        s
    };
    (f(&d.removed), f(&d.added))
}

//------------ tests ----------------------------------------------------------

#[tokio::test(flavor = "multi_thread")]
async fn control_axfr_roundtrip() {
    let apex = "example.com";
    let mut recs = vec![soa_rec(apex, 5), ns_rec(apex, "ns.example.com")];
    for i in 0..500 {
        recs.push(txt_rec(&format!("h{i}.sub.example.com"), 400));
    }
    let sender = mk_zone(apex, &recs);
    let receiver = mk_zone(apex, &[soa_rec(apex, 1), a_rec("old.example.com", "1.1.1.1")]);
    let msgs = serve(
        Provider { zone: sender.clone(), diffs: vec![], compat: false },
        mk_req(apex, None),
    )
    .await;
    eprintln!("messages: {}", msgs.len());
    receive(&receiver, msgs).await.unwrap();
    assert_eq!(dump(&sender), dump(&receiver));
}

// P1: diff reported for an AXFR-style replacement lacks removals.
#[tokio::test(flavor = "multi_thread")]
async fn pre_axfr_diff_lacks_removals() {
    let apex = "example.com";
    let old = vec![soa_rec(apex, 1), a_rec("gone.example.com", "1.1.1.1"), a_rec("stay.example.com", "2.2.2.2")];
    let new = vec![soa_rec(apex, 2), a_rec("stay.example.com", "2.2.2.2"), a_rec("new.example.com", "3.3.3.3")];
    let sender = mk_zone(apex, &new);
    let receiver = mk_zone(apex, &old);
    let before = dump(&receiver);
    let msgs = serve(Provider { zone: sender.clone(), diffs: vec![], compat: false }, mk_req(apex, None)).await;
    let diffs = receive(&receiver, msgs).await.unwrap();
    assert_eq!(dump(&sender), dump(&receiver));
    assert_eq!(diffs.len(), 1);
    let (rem, add) = diff_dump(&diffs[0]);
    eprintln!("removed: {rem:#?}\nadded: {add:#?}");
    let mut applied = before.clone();
    for r in &rem { applied.remove(r); }
    for a in &add { applied.insert(a.clone()); }
    assert_eq!(applied, dump(&receiver), "diff applied to old != new");
}

// P2: add then delete within one commit leaves a stale "added" entry.
#[tokio::test(flavor = "multi_thread")]
async fn pre_stale_diff_add_then_delete() {
    let apex = "example.com";
    let zone = mk_zone(apex, &[soa_rec(apex, 1), a_rec("a.example.com", "1.1.1.1")]);
    let before = dump(&zone);
    let diffs = apply_all(&zone, vec![
        ZoneUpdate::AddRecord(a_rec("tmp.example.com", "9.9.9.9")),
        ZoneUpdate::DeleteRecord(a_rec("tmp.example.com", "9.9.9.9")),
        ZoneUpdate::Finished(soa_rec(apex, 2)),
    ]).await;
    let (rem, add) = diff_dump(&diffs[0]);
    eprintln!("removed: {rem:#?}\nadded: {add:#?}");
    let mut applied = before.clone();
    for r in &rem { applied.remove(r); }
    for a in &add { applied.insert(a.clone()); }
    assert_eq!(applied, dump(&zone), "diff applied to old != new");
}

// P3: delete then re-add of one record of a 2-record RRset leaves stale removed entry.
#[tokio::test(flavor = "multi_thread")]
async fn pre_stale_diff_delete_then_readd() {
    let apex = "example.com";
    let zone = mk_zone(apex, &[soa_rec(apex, 1), a_rec("a.example.com", "1.1.1.1"), a_rec("a.example.com", "2.2.2.2")]);
    let before = dump(&zone);
    let diffs = apply_all(&zone, vec![
        ZoneUpdate::DeleteRecord(a_rec("a.example.com", "2.2.2.2")),
        ZoneUpdate::AddRecord(a_rec("a.example.com", "2.2.2.2")),
        ZoneUpdate::Finished(soa_rec(apex, 2)),
    ]).await;
    let (rem, add) = diff_dump(&diffs[0]);
    eprintln!("removed: {rem:#?}\nadded: {add:#?}");
    let mut applied = before.clone();
    for r in &rem { applied.remove(r); }
    for a in &add { applied.insert(a.clone()); }
    assert_eq!(applied, dump(&zone), "diff applied to old != new");
}

fn mk_resp(apex: &str, qtype: Rtype, recs: &[Rec]) -> Message<Bytes> {
    let req = {
        let mut q = MessageBuilder::new_vec().question();
        q.push((n(apex), qtype)).unwrap();
        q.into_message()
    };
    let mut b = MessageBuilder::new_bytes().start_answer(&req, Rcode::NOERROR).unwrap();
    b.header_mut().set_aa(true);
    for r in recs {
        b.push(r.clone()).unwrap();
    }
    b.into_message()
}

// P4: IXFR (or IXFR->AXFR fallback) whose first message holds only the SOA.
#[tokio::test(flavor = "multi_thread")]
async fn pre_ixfr_first_message_single_soa() {
    let apex = "example.com";
    let old = vec![soa_rec(apex, 1), a_rec("a.example.com", "1.1.1.1")];
    let receiver = mk_zone(apex, &old);
    // legal split of an IXFR: [SOA2] [SOA1, a A 1.1.1.1, SOA2, b A 2.2.2.2, SOA2]
    let m1 = mk_resp(apex, Rtype::IXFR, &[soa_rec(apex, 2)]);
    let m2 = mk_resp(apex, Rtype::IXFR, &[soa_rec(apex, 1), a_rec("a.example.com", "1.1.1.1"), soa_rec(apex, 2), a_rec("b.example.com", "2.2.2.2"), soa_rec(apex, 2)]);
    let res = receive(&receiver, vec![m1, m2]).await;
    eprintln!("{res:?}");
    res.unwrap();
}

// P5: IXFR stream with a dropped diff sequence is accepted.
#[tokio::test(flavor = "multi_thread")]
async fn pre_ixfr_dropped_sequence_accepted() {
    let apex = "example.com";
    let old = vec![soa_rec(apex, 1), a_rec("a.example.com", "1.1.1.1")];
    let receiver = mk_zone(apex, &old);
    // Full stream: [SOA3, SOA1, -a, SOA2, +b] [SOA2, -b, SOA3, +c] [SOA3]
    let m1 = mk_resp(apex, Rtype::IXFR, &[soa_rec(apex, 3), soa_rec(apex, 1), a_rec("a.example.com", "1.1.1.1"), soa_rec(apex, 2), a_rec("b.example.com", "2.2.2.2")]);
    let _m2 = mk_resp(apex, Rtype::IXFR, &[soa_rec(apex, 2), a_rec("b.example.com", "2.2.2.2"), soa_rec(apex, 3), a_rec("c.example.com", "3.3.3.3")]);
    let m3 = mk_resp(apex, Rtype::IXFR, &[soa_rec(apex, 3)]);
    let res = receive(&receiver, vec![m1, m3]).await;
    eprintln!("{res:?} -> {:#?}", dump(&receiver));
    assert!(res.is_err(), "stream with dropped message was accepted; zone now {:#?}", dump(&receiver));
}

// P7: IXFR->AXFR fallback for a zone that holds only the SOA.
#[tokio::test(flavor = "multi_thread")]
async fn pre_ixfr_fallback_soa_only_zone() {
    let apex = "example.com";
    let sender = mk_zone(apex, &[soa_rec(apex, 2)]);
    let receiver = mk_zone(apex, &[soa_rec(apex, 1), a_rec("a.example.com", "1.1.1.1")]);
    let msgs = serve(Provider { zone: sender.clone(), diffs: vec![], compat: false }, mk_req(apex, Some(1))).await;
    let res = receive(&receiver, msgs).await;
    eprintln!("{res:?}");
    assert_eq!(dump(&sender), dump(&receiver));
}

// P4b: the library's own server in compatibility mode (one RR per message)
// answering an IXFR by AXFR fallback is rejected by the library's interpreter.
#[tokio::test(flavor = "multi_thread")]
async fn pre_ixfr_fallback_compat_mode_rejected() {
    let apex = "example.com";
    let sender = mk_zone(apex, &[soa_rec(apex, 2), ns_rec(apex, "ns.example.com"), a_rec("a.example.com", "1.1.1.1")]);
    let receiver = mk_zone(apex, &[soa_rec(apex, 1), ns_rec(apex, "ns.example.com")]);
    let msgs = serve(Provider { zone: sender.clone(), diffs: vec![], compat: true }, mk_req(apex, Some(1))).await;
    eprintln!("{} messages", msgs.len());
    let res = receive(&receiver, msgs).await;
    eprintln!("{res:?}");
    res.unwrap();
    assert_eq!(dump(&sender), dump(&receiver));
}

// P8: IXFR whose first difference sequence starts from another serial than the
// zone's current one is applied without complaint.
#[tokio::test(flavor = "multi_thread")]
async fn pre_ixfr_wrong_base_accepted() {
    let apex = "example.com";
    let receiver = mk_zone(apex, &[soa_rec(apex, 3), a_rec("a.example.com", "1.1.1.1")]);
    let before = dump(&receiver);
    let m = mk_resp(apex, Rtype::IXFR, &[soa_rec(apex, 6), soa_rec(apex, 5), a_rec("zzz.example.com", "9.9.9.9"), soa_rec(apex, 6), a_rec("b.example.com", "2.2.2.2"), soa_rec(apex, 6)]);
    let res = receive(&receiver, vec![m]).await;
    eprintln!("{res:?} {:#?}", dump(&receiver));
    assert!(res.is_err(), "IXFR 5->6 applied to a zone at serial 3");
    assert_eq!(before, dump(&receiver));
}

// P9: CNAME transferred by AXFR is not served as a CNAME by the receiver.
#[tokio::test(flavor = "multi_thread")]
async fn pre_cname_after_axfr_served_differently() {
    use domain::rdata::Cname;
    use domain::zonetree::SharedRr;
    let apex = "example.com";
    let mut b = ZoneBuilder::new(n(apex), Class::IN);
    for r in [soa_rec(apex, 2), ns_rec(apex, "ns.example.com"), a_rec("target.example.com", "1.1.1.1")] {
        let mut rrset = Rrset::new(r.rtype(), r.ttl());
        rrset.push_data(r.data().clone());
        b.insert_rrset(r.owner(), SharedRrset::new(rrset)).unwrap();
    }
    b.insert_cname(&n("www.example.com"), SharedRr::new(Ttl::from_secs(300), ZoneRecordData::Cname(Cname::new(n("target.example.com"))))).unwrap();
    let sender = b.build();
    let receiver = mk_zone(apex, &[soa_rec(apex, 1)]);
    let msgs = serve(Provider { zone: sender.clone(), diffs: vec![], compat: false }, mk_req(apex, None)).await;
    receive(&receiver, msgs).await.unwrap();
    assert_eq!(dump(&sender), dump(&receiver));
    let q = |z: &Zone| {
        let a = z.read().query(n("www.example.com"), Rtype::A).unwrap();
        format!("{:?} {:?}", a.rcode(), a.content().first().map(|(t, d)| format!("{} {}", t.as_secs(), d)))
    };
    eprintln!("sender: {}\nreceiver: {}", q(&sender), q(&receiver));
    assert_eq!(q(&sender), q(&receiver));
}

// P6: names being added by an uncommitted transfer, and names of a transfer
// that was rolled back, exist as empty nodes for readers: NXDOMAIN turns into
// NOERROR/NODATA (and such a node would also shadow a wildcard).
#[tokio::test(flavor = "multi_thread")]
async fn pre_uncommitted_adds_visible_as_nodata() {
    let apex = "example.com";
    let zone = mk_zone(apex, &[soa_rec(apex, 1), a_rec("a.example.com", "1.1.1.1")]);
    let q = |z: &Zone| z.read().query(n("new.example.com"), Rtype::A).unwrap().rcode();
    let before = q(&zone);
    let mut updater = ZoneUpdater::<StoredName>::new(zone.clone()).await.unwrap();
    updater.apply(ZoneUpdate::AddRecord(a_rec("new.example.com", "5.5.5.5"))).await.unwrap();
    let during = q(&zone);
    drop(updater);
    let after = q(&zone);
    eprintln!("before {before:?} during {during:?} after {after:?}");
    assert_eq!(before, during);
    assert_eq!(before, after);
}

// P10: AXFR query that carries a SOA in its authority section, while the data
// provider has diffs from that serial: the server hits `unreachable!()`.
#[tokio::test(flavor = "multi_thread")]
async fn pre_axfr_with_authority_soa_panics_server() {
    let apex = "example.com";
    let zone = mk_zone(apex, &[soa_rec(apex, 1), ns_rec(apex, "ns.example.com"), a_rec("a.example.com", "1.1.1.1")]);
    let diffs = apply_all(&zone, vec![
        ZoneUpdate::AddRecord(a_rec("b.example.com", "2.2.2.2")),
        ZoneUpdate::Finished(soa_rec(apex, 2)),
    ]).await;
    assert_eq!(diffs.len(), 1);
    let provider = Provider { zone: zone.clone(), diffs: diffs.into_iter().map(Arc::new).collect(), compat: false };

    // AXFR question + SOA(serial 1) in the authority section.
    let mut msg = MessageBuilder::new_vec().question();
    msg.push((n(apex), Rtype::AXFR)).unwrap();
    let mut msg = msg.authority();
    msg.push(soa_rec(apex, 1)).unwrap();
    let req = Request::new(
        "127.0.0.1:12345".parse().unwrap(),
        Instant::now(),
        msg.into_message(),
        TransportSpecificContext::NonUdp(NonUdpTransportContext::new(None)),
        (),
    );
    let handle = tokio::spawn(async move { serve(provider, req).await });
    let res = handle.await;
    match res {
        Ok(msgs) => eprintln!("{} messages, rcode {:?}", msgs.len(), msgs.first().map(|m| m.header().rcode())),
        Err(e) => panic!("server task panicked: {e}"),
    }
}

#[tokio::test(flavor = "multi_thread")]
async fn control_multi_step_ixfr_roundtrip() {
    let apex = "example.com";
    let mut old = vec![soa_rec(apex, 1), ns_rec(apex, "ns.example.com"), a_rec("ns.example.com", "192.0.2.53")];
    for i in 0..300 {
        old.push(txt_rec(&format!("h{i}.example.com"), 400));
        old.push(a_rec(&format!("h{i}.example.com"), "10.0.0.1"));
        old.push(a_rec(&format!("h{i}.example.com"), "10.0.0.2"));
    }
    let primary = mk_zone(apex, &old);
    let secondary = mk_zone(apex, &old);
    let mut diffs = vec![];
    // step 1: remove all h(even) TXT, add deep names, change apex NS
    let mut ups = vec![];
    for i in (0..300).step_by(2) {
        ups.push(ZoneUpdate::DeleteRecord(txt_rec(&format!("h{i}.example.com"), 400)));
        ups.push(ZoneUpdate::DeleteRecord(a_rec(&format!("h{i}.example.com"), "10.0.0.2")));
        ups.push(ZoneUpdate::AddRecord(a_rec(&format!("x.y.h{i}.example.com"), "10.0.0.3")));
    }
    ups.push(ZoneUpdate::AddRecord(ns_rec(apex, "ns2.example.com")));
    ups.push(ZoneUpdate::Finished(soa_rec(apex, 2)));
    diffs.extend(apply_all(&primary, ups).await);
    // step 2
    let mut ups = vec![];
    for i in (0..300).step_by(3) {
        ups.push(ZoneUpdate::DeleteRecord(a_rec(&format!("h{i}.example.com"), "10.0.0.1")));
        ups.push(ZoneUpdate::AddRecord(txt_rec(&format!("*.h{i}.example.com"), 300)));
    }
    ups.push(ZoneUpdate::DeleteRecord(ns_rec(apex, "ns.example.com")));
    ups.push(ZoneUpdate::Finished(soa_rec(apex, 3)));
    diffs.extend(apply_all(&primary, ups).await);
    assert_eq!(diffs.len(), 2);
    let provider = Provider { zone: primary.clone(), diffs: diffs.into_iter().map(Arc::new).collect(), compat: false };
    let msgs = serve(provider, mk_req(apex, Some(1))).await;
    eprintln!("{} msgs", msgs.len());
    receive(&secondary, msgs).await.unwrap();
    let want = dump(&primary);
    let got = dump(&secondary);
    let missing: Vec<_> = want.difference(&got).take(5).collect();
    let extra: Vec<_> = got.difference(&want).take(5).collect();
    assert!(want == got, "missing {missing:?} extra {extra:?}");
}
