// Pre-existing violation candidate (UNMODIFIED library).
// ZoneRecordData::canonical_cmp falls through to comparing record types
// only when the two values are of different variants. The Unknown variant
// can carry the record type of a typed variant, so two record data with
// different canonical wire forms compare canonical-Equal.
//
// Place as tests/pre_zonerecorddata_canonical_cmp.rs and run:
//   cargo test --offline --test pre_zonerecorddata_canonical_cmp
// Expected by the property: passes. Observed on the unmodified tree: FAILS.

use domain::base::cmp::CanonicalOrd;
use domain::base::iana::Rtype;
use domain::base::name::Name;
use domain::base::rdata::{ComposeRecordData, UnknownRecordData};
use domain::rdata::{ZoneRecordData, A};

type Data = ZoneRecordData<Vec<u8>, Name<Vec<u8>>>;

fn canonical(d: &Data) -> Vec<u8> {
    let mut buf = Vec::new();
    d.compose_canonical_rdata(&mut buf).unwrap();
    buf
}

#[test]
fn canonical_cmp_is_wire_order_across_variants() {
    let typed: Data = ZoneRecordData::A(A::from_octets(192, 0, 2, 9));
    let unknown: Data = ZoneRecordData::Unknown(
        UnknownRecordData::from_octets(Rtype::A, vec![192, 0, 2, 1]).unwrap(),
    );
    assert_eq!(
        typed.canonical_cmp(&unknown),
        canonical(&typed).cmp(&canonical(&unknown))
    );
}
