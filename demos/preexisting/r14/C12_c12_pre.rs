// Candidate pre-existing violations of C12 in the UNMODIFIED library.
//
// Place as tests/c12_pre.rs and run from the repository root:
//   cargo test --offline --features ring,unstable-sign,unstable-validator --test c12_pre
//
// Each test asserts the behaviour the property demands; a FAILING test is a
// confirmed pre-existing violation.

#![cfg(all(feature = "ring", feature = "unstable-sign", feature = "unstable-validator"))]

use bytes::Bytes;
use domain::base::iana::{Class, Rtype};
use domain::base::rdata::UnknownRecordData;
use domain::base::{Name, Record, Ttl};
use domain::crypto::ring::sign::KeyPair;
use domain::crypto::sign::SecretKeyBytes;
use domain::dnssec::common::parse_from_bind;
use domain::dnssec::sign::keys::signingkey::SigningKey;
use domain::dnssec::sign::records::{Rrset, SortedRecords};
use domain::dnssec::sign::signatures::rrsigs::{
    sign_rrset, sign_sorted_zone_records, GenerateRrsigConfig,
};
use domain::dnssec::validator::base::RrsigExt;
use domain::rdata::dnssec::Timestamp;
use domain::rdata::{Dnskey, ZoneRecordData, A};

type N = Name<Bytes>;
type Zrd = ZoneRecordData<Bytes, N>;

fn load() -> SigningKey<Bytes, KeyPair> {
    let name = "test.+015+56037";
    let data = std::fs::read_to_string(format!(
        "test-data/dnssec-keys/K{}.private",
        name
    ))
    .unwrap();
    let secret = SecretKeyBytes::parse_from_bind(&data).unwrap();
    let data = std::fs::read_to_string(format!(
        "test-data/dnssec-keys/K{}.key",
        name
    ))
    .unwrap();
    let public = parse_from_bind::<Bytes>(&data).unwrap();
    let pair = KeyPair::from_bytes(&secret, public.data()).unwrap();
    SigningKey::new(public.owner().clone(), public.data().flags(), pair)
}

fn a(owner: &N, last: u8) -> Record<N, Zrd> {
    Record::new(
        owner.clone(),
        Class::IN,
        Ttl::from_secs(3600),
        ZoneRecordData::A(A::new([192, 0, 2, last].into())),
    )
}

/// SortedRecords::update_data says "data is not part of the sort key", but
/// Record::canonical_cmp does compare the data. After update_data the RRset
/// is stored (and signed by sign_sorted_zone_records) out of canonical order.
#[test]
fn zone_signature_verifies_after_update_data() {
    let key = load();
    let apex: N = "test.".parse().unwrap();
    let owner: N = "www.test.".parse().unwrap();
    let mut records: SortedRecords<N, Zrd> = SortedRecords::new();
    records.insert(a(&owner, 1)).unwrap();
    records.insert(a(&owner, 2)).unwrap();
    // 192.0.2.1 becomes 192.0.2.9: it now sorts after 192.0.2.2.
    records.update_data(
        |rr| matches!(rr.data(), ZoneRecordData::A(x) if x.addr().octets()[3] == 1),
        ZoneRecordData::A(A::new([192, 0, 2, 9].into())),
    );
    let config = GenerateRrsigConfig::new(
        Timestamp::from(1_700_000_000),
        Timestamp::from(1_700_086_400),
    );
    let rrsigs = sign_sorted_zone_records(
        &apex,
        records.owner_rrs(),
        &[&key],
        &config,
    )
    .unwrap();
    assert_eq!(rrsigs.len(), 1);
    let rrsig = rrsigs[0].data();
    let mut recs: Vec<Record<N, Zrd>> = records.iter().cloned().collect();
    let mut buf = Vec::new();
    rrsig.signed_data(&mut buf, recs.as_mut_slice()).unwrap();
    assert!(
        rrsig.verify_signed_data(&key.dnskey(), &buf).is_ok(),
        "RRSIG made by sign_sorted_zone_records does not verify"
    );
}

/// A and Unknown(TYPE1) variants of ZoneRecordData in one RRset compare as
/// Equal in canonical_cmp: neither signer nor verifier sorts them, so the
/// signature only verifies in the order the signer happened to see.
#[test]
fn mixed_known_unknown_variant_rrset_verifies_after_reordering() {
    let key = load();
    let owner: N = "www.test.".parse().unwrap();
    let unk: Record<N, Zrd> = Record::new(
        owner.clone(),
        Class::IN,
        Ttl::from_secs(3600),
        ZoneRecordData::Unknown(
            UnknownRecordData::from_octets(
                Rtype::A,
                Bytes::from_static(&[192, 0, 2, 1]),
            )
            .unwrap(),
        ),
    );
    let records = vec![a(&owner, 2), unk];
    let rrset = Rrset::new_from_owned(&records).unwrap();
    let rrsig = sign_rrset(
        &key,
        &rrset,
        Timestamp::from(1_700_000_000),
        Timestamp::from(1_700_086_400),
    )
    .unwrap();
    let mut ok = Vec::new();
    for rev in [false, true] {
        let mut recs = records.clone();
        if rev {
            recs.reverse();
        }
        let mut buf = Vec::new();
        rrsig.data().signed_data(&mut buf, recs.as_mut_slice()).unwrap();
        ok.push(rrsig.data().verify_signed_data(&key.dnskey(), &buf).is_ok());
    }
    assert_eq!(ok, [true, true], "[as signed, reversed]");
}

/// Altering the key (clearing the Zone Key flag, changing the protocol) must
/// make verification fail (RFC 4034 2.1.1/2.1.2, RFC 4035 5.3.1).
#[test]
fn altered_key_flags_fail_verification() {
    let key = load();
    let owner: N = "www.test.".parse().unwrap();
    let records = vec![a(&owner, 1)];
    let rrset = Rrset::new_from_owned(&records).unwrap();
    let rrsig = sign_rrset(
        &key,
        &rrset,
        Timestamp::from(1_700_000_000),
        Timestamp::from(1_700_086_400),
    )
    .unwrap();
    let mut recs = records.clone();
    let mut buf = Vec::new();
    rrsig.data().signed_data(&mut buf, recs.as_mut_slice()).unwrap();
    let good = key.dnskey();
    assert!(rrsig.data().verify_signed_data(&good, &buf).is_ok());
    let no_zone = Dnskey::new(
        0,
        good.protocol(),
        good.algorithm(),
        good.public_key().clone(),
    )
    .unwrap();
    let bad_proto =
        Dnskey::new(good.flags(), 2, good.algorithm(), good.public_key().clone())
            .unwrap();
    assert_ne!(no_zone.key_tag(), rrsig.data().key_tag());
    assert!(
        rrsig.data().verify_signed_data(&no_zone, &buf).is_err(),
        "key with Zone Key flag cleared (and other key tag) still verifies"
    );
    assert!(
        rrsig.data().verify_signed_data(&bad_proto, &buf).is_err(),
        "key with protocol 2 still verifies"
    );
}
