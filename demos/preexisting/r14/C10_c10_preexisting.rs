// Pre-existing violations of property C10 in the UNMODIFIED library.
// Each test states the expected behaviour and FAILS on the unmodified code.
//
// Place as tests/c10_preexisting.rs and run with:
//   cargo test --offline --all-features --test c10_preexisting

use core::str::FromStr;
use std::collections::BTreeSet;
use std::sync::{Arc, Mutex};

use bytes::Bytes;
use domain::base::iana::Class;
use domain::base::net::Ipv4Addr;
use domain::base::{Name, ParsedName, Record, Serial, Ttl};
use domain::rdata::{A, Soa, ZoneRecordData};
use domain::zonetree::types::ZoneUpdate;
use domain::zonetree::update::ZoneUpdater;
use domain::zonetree::{InMemoryZoneDiff, Zone, ZoneBuilder};

type Rec = Record<
    ParsedName<Bytes>,
    ZoneRecordData<Bytes, ParsedName<Bytes>>,
>;

fn pname(s: &str) -> ParsedName<Bytes> {
    ParsedName::from(Name::<Bytes>::from_str(s).unwrap())
}

fn soa(serial: u32) -> Rec {
    let ttl = Ttl::from_secs(60);
    Record::new(
        pname("example.com"),
        Class::IN,
        ttl,
        ZoneRecordData::Soa(Soa::new(
            pname("mname.example.com"),
            pname("rname.example.com"),
            Serial(serial),
            ttl,
            ttl,
            ttl,
            ttl,
        )),
    )
}

fn a(owner: &str, addr: [u8; 4]) -> Rec {
    a_ttl(owner, addr, 60)
}

fn a_ttl(owner: &str, addr: [u8; 4], ttl: u32) -> Rec {
    Record::new(
        pname(owner),
        Class::IN,
        Ttl::from_secs(ttl),
        ZoneRecordData::A(A::new(Ipv4Addr::from(addr))),
    )
}

fn zone_content(zone: &Zone) -> BTreeSet<String> {
    let out = Arc::new(Mutex::new(BTreeSet::new()));
    let out2 = out.clone();
    zone.read().walk(Box::new(move |owner, rrset, _| {
        for rr in rrset.data() {
            out2.lock()
                .unwrap()
                .insert(format!("{owner} {} {} {rr}", rrset.ttl().as_secs(), rrset.rtype()));
        }
    }));
    let res = out.lock().unwrap().clone();
    res
}

fn apply_diff(
    old: &BTreeSet<String>,
    diff: &InMemoryZoneDiff,
) -> BTreeSet<String> {
    let mut res = old.clone();
    for ((owner, rtype), rrset) in diff.removed.iter() {
        for rr in rrset.data() {
            res.remove(&format!("{owner} {} {rtype} {rr}", rrset.ttl().as_secs()));
        }
    }
    for ((owner, rtype), rrset) in diff.added.iter() {
        for rr in rrset.data() {
            res.insert(format!("{owner} {} {rtype} {rr}", rrset.ttl().as_secs()));
        }
    }
    res
}

async fn initial_zone() -> Zone {
    let zone =
        ZoneBuilder::new(Name::from_str("example.com").unwrap(), Class::IN)
            .build();
    let mut up = ZoneUpdater::new(zone.clone()).await.unwrap();
    up.apply(ZoneUpdate::DeleteAllRecords).await.unwrap();
    up.apply(ZoneUpdate::AddRecord(a("www.example.com", [192, 0, 2, 1])))
        .await
        .unwrap();
    up.apply(ZoneUpdate::AddRecord(a("www.example.com", [192, 0, 2, 2])))
        .await
        .unwrap();
    up.apply(ZoneUpdate::AddRecord(a("ftp.example.com", [192, 0, 2, 9])))
        .await
        .unwrap();
    up.apply(ZoneUpdate::Finished(soa(1))).await.unwrap();
    zone
}


// P1: WriteNode::update_rrset: an RRset whose TTL changes (same data) gets no
// "added" entry in the commit diff; via ZoneUpdater (IXFR: delete the RR with
// the old TTL, add it with the new TTL) the diff even says the RRset was
// removed.
#[tokio::test]
async fn p1_diff_of_ttl_change() {
    let zone = initial_zone().await;
    let old = zone_content(&zone);

    let mut up = ZoneUpdater::new(zone.clone()).await.unwrap();
    up.apply(ZoneUpdate::BeginBatchDelete(soa(1))).await.unwrap();
    up.apply(ZoneUpdate::DeleteRecord(a("ftp.example.com", [192, 0, 2, 9])))
        .await
        .unwrap();
    up.apply(ZoneUpdate::BeginBatchAdd(soa(2))).await.unwrap();
    up.apply(ZoneUpdate::AddRecord(a_ttl(
        "ftp.example.com",
        [192, 0, 2, 9],
        300,
    )))
    .await
    .unwrap();
    let diff = up
        .apply(ZoneUpdate::Finished(soa(2)))
        .await
        .unwrap()
        .expect("a diff");

    let new = zone_content(&zone);
    assert!(new.contains("ftp.example.com 300 A 192.0.2.9"));
    assert_eq!(apply_diff(&old, &diff), new);
}

// P2: a full replacement (AXFR: DeleteAllRecords, adds, Finished) reports a
// diff that does not mention the records which only the old version had.
#[tokio::test]
async fn p2_diff_of_full_replacement() {
    let zone = initial_zone().await;
    let old = zone_content(&zone);

    let mut up = ZoneUpdater::new(zone.clone()).await.unwrap();
    up.apply(ZoneUpdate::DeleteAllRecords).await.unwrap();
    up.apply(ZoneUpdate::AddRecord(a("www.example.com", [192, 0, 2, 1])))
        .await
        .unwrap();
    let diff = up.apply(ZoneUpdate::Finished(soa(2))).await.unwrap();

    let new = zone_content(&zone);
    assert!(!new.contains("ftp.example.com 60 A 192.0.2.9"));
    // Either no diff is reported or the diff is right.
    if let Some(diff) = diff {
        assert_eq!(apply_diff(&old, &diff), new);
    }
}

// P3: an incremental transfer whose first difference sequence starts from a
// serial that is not the serial of the zone it is applied to (mismatched SOA
// framing) is applied and committed without an error.
#[tokio::test]
async fn p3_ixfr_from_wrong_serial_is_rejected() {
    let zone = initial_zone().await; // serial 1
    let old = zone_content(&zone);

    let mut up = ZoneUpdater::new(zone.clone()).await.unwrap();
    let mut failed = false;
    for update in [
        ZoneUpdate::BeginBatchDelete(soa(5)),
        ZoneUpdate::DeleteRecord(a("ftp.example.com", [192, 0, 2, 9])),
        ZoneUpdate::BeginBatchAdd(soa(6)),
        ZoneUpdate::Finished(soa(6)),
    ] {
        if up.apply(update).await.is_err() {
            failed = true;
            break;
        }
    }
    drop(up);
    assert!(failed, "diff 5->6 applied to a zone at serial 1");
    assert_eq!(zone_content(&zone), old);
}
