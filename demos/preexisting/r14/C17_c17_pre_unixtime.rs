// Pre-existing (unmodified library): `impl From<Timestamp> for UnixTime`
// (src/dnssec/sign/keys/keyset.rs) maps the 32-bit signature time linearly
// onto era 0, so the derived `Ord` of UnixTime disagrees with the RFC 1982
// order of the Timestamps it was made from once they straddle the 2^32 wrap.
//
// Place as tests/c17_pre_unixtime.rs and run:
//   cargo test --offline --features unstable-sign,unstable-zonetree,ring --test c17_pre_unixtime
// Observed on the unmodified library: FAILS.

use domain::dnssec::sign::keys::keyset::UnixTime;
use domain::rdata::dnssec::Timestamp;

#[test]
fn conversion_preserves_which_time_is_newer() {
    let before_wrap = Timestamp::from(u32::MAX - 5);
    let after_wrap = Timestamp::from(5); // 11 s later in RFC 1982 order
    assert!(after_wrap > before_wrap);
    let (a, b) = (UnixTime::from(after_wrap), UnixTime::from(before_wrap));
    assert!(a > b, "expected {a} to be newer than {b}");
}
