// Run: cargo test --offline --test c05_pre_zonemd   (default features)
// Pre-existing: Zonemd::new accepts a digest shorter than 12 octets, compose
// writes it, Zonemd::parse rejects it (value does not survive compose/parse).
use domain::base::iana::{ZonemdAlgorithm, ZonemdScheme};
use domain::base::rdata::ComposeRecordData;
use domain::base::Serial;
use domain::rdata::Zonemd;
use octseq::parse::Parser;

#[test]
fn zonemd_short_digest_round_trip() {
    let rdata = Zonemd::new(
        Serial::from(2024u32),
        ZonemdScheme::SIMPLE,
        ZonemdAlgorithm::SHA384,
        vec![0xABu8; 4],
    );
    let mut wire = Vec::new();
    rdata.compose_rdata(&mut wire).unwrap();
    assert_eq!(usize::from(rdata.rdlen(false).unwrap()), wire.len());
    let mut parser = Parser::from_ref(wire.as_slice());
    let parsed = Zonemd::parse(&mut parser).expect("composed ZONEMD must parse");
    assert_eq!(parsed, rdata);
}
