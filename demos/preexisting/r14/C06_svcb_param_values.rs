// Pre-existing violations of C06 in the UNMODIFIED library (SVCB/HTTPS
// service parameters with octets that are special in presentation format).
//
// Place as tests/c06_pre.rs and run:
//   cargo test --offline -j3 --features zonefile --test c06_pre
// Each test FAILS on the unmodified library.
use bytes::Bytes;
use domain::base::iana::Class;
use domain::base::name::ToName;
use domain::base::zonefile_fmt::{DisplayKind, ZonefileFmt};
use domain::base::{Name, Record, Ttl};
use domain::rdata::ZoneRecordData;
use domain::zonefile::inplace::{Entry, Zonefile};
use std::str::FromStr;

type Data = ZoneRecordData<Bytes, Name<Bytes>>;

fn name(s: &str) -> Name<Bytes> {
    Name::<Bytes>::from_str(s).unwrap()
}

/// Writes `rec` in the given display kind, reads the text back with the
/// zone-file reader (with and without an origin) and checks equality.
fn roundtrip(rec: &Record<Name<Bytes>, Data>) {
    for (kind, kname) in [
        (DisplayKind::Simple, "simple"),
        (DisplayKind::Tabbed, "tabbed"),
        (DisplayKind::Multiline, "multiline"),
    ] {
        let mut text = rec.display_zonefile(kind).to_string();
        text.push('\n');
        for origin in [None, Some(name("origin.test."))] {
            let mut zone = Zonefile::from(text.as_str());
            if let Some(origin) = origin {
                zone.set_origin(origin);
            }
            let entry = zone.next_entry().unwrap_or_else(|err| {
                panic!("{kname}: reading {text:?} failed: {err}")
            });
            let read = match entry {
                Some(Entry::Record(read)) => read,
                other => panic!("{kname}: {text:?} gave {other:?}"),
            };
            assert!(
                read.owner().name_eq(rec.owner()),
                "{kname}: owner differs for {text:?}"
            );
            assert_eq!(read.class(), rec.class(), "{kname}: {text:?}");
            assert_eq!(read.ttl(), rec.ttl(), "{kname}: {text:?}");
            assert!(
                read.data() == rec.data(),
                "{kname}: data differs for {text:?}: {:?}",
                read.data()
            );
            assert!(zone.next_entry().unwrap().is_none());
        }
    }
}

fn record(owner: &str, data: Data) -> Record<Name<Bytes>, Data> {
    Record::new(name(owner), Class::IN, Ttl::from_secs(3600), data)
}

use domain::rdata::svcb::{SvcParams, SvcParamsBuilder};
use domain::rdata::Svcb;

fn svcb(op: impl FnOnce(&mut SvcParamsBuilder<Vec<u8>>)) -> Data {
    let mut builder = SvcParamsBuilder::<Vec<u8>>::empty();
    op(&mut builder);
    let params: SvcParams<Bytes> = builder.freeze().unwrap();
    ZoneRecordData::Svcb(
        Svcb::new(1, name("svc.example.com."), params).unwrap(),
    )
}

/// Control: an ordinary ALPN list round-trips.
#[test]
fn alpn_plain() {
    roundtrip(&record("example.com.", svcb(|b| b.alpn(&[b"h2", b"h3"]).unwrap())));
}

/// An ALPN protocol id containing a comma.
#[test]
fn alpn_with_comma() {
    roundtrip(&record("example.com.", svcb(|b| b.alpn(&[b"a,b"]).unwrap())));
}

/// An ALPN protocol id containing a space.
#[test]
fn alpn_with_space() {
    roundtrip(&record("example.com.", svcb(|b| b.alpn(&[b"a b"]).unwrap())));
}

/// An ALPN protocol id containing a non-ASCII octet.
#[test]
fn alpn_with_high_octet() {
    roundtrip(&record("example.com.", svcb(|b| b.alpn(&[b"a\xE9"]).unwrap())));
}

/// A dohpath containing a space.
#[test]
fn dohpath_with_space() {
    roundtrip(&record("example.com.", svcb(|b| b.dohpath("/dns query{?dns}").unwrap())));
}
