// Adjacent findings in the UNMODIFIED library noticed while reading for C01.
// They are NOT violations of C01 (nothing panics, hangs or overruns) but the
// values shown/returned are wrong.
//
//     cargo test --offline -j4 --test c01_adjacent
//
// Both tests FAIL on the unmodified library.

use domain::base::iana::OptRcode;
use domain::base::opt::{AllOptData, KeyTag};
use domain::base::Message;

/// `OptRcode::checked_from_int` tests the wrong mask (`value & 0x0FFF != 0`
/// instead of `value & 0xF000 != 0`): every 12 bit value except 0 is rejected
/// and values that do not fit into 12 bits are accepted.
#[test]
fn opt_rcode_checked_from_int_mask_is_inverted() {
    assert_eq!(OptRcode::checked_from_int(16), Some(OptRcode::BADVERS));
    assert_eq!(OptRcode::checked_from_int(0xF000), None);
}

/// `KeyTag`'s `Display` (used by the dig printer for the edns-key-tag option)
/// walks the octets instead of the 16 bit key tags and prints each octet
/// doubled: the tags 0x1234, 0xABCD come out as "1212, 3434, ABAB, CDCD".
#[test]
fn key_tag_display_prints_octets_not_tags() {
    let tags = KeyTag::from_octets(&[0x12u8, 0x34, 0xAB, 0xCD][..]).unwrap();
    assert_eq!(tags.iter().collect::<Vec<_>>(), [0x1234, 0xABCD]);
    assert_eq!(tags.to_string(), "1234, ABCD");

    // Same thing through a message and the dig printer.
    let msg = [
        0x12, 0x34, 0x84, 0x00, 0, 0, 0, 0, 0, 0, 0, 1, // ARCOUNT 1
        0, 0, 41, 0x04, 0xd0, 0, 0, 0, 0, 0, 8, // OPT, rdlen 8
        0, 14, 0, 4, 0x12, 0x34, 0xAB, 0xCD, // edns-key-tag
    ];
    let msg = Message::from_octets(&msg[..]).unwrap();
    let opt = msg.opt().unwrap();
    let first = opt.opt().iter::<AllOptData<_, _>>().next().unwrap().unwrap();
    assert!(matches!(first, AllOptData::KeyTag(_)));
    let dig = msg.display_dig_style().to_string();
    assert!(dig.contains("; KEYTAG: 1234, ABCD"), "{dig}");
}
