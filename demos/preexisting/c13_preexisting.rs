// Pre-existing behaviour of the UNMODIFIED library around property C13.
// Every test below states the expected behaviour and FAILS on the unmodified
// tree (commit 1a32924).
//
// Place this file in tests/ of the repository and run:
//
//   cargo test --offline -j4 --features unstable-sign,ring,zonefile \
//       --test c13_preexisting -- --test-threads=1
#![cfg(all(feature = "unstable-sign", feature = "ring", feature = "zonefile"))]

use bytes::Bytes;
use domain::base::iana::Class;
use domain::base::name::{FlattenInto, Name};
use domain::base::{Record, Ttl};
use domain::dnssec::sign::denial::nsec::{generate_nsecs, GenerateNsecConfig};
use domain::dnssec::sign::denial::nsec3::{
    generate_nsec3s, GenerateNsec3Config,
};
use domain::dnssec::sign::records::{DefaultSorter, SortedRecords};
use domain::rdata::{ZoneRecordData, A, Txt};
use domain::zonefile::inplace::{Entry, Zonefile};
use std::str::FromStr;

type N = Name<Bytes>;
type D = ZoneRecordData<Bytes, N>;

fn load(zone: &str) -> SortedRecords<N, D> {
    let mut bytes = zone.as_bytes();
    let reader = Zonefile::load(&mut bytes).unwrap();
    let mut v: Vec<Record<N, D>> = Vec::new();
    for entry in reader {
        if let Entry::Record(r) = entry.unwrap() {
            v.push(r.flatten_into());
        }
    }
    SortedRecords::from(v)
}

const HDR: &str = "$ORIGIN example.\n$TTL 3600\n@ IN SOA ns1 admin 1 3600 900 86400 1800\n@ NS ns1\nns1 A 192.0.2.1\n";

/// P1. generate_nsec3s() with opt-out returns an NSEC3PARAM RR whose Flags
/// field is 1.
///
/// RFC 5155 section 4.1.2: "The Opt-Out flag is not used and is set to zero.
/// ... NSEC3PARAM RRs with a Flags field value other than zero MUST be
/// ignored." and section 7.1 step 8 only copies Hash Algorithm, Iterations
/// and Salt. A server following the RFC ignores this NSEC3PARAM, i.e. the
/// opt-out chain the library generates is not announced at the apex.
/// (src/dnssec/sign/denial/nsec3.rs, generate_nsec3s: `config.params.clone()`
/// is used as the NSEC3PARAM RDATA after `with_opt_out()` set the flag in it;
/// the feature-gated unit tests even assert `nsec3param.data().opt_out_flag()`.)
#[test]
fn p1_nsec3param_flags_must_be_zero_with_opt_out() {
    let apex = N::from_str("example.").unwrap();
    let recs = load(&format!("{HDR}sub NS ns.elsewhere.\nwww A 192.0.2.2\n"));
    let cfg = GenerateNsec3Config::<Bytes, DefaultSorter>::default()
        .with_opt_out();
    let res = generate_nsec3s(&apex, recs.owner_rrs(), &cfg).unwrap();
    assert!(res.nsec3s.iter().all(|r| r.data().opt_out()));
    assert_eq!(
        res.nsec3param.data().flags(),
        0,
        "NSEC3PARAM flags must be zero (RFC 5155 4.1.2)"
    );
}

/// P2. generate_nsec3s() hard-codes class IN for the NSEC3 and NSEC3PARAM
/// records, while its sibling generate_nsecs() takes the class from the apex
/// SOA. For a zone of another class the NSEC3 chain is not in the zone's
/// class at all.
/// (src/dnssec/sign/denial/nsec3.rs, mk_nsec3: `Record::new(owner_name,
/// Class::IN, ttl, nsec3)`; generate_nsec3s: NSEC3PARAM `Class::IN`.)
#[test]
fn p2_nsec3_records_use_the_zone_class() {
    let apex = N::from_str("example.").unwrap();
    let recs = load(
        "$ORIGIN example.\n$TTL 3600\n\
         @ CH SOA ns1 admin 1 3600 900 86400 1800\n\
         www CH TXT hello\n",
    );
    let nsecs =
        generate_nsecs(&apex, recs.owner_rrs(), &GenerateNsecConfig::new())
            .unwrap();
    assert!(nsecs.iter().all(|r| r.class() == Class::CH)); // holds
    let cfg = GenerateNsec3Config::<Bytes, DefaultSorter>::default();
    let res = generate_nsec3s(&apex, recs.owner_rrs(), &cfg).unwrap();
    assert!(
        res.nsec3s.iter().all(|r| r.class() == Class::CH),
        "NSEC3 class is {}",
        res.nsec3s[0].class()
    );
    assert_eq!(res.nsec3param.class(), Class::CH);
}

/// P3. A zone in which the records of one RRset carry different TTLs (the
/// zone file reader accepts it) makes generate_nsecs() and generate_nsec3s()
/// panic ("TTLs should be the same: MultipleTtlValues", Rrset::new in
/// src/dnssec/sign/records.rs, reached through OwnerRrs::rrsets()). The
/// functions return Result and have a SigningError::MultipleTtlValues-like
/// path available, and the NSEC chain does not depend on those TTLs at all;
/// "for every zone" there should be a chain or an error, not a panic.
#[test]
fn p3_rrset_with_two_ttls_must_not_panic() {
    let apex = N::from_str("example.").unwrap();
    let recs =
        load(&format!("{HDR}www 100 A 192.0.2.2\nwww 200 A 192.0.2.3\n"));
    let r = std::panic::catch_unwind(|| {
        generate_nsecs(&apex, recs.owner_rrs(), &GenerateNsecConfig::new())
            .map(|v| v.len())
    });
    assert!(r.is_ok(), "generate_nsecs panicked");
}

/// P4. Every SOA RRset met while walking the zone (not only the one at the
/// apex) resets the NSEC TTL and class. A delegation point that also carries
/// the child's SOA (zone file of parent and child concatenated; the SOA is
/// occluded data at the cut) changes the TTL of all NSEC RRs that follow it,
/// so the RRs of one chain end up with two different TTLs.
/// (src/dnssec/sign/denial/nsec.rs, generate_nsecs, and the same code in
/// nsec3.rs: `if rrset.rtype() == Rtype::SOA { ... nsec_ttl = ... }` without
/// an apex test.)
#[test]
fn p4_only_the_apex_soa_determines_the_nsec_ttl() {
    let apex = N::from_str("example.").unwrap();
    let recs = load(&format!(
        "{HDR}sub NS ns.sub\nsub 60 SOA ns.sub admin.sub 1 3600 900 86400 5\nzz A 192.0.2.9\n"
    ));
    let nsecs =
        generate_nsecs(&apex, recs.owner_rrs(), &GenerateNsecConfig::new())
            .unwrap();
    // min(SOA TTL 3600, MINIMUM 1800) of the apex SOA
    for r in &nsecs {
        assert_eq!(
            r.ttl(),
            Ttl::from_secs(1800),
            "NSEC at {} has TTL {:?}",
            r.owner(),
            r.ttl()
        );
    }
}

/// P5. Records of two classes in one SortedRecords (it sorts by class first,
/// then owner) make the owner iterator yield the same owner name twice and
/// out of canonical order; generate_nsecs() then emits two NSEC RRs for one
/// owner and a chain that is not in canonical order. (The zone file reader
/// refuses mixed classes, so this needs records built by hand.)
#[test]
fn p5_mixed_class_records_one_nsec_per_owner() {
    let apex = N::from_str("example.").unwrap();
    let mut v: Vec<Record<N, D>> = load(HDR).iter().cloned().collect();
    let ttl = Ttl::from_secs(3600);
    let abc = N::from_str("abc.example.").unwrap();
    let www = N::from_str("www.example.").unwrap();
    let a: D = A::from_str("192.0.2.7").unwrap().into();
    let txt: D = Txt::<Bytes>::build_from_slice(b"x").unwrap().into();
    v.push(Record::new(abc.clone(), Class::IN, ttl, a.clone()));
    v.push(Record::new(www.clone(), Class::IN, ttl, a));
    v.push(Record::new(abc.clone(), Class::CH, ttl, txt));
    let recs: SortedRecords<N, D> = SortedRecords::from(v);
    let nsecs =
        generate_nsecs(&apex, recs.owner_rrs(), &GenerateNsecConfig::new())
            .unwrap();
    let n_abc = nsecs.iter().filter(|r| r.owner() == &abc).count();
    assert_eq!(n_abc, 1, "NSEC RRs owned by abc.example");
}

/// P6. A zone whose apex name is longer than 222 octets cannot carry NSEC3
/// owner names (33 octet hash label + apex > 255). generate_nsec3s() returns
/// Result and has Nsec3HashError::AppendError for this, but append_origin()
/// in src/dnssec/sign/denial/nsec3.rs unwraps the NameBuilder result and
/// panics with `LongName`.
#[test]
fn p6_long_apex_must_be_an_error_not_a_panic() {
    let l = "a".repeat(57);
    let apex_s = format!("{l}.{l}.{l}.{l}.");
    let recs = load(&format!(
        "$ORIGIN {apex_s}\n$TTL 3600\n@ IN SOA ns1 admin 1 3600 900 86400 1800\n"
    ));
    let apex = N::from_str(&apex_s).unwrap();
    let cfg = GenerateNsec3Config::<Bytes, DefaultSorter>::default();
    let r = std::panic::catch_unwind(|| {
        generate_nsec3s(&apex, recs.owner_rrs(), &cfg).map(|r| r.nsec3s.len())
    });
    assert!(r.is_ok(), "generate_nsec3s panicked");
}
