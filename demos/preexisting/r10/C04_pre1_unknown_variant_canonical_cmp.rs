// PRE-EXISTING violation of C04 in the UNMODIFIED library.
//
// Run (default features), after copying to tests/:
//   cargo test --offline --test pre1_unknown_variant_canonical_cmp
//
// Clause: "the canonical ordering of record data and records equals the
// octet-wise order of their canonical wire forms".
//
// `AllRecordData::canonical_cmp` / `ZoneRecordData::canonical_cmp`
// (src/rdata/macros.rs, the `_ => self.rtype().cmp(&other.rtype())` arm)
// answer `Equal` for an `Unknown` variant carrying the record type of a
// proper variant, whatever the data is. `Ord`/`PartialOrd` of the same enums
// were given a tie break for exactly this case, `CanonicalOrd` was not, so
// `canonical_cmp` is Equal for values that are `!=`, whose `cmp` is not
// Equal, and whose canonical wire forms differ. Through
// `Record::canonical_cmp` two different records of one RRset compare Equal
// (e.g. a sort-and-dedup by canonical order drops one of them).
use core::cmp::Ordering;
use domain::base::cmp::CanonicalOrd;
use domain::base::iana::{Class, Rtype};
use domain::base::name::Name;
use domain::base::rdata::{ComposeRecordData, UnknownRecordData};
use domain::base::{Record, Ttl};
use domain::rdata::{AllRecordData, ZoneRecordData, A};

type All = AllRecordData<Vec<u8>, Name<Vec<u8>>>;
type Zone = ZoneRecordData<Vec<u8>, Name<Vec<u8>>>;

fn canon<D: ComposeRecordData>(d: &D) -> Vec<u8> {
    let mut v = Vec::new();
    d.compose_canonical_rdata(&mut v).unwrap();
    v
}

#[test]
fn all_record_data() {
    let known: All = A::from_octets(1, 2, 3, 4).into();
    let unknown: All =
        UnknownRecordData::from_octets(Rtype::A, vec![9u8, 9, 9, 9])
            .unwrap()
            .into();
    assert_ne!(known, unknown);
    assert_ne!(known.cmp(&unknown), Ordering::Equal);
    assert_ne!(canon(&known), canon(&unknown));
    // expected: the octet order of the canonical forms, 01020304 < 09090909
    assert_eq!(
        known.canonical_cmp(&unknown),
        canon(&known).cmp(&canon(&unknown)),
        "AllRecordData::canonical_cmp disagrees with the canonical forms"
    );
}

#[test]
fn zone_record_data() {
    let known: Zone = A::from_octets(1, 2, 3, 4).into();
    let unknown: Zone =
        UnknownRecordData::from_octets(Rtype::A, vec![9u8, 9, 9, 9])
            .unwrap()
            .into();
    assert_ne!(known, unknown);
    assert_eq!(
        known.canonical_cmp(&unknown),
        canon(&known).cmp(&canon(&unknown)),
        "ZoneRecordData::canonical_cmp disagrees with the canonical forms"
    );
}

#[test]
fn whole_records() {
    let owner = Name::<Vec<u8>>::from_octets(b"\x07example\x00".to_vec()).unwrap();
    let known: All = A::from_octets(1, 2, 3, 4).into();
    let unknown: All =
        UnknownRecordData::from_octets(Rtype::A, vec![9u8, 9, 9, 9])
            .unwrap()
            .into();
    let r1 = Record::new(owner.clone(), Class::IN, Ttl::from_secs(60), known);
    let r2 = Record::new(owner, Class::IN, Ttl::from_secs(60), unknown);
    assert_ne!(r1, r2);
    assert_ne!(
        r1.canonical_cmp(&r2),
        Ordering::Equal,
        "two different records of one RRset are canonically Equal"
    );
}
