// scratch harness: cargo test --offline --features zonefile --test c06_scratch -- --nocapture
#![cfg(feature = "zonefile")]

use bytes::Bytes;
use domain::base::name::{FlattenInto, Name, ParsedName};
use domain::base::zonefile_fmt::{DisplayKind, ZonefileFmt};
use domain::base::Record;
use domain::rdata::ZoneRecordData;
use domain::zonefile::inplace::{Entry, Zonefile};
use octseq::Parser;

type Rec = Record<Name<Bytes>, ZoneRecordData<Bytes, Name<Bytes>>>;

fn mkrec(
    owner: &[u8],
    rtype: u16,
    class: u16,
    ttl: u32,
    rdata: &[u8],
) -> Result<Rec, String> {
    let mut wire = Vec::new();
    wire.extend_from_slice(owner);
    wire.extend_from_slice(&rtype.to_be_bytes());
    wire.extend_from_slice(&class.to_be_bytes());
    wire.extend_from_slice(&ttl.to_be_bytes());
    wire.extend_from_slice(&(rdata.len() as u16).to_be_bytes());
    wire.extend_from_slice(rdata);
    let bytes = Bytes::from(wire);
    let mut parser = Parser::from_ref(&bytes);
    let rec = Record::<
        ParsedName<Bytes>,
        ZoneRecordData<Bytes, ParsedName<Bytes>>,
    >::parse(&mut parser)
    .map_err(|e| format!("parse: {e}"))?
    .ok_or_else(|| "none".to_string())?;
    let rec: Rec = rec.try_flatten_into().map_err(|_| "flatten".to_string())?;
    Ok(rec)
}

fn read_back(text: &str, origin: bool) -> Result<Vec<Rec>, String> {
    let mut input = text.as_bytes();
    let mut zone = Zonefile::load(&mut input).unwrap();
    if origin {
        zone.set_origin(Name::from_octets(Bytes::from_static(b"\x06origin\x04test\x00")).unwrap());
    }
    let mut res = Vec::new();
    loop {
        match zone.next_entry() {
            Ok(Some(Entry::Record(r))) => {
                let r: Rec = r.try_flatten_into().map_err(|_| "flatten2".to_string())?;
                res.push(r)
            }
            Ok(Some(_)) => return Err("include".into()),
            Ok(None) => break,
            Err(e) => return Err(format!("read error: {e}")),
        }
    }
    Ok(res)
}

fn check(rec: &Rec) -> Vec<String> {
    let mut errs = Vec::new();
    for (kname, kind) in [
        ("simple", DisplayKind::Simple),
        ("tabbed", DisplayKind::Tabbed),
        ("multi", DisplayKind::Multiline),
    ] {
        let text = format!("{}", rec.display_zonefile(kind));
        for origin in [false, true] {
            match read_back(&text, origin) {
                Ok(v) => {
                    if v.len() != 1 {
                        errs.push(format!(
                            "{kname}/{origin}: {} records from {text:?}",
                            v.len()
                        ));
                    } else if &v[0] != rec || v[0].ttl() != rec.ttl() {
                        errs.push(format!(
                            "{kname}/{origin}: mismatch {text:?} -> {:?}",
                            v[0]
                        ));
                    }
                }
                Err(e) => errs.push(format!("{kname}/{origin}: {e} for {text:?}")),
            }
        }
    }
    errs
}

thread_local! { static COUNTS: std::cell::RefCell<std::collections::BTreeMap<String, usize>> = Default::default(); }
struct Rng(u64);
impl Rng {
    fn next(&mut self) -> u64 {
        self.0 ^= self.0 << 13;
        self.0 ^= self.0 >> 7;
        self.0 ^= self.0 << 17;
        self.0
    }
    fn below(&mut self, n: u64) -> u64 {
        self.next() % n
    }
    fn byte(&mut self) -> u8 {
        // bias to interesting bytes
        const INTERESTING: &[u8] = b" \t\n\r\"();\\.$@#\x00\x7f\xff=-*'";
        match self.below(4) {
            0 => INTERESTING[self.below(INTERESTING.len() as u64) as usize],
            1 => b'a' + self.below(26) as u8,
            _ => self.next() as u8,
        }
    }
    fn bytes(&mut self, max: usize) -> Vec<u8> {
        let n = self.below(max as u64 + 1) as usize;
        (0..n).map(|_| self.byte()).collect()
    }
    fn name(&mut self) -> Vec<u8> {
        let mut res = Vec::new();
        let labels = self.below(4);
        for _ in 0..labels {
            let l = {
                let mut l = self.bytes(12);
                if l.is_empty() {
                    l.push(b'x');
                }
                l
            };
            res.push(l.len() as u8);
            res.extend_from_slice(&l);
        }
        res.push(0);
        res
    }
    fn charstr(&mut self) -> Vec<u8> {
        let l = self.bytes(20);
        let mut res = vec![l.len() as u8];
        res.extend_from_slice(&l);
        res
    }
}

fn report(what: &str, rec: Result<Rec, String>, fails: &mut usize) {
    match rec {
        Ok(rec) => {
            let errs = check(&rec);
            if !errs.is_empty() {
                *fails += 1;
                let key = format!("{what}:{}", errs[0].split(" for ").next().unwrap_or("").split(" mismatch").next().unwrap_or(""));
                let cnt = COUNTS.with(|c| { let mut c = c.borrow_mut(); let e = c.entry(key).or_insert(0); *e += 1; *e });
                if cnt <= 2 && what != "svcb" {
                    println!("FAIL {what}: {:?}", rec);
                    for e in errs.iter().take(2) {
                        println!("    {e}");
                    }
                }
            }
        }
        Err(_e) => {
            // not constructible
        }
    }
}

#[test]
fn fuzz() {
    let mut rng = Rng(0x1234_5678_9abc_def1);
    let mut fails = 0usize;
    let ex = b"\x07example\x03com\x00".to_vec();

    for i in 0..3000 {
        // owners
        let owner = rng.name();
        report("owner", mkrec(&owner, 1, 1, 3600, &[1, 2, 3, 4]), &mut fails);

        // classes / ttl
        let class = match rng.below(3) { 0 => rng.below(6) as u16, 1 => 250 + rng.below(8) as u16, _ => rng.next() as u16 };
        let ttl = match rng.below(3) { 0 => rng.below(3) as u32, 1 => u32::MAX - rng.below(3) as u32, _ => rng.next() as u32 };
        report("class/ttl", mkrec(&ex, 1, class, ttl, &[1, 2, 3, 4]), &mut fails);

        // name types
        for t in [2u16, 5, 12, 39, 7, 8, 9, 3, 4] {
            let n = rng.name();
            report("nametype", mkrec(&ex, t, 1, 1, &n), &mut fails);
        }
        // MX
        {
            let mut d = vec![rng.byte(), rng.byte()];
            d.extend(rng.name());
            report("mx", mkrec(&ex, 15, 1, 1, &d), &mut fails);
        }
        // SOA
        {
            let mut d = rng.name();
            d.extend(rng.name());
            for _ in 0..20 { d.push(rng.next() as u8); }
            report("soa", mkrec(&ex, 6, 1, 1, &d), &mut fails);
        }
        // MINFO, RP
        for t in [14u16, 17] {
            let mut d = rng.name();
            d.extend(rng.name());
            report("minfo/rp", mkrec(&ex, t, 1, 1, &d), &mut fails);
        }
        // HINFO
        {
            let mut d = rng.charstr();
            d.extend(rng.charstr());
            report("hinfo", mkrec(&ex, 13, 1, 1, &d), &mut fails);
        }
        // TXT
        {
            let mut d = Vec::new();
            for _ in 0..rng.below(4) { d.extend(rng.charstr()); }
            report("txt", mkrec(&ex, 16, 1, 1, &d), &mut fails);
        }
        // AAAA
        {
            let d: Vec<u8> = (0..16).map(|_| if rng.below(2) == 0 { 0 } else { rng.next() as u8 }).collect();
            report("aaaa", mkrec(&ex, 28, 1, 1, &d), &mut fails);
        }
        // SRV
        {
            let mut d: Vec<u8> = (0..6).map(|_| rng.next() as u8).collect();
            d.extend(rng.name());
            report("srv", mkrec(&ex, 33, 1, 1, &d), &mut fails);
        }
        // NAPTR
        {
            let mut d: Vec<u8> = (0..4).map(|_| rng.next() as u8).collect();
            d.extend(rng.charstr()); d.extend(rng.charstr()); d.extend(rng.charstr());
            d.extend(rng.name());
            report("naptr", mkrec(&ex, 35, 1, 1, &d), &mut fails);
        }
        // DS, CDS
        for t in [43u16, 59] {
            let mut d: Vec<u8> = (0..4).map(|_| rng.next() as u8).collect();
            d.extend(rng.bytes(40));
            report("ds", mkrec(&ex, t, 1, 1, &d), &mut fails);
        }
        // DNSKEY, CDNSKEY
        for t in [48u16, 60] {
            let mut d: Vec<u8> = (0..4).map(|_| rng.next() as u8).collect();
            d.extend(rng.bytes(40));
            report("dnskey", mkrec(&ex, t, 1, 1, &d), &mut fails);
        }
        // SSHFP
        {
            let mut d: Vec<u8> = (0..2).map(|_| rng.next() as u8).collect();
            d.extend(rng.bytes(40));
            report("sshfp", mkrec(&ex, 44, 1, 1, &d), &mut fails);
        }
        // TLSA
        {
            let mut d: Vec<u8> = (0..3).map(|_| rng.next() as u8).collect();
            d.extend(rng.bytes(40));
            report("tlsa", mkrec(&ex, 52, 1, 1, &d), &mut fails);
        }
        // OPENPGPKEY
        {
            let d = rng.bytes(40);
            report("openpgpkey", mkrec(&ex, 61, 1, 1, &d), &mut fails);
        }
        // ZONEMD
        {
            let mut d: Vec<u8> = (0..6).map(|_| rng.next() as u8).collect();
            d.extend(rng.bytes(60));
            report("zonemd", mkrec(&ex, 63, 1, 1, &d), &mut fails);
        }
        // RRSIG
        {
            let mut d: Vec<u8> = (0..18).map(|_| rng.next() as u8).collect();
            d.extend(rng.name());
            d.extend(rng.bytes(40));
            report("rrsig", mkrec(&ex, 46, 1, 1, &d), &mut fails);
        }
        // bitmap
        let bitmap = |rng: &mut Rng| {
            let mut d = Vec::new();
            let mut w = 0u16;
            for _ in 0..rng.below(4) {
                w += rng.below(3) as u16;
                if w > 255 { break; }
                let mx = if rng.below(4) == 0 { 32 } else { 3 }; let len = 1 + rng.below(mx) as usize;
                let mut bm: Vec<u8> = (0..len).map(|_| match rng.below(3) { 0 => 0, 1 => 1 << rng.below(8), _ => rng.next() as u8 }).collect();
                if *bm.last().unwrap() == 0 { *bm.last_mut().unwrap() = 0x80 >> rng.below(8); }
                d.push(w as u8); d.push(len as u8); d.extend(bm);
                w += 1;
                if rng.below(4) == 0 { w = w.max(128) + rng.below(60) as u16; }
            }
            d
        };
        // NSEC
        {
            let mut d = rng.name();
            d.extend(bitmap(&mut rng));
            report("nsec", mkrec(&ex, 47, 1, 1, &d), &mut fails);
        }
        // NSEC3
        {
            let mut d: Vec<u8> = (0..4).map(|_| rng.next() as u8).collect();
            let salt = rng.bytes(8); d.push(salt.len() as u8); d.extend(salt);
            let h = rng.bytes(24); d.push(h.len() as u8); d.extend(h);
            d.extend(bitmap(&mut rng));
            report("nsec3", mkrec(&ex, 50, 1, 1, &d), &mut fails);
        }
        // NSEC3PARAM
        {
            let mut d: Vec<u8> = (0..4).map(|_| rng.next() as u8).collect();
            let salt = rng.bytes(8); d.push(salt.len() as u8); d.extend(salt);
            report("nsec3param", mkrec(&ex, 51, 1, 1, &d), &mut fails);
        }
        // CAA
        {
            let mut d = vec![rng.next() as u8];
            let tl = 1 + rng.below(6) as usize;
            d.push(tl as u8);
            for _ in 0..tl { d.push(match rng.below(3) {0 => b'a' + rng.below(26) as u8, 1 => b'0' + rng.below(10) as u8, _ => b'A' + rng.below(26) as u8}); }
            d.extend(rng.bytes(30));
            report("caa", mkrec(&ex, 257, 1, 1, &d), &mut fails);
        }
        // IPSECKEY
        {
            let gt = rng.below(4) as u8;
            let mut d = vec![rng.next() as u8, gt, rng.below(4) as u8];
            match gt { 0 => {}, 1 => d.extend([1,2,3,4]), 2 => d.extend([0u8;16]), _ => d.extend(rng.name()) }
            d.extend(rng.bytes(20));
            report("ipseckey", mkrec(&ex, 45, 1, 1, &d), &mut fails);
        }
        // SVCB / HTTPS
        for t in [64u16, 65] {
            let mut d: Vec<u8> = (0..2).map(|_| rng.next() as u8).collect();
            d.extend(rng.name());
            let mut key = 0u16;
            for _ in 0..rng.below(4) {
                key += rng.below(3) as u16;
                let v = match key {
                    0 => { let n = 1 + rng.below(3); let mut v = Vec::new(); let mut k = 1u16; for _ in 0..n { v.extend(k.to_be_bytes()); k += 1 + rng.below(3) as u16; } v }
                    1 => { let mut v = Vec::new(); for _ in 0..1 + rng.below(3) { let mut c = rng.bytes(6); if c.is_empty() { c.push(b'h'); } v.push(c.len() as u8); v.extend(c); } v }
                    2 => vec![],
                    3 => vec![rng.next() as u8, rng.next() as u8],
                    4 => (0..4 * (1 + rng.below(3))).map(|_| rng.next() as u8).collect(),
                    6 => (0..16 * (1 + rng.below(2))).map(|_| rng.next() as u8).collect(),
                    _ => rng.bytes(12),
                };
                d.extend(key.to_be_bytes()); d.extend((v.len() as u16).to_be_bytes()); d.extend(v);
                key += 1;
                if rng.below(5) == 0 { key = 8 + rng.below(70000) as u16; }
            }
            report("svcb", mkrec(&ex, t, 1, 1, &d), &mut fails);
        }
        // unknown
        {
            let t = match rng.below(3) { 0 => 10u16, 1 => 65280 + rng.below(200) as u16, _ => 300 + rng.below(1000) as u16 };
            let d = rng.bytes(if i % 50 == 0 { 600 } else { 20 });
            report("unknown", mkrec(&ex, t, 1, 1, &d), &mut fails);
        }
    }
    println!("total failing records: {fails}");
    COUNTS.with(|c| for (k, v) in c.borrow().iter() { println!("COUNT {v} {k}"); });
}

#[test]
fn edge_names() {
    let mut fails = 0usize;
    // max-length name: 63+63+63+61 labels
    let mut n = Vec::new();
    for l in [63usize, 63, 63, 61] { n.push(l as u8); n.extend(std::iter::repeat(b'a').take(l)); }
    n.push(0);
    assert_eq!(n.len(), 255);
    report("maxname-owner", mkrec(&n, 1, 1, 3600, &[1,2,3,4]), &mut fails);
    report("maxname-cname", mkrec(b"\x01a\x00", 5, 1, 3600, &n), &mut fails);
    // max-length name with escapes
    let mut n2 = Vec::new();
    for l in [63usize, 63, 63, 61] { n2.push(l as u8); n2.extend(std::iter::repeat(b' ').take(l)); }
    n2.push(0);
    report("maxname-esc-owner", mkrec(&n2, 1, 1, 3600, &[1,2,3,4]), &mut fails);
    report("maxname-esc-cname", mkrec(b"\x01a\x00", 5, 1, 3600, &n2), &mut fails);
    let mut n3 = Vec::new();
    for l in [63usize, 63, 63, 61] { n3.push(l as u8); n3.extend(std::iter::repeat(0xffu8).take(l)); }
    n3.push(0);
    report("maxname-dec-owner", mkrec(&n3, 1, 1, 3600, &[1,2,3,4]), &mut fails);
    // 127 one-char labels
    let mut n4 = Vec::new();
    for _ in 0..127 { n4.push(1); n4.push(b'x'); }
    n4.push(0);
    assert_eq!(n4.len(), 255);
    report("maxname-127", mkrec(&n4, 1, 1, 3600, &[1,2,3,4]), &mut fails);
    report("maxname-127-soa", mkrec(b"\x00", 6, 1, 3600, &[&n4[..], &n4[..], &[0u8;20][..]].concat()), &mut fails);
    // root owner, special first labels
    for o in [&b"\x00"[..], b"\x01@\x00", b"\x01$\x00", b"\x01*\x00", b"\x02\\#\x00", b"\x01#\x00", b"\x041234\x00", b"\x02IN\x00", b"\x01;\x00", b"\x01\"\x00", b"\x03a b\x00", b"\x01(\x00", b"\x01.\x00", b"\x01\\\x00"] {
        report("special-owner", mkrec(o, 1, 1, 3600, &[1,2,3,4]), &mut fails);
        report("special-cname", mkrec(b"\x01a\x00", 5, 1, 3600, o), &mut fails);
    }
    // 255 octet strings
    for b in [b'a', b' ', b'"', 0u8, 0xff, b'\\', b';'] {
        let mut d = vec![255u8]; d.extend(std::iter::repeat(b).take(255));
        report("txt255", mkrec(b"\x01a\x00", 16, 1, 3600, &d), &mut fails);
        let mut d2 = d.clone(); d2.extend(d.clone()); d2.extend([0u8]); d2.extend([1u8, b'x']);
        report("txt255x2", mkrec(b"\x01a\x00", 16, 1, 3600, &d2), &mut fails);
        let mut h = d.clone(); h.extend(d.clone());
        report("hinfo255", mkrec(b"\x01a\x00", 13, 1, 3600, &h), &mut fails);
    }
    // txt "@" and friends
    for s in [&b"@"[..], b"\\#", b"$", b"", b"(", b")", b";"] {
        let mut d = vec![s.len() as u8]; d.extend(s);
        report("txt-special", mkrec(b"\x01a\x00", 16, 1, 3600, &d), &mut fails);
        let mut h = d.clone(); h.extend(d.clone());
        report("hinfo-special", mkrec(b"\x01a\x00", 13, 1, 3600, &h), &mut fails);
    }
    // big generic
    let big: Vec<u8> = (0..65000u32).map(|i| i as u8).collect();
    report("generic-big", mkrec(b"\x01a\x00", 65300, 1, 3600, &big), &mut fails);
    report("generic-0", mkrec(b"\x01a\x00", 65300, 1, 3600, &[]), &mut fails);
    // all classes x some ttl
    for c in 0..=65535u32 {
        report("class", mkrec(b"\x01a\x00", 1, c as u16, c.wrapping_mul(65537), &[1,2,3,4]), &mut fails);
    }
    // all rtypes as generic (unknown ones) and in NSEC bitmaps
    for t in 0..=65535u32 {
        let t = t as u16;
        let d = [1u8,2,3];
        let r = mkrec(b"\x01a\x00", t, 1, 1, &d);
        if let Ok(r) = &r { if !matches!(r.data(), ZoneRecordData::Unknown(_)) { continue; } }
        report("rtype-generic", r, &mut fails);
    }
    for t in 0..=65535u32 {
        let mut d = b"\x01b\x00".to_vec();
        let w = (t >> 8) as u8; let o = ((t & 0xff) >> 3) as usize; let bit = 0x80u8 >> (t & 7);
        d.push(w); d.push((o + 1) as u8); d.extend(std::iter::repeat(0).take(o)); d.push(bit);
        report("nsec-type", mkrec(b"\x01a\x00", 47, 1, 1, &d), &mut fails);
    }
    println!("edge fails: {fails}");
    COUNTS.with(|c| for (k, v) in c.borrow().iter() { println!("COUNT {v} {k}"); });
}

fn svcb(params: &[(u16, &[u8])]) -> Result<Rec, String> {
    let mut d = vec![0u8, 1, 0];
    for (k, v) in params {
        d.extend(k.to_be_bytes());
        d.extend((v.len() as u16).to_be_bytes());
        d.extend(*v);
    }
    mkrec(b"\x01a\x00", 64, 1, 60, &d)
}

#[test]
fn svcb_cases() {
    let cases: Vec<(&str, Vec<(u16, &[u8])>)> = vec![
        ("plain alpn+port", vec![(1, b"\x02h2\x02h3"), (3, b"\x01\xbb")]),
        ("no-default-alpn", vec![(1, b"\x02h2"), (2, b"")]),
        ("alpn with comma", vec![(1, b"\x03a,b")]),
        ("alpn with backslash", vec![(1, b"\x03a\\b")]),
        ("alpn with space", vec![(1, b"\x03a b")]),
        ("alpn with quote", vec![(1, b"\x03a\"b")]),
        ("alpn with 0x80", vec![(1, b"\x02a\x80")]),
        ("alpn with NUL", vec![(1, b"\x02a\x00")]),
        ("alpn with semicolon", vec![(1, b"\x03a;b")]),
        ("alpn with paren", vec![(1, b"\x03a(b")]),
        ("mandatory ok", vec![(0, b"\x00\x01"), (1, b"\x02h2")]),
        ("mandatory missing key", vec![(0, b"\x00\x03"), (1, b"\x02h2")]),
        ("ech", vec![(5, b"abc")]),
        ("ech empty", vec![(5, b"")]),
        ("ipv4hint", vec![(4, b"\x01\x02\x03\x04\x05\x06\x07\x08")]),
        ("ipv6hint", vec![(6, &[0u8; 16])]),
        ("dohpath", vec![(7, b"/dns-query{?dns}")]),
        ("dohpath with space", vec![(7, b"/dns query")]),
        ("key8 ohttp", vec![(8, b"")]),
        ("key9", vec![(9, b"\x00\x1d")]),
        ("unknown key plain", vec![(667, b"hello")]),
        ("unknown key empty", vec![(667, b"")]),
        ("unknown key space", vec![(667, b"hello world")]),
        ("unknown key quote", vec![(667, b"he\"llo")]),
        ("unknown key backslash", vec![(667, b"he\\llo")]),
        ("unknown key binary", vec![(667, b"\x00\xff\x7f")]),
        ("unknown key comma", vec![(667, b"a,b")]),
        ("unknown key eq", vec![(667, b"a=b")]),
        ("key65535", vec![(65535, b"x")]),
        ("key65534", vec![(65534, b"x")]),
        ("port only", vec![(3, b"\x00\x35")]),
    ];
    for (what, params) in cases {
        match svcb(&params) {
            Ok(rec) => {
                let errs = check(&rec);
                if errs.is_empty() {
                    println!("OK   {what}");
                } else {
                    println!("FAIL {what}: {}", errs[0].chars().take(260).collect::<String>());
                }
            }
            Err(e) => println!("N/A  {what}: {e}"),
        }
    }
}
