// Place in tests/ as tests/c10_preexisting.rs.
// Scratch tests: behaviour of the UNMODIFIED library that violates C10.
//
// Run with:
//   cargo test --offline --all-features --test c10_preexisting -- --test-threads=1
//
// Every test asserts what the property demands; a failing test is a
// confirmed pre-existing violation.
#![cfg(all(
    feature = "unstable-zonetree",
    feature = "unstable-server-transport",
    feature = "zonefile"
))]

use std::collections::BTreeSet;
use std::fmt::Debug;
use std::future::{Future, Ready, ready};
use std::ops::ControlFlow;
use std::pin::Pin;
use std::str::FromStr;
use std::sync::{Arc, Mutex};

use bytes::Bytes;
use futures_util::StreamExt;
use futures_util::stream::Once;
use octseq::Octets;
use tokio::sync::Semaphore;
use tokio::time::Instant;

use domain::base::iana::{Class, Rcode};
use domain::base::{
    Message, MessageBuilder, Name, ParsedName, Record, Rtype, Serial, Ttl,
};
use domain::net::server::message::{
    NonUdpTransportContext, Request, TransportSpecificContext,
};
use domain::net::server::middleware::xfr::{
    XfrData, XfrDataProvider, XfrDataProviderError, XfrMiddlewareSvc,
};
use domain::net::server::service::{
    Service, ServiceFeedback, ServiceResult,
};
use domain::net::xfr::protocol::XfrResponseInterpreter;
use domain::rdata::{A, Cname, Ns, Soa, ZoneRecordData};
use domain::zonefile::inplace::Zonefile;
use domain::zonetree::types::ZoneUpdate;
use domain::zonetree::update::ZoneUpdater;
use domain::zonetree::{InMemoryZoneDiff, Zone};

//------------ Harness -------------------------------------------------------

type PRec = Record<ParsedName<Bytes>, ZoneRecordData<Bytes, ParsedName<Bytes>>>;

/// (owner, rtype, rdata, ttl)
type Content = BTreeSet<(String, String, String, u32)>;

fn n(s: &str) -> Name<Bytes> {
    Name::from_str(s).unwrap()
}

fn pn(s: &str) -> ParsedName<Bytes> {
    ParsedName::from(n(s))
}

fn soa_rec(apex: &str, serial: u32) -> PRec {
    Record::new(
        pn(apex),
        Class::IN,
        Ttl::from_secs(3600),
        Soa::new(
            pn("ns.example.com."),
            pn("admin.example.com."),
            Serial(serial),
            Ttl::from_secs(3600),
            Ttl::from_secs(600),
            Ttl::from_secs(86400),
            Ttl::from_secs(300),
        )
        .into(),
    )
}

fn a_rec(owner: &str, ttl: u32, ip: &str) -> PRec {
    Record::new(
        pn(owner),
        Class::IN,
        Ttl::from_secs(ttl),
        A::new(ip.parse().unwrap()).into(),
    )
}

fn ns_rec(owner: &str, ttl: u32, target: &str) -> PRec {
    Record::new(
        pn(owner),
        Class::IN,
        Ttl::from_secs(ttl),
        Ns::new(pn(target)).into(),
    )
}

fn cname_rec(owner: &str, ttl: u32, target: &str) -> PRec {
    Record::new(
        pn(owner),
        Class::IN,
        Ttl::from_secs(ttl),
        Cname::new(pn(target)).into(),
    )
}

fn load_zone(text: &str) -> Zone {
    let mut r = std::io::BufReader::new(text.as_bytes());
    let zf = Zonefile::load(&mut r).unwrap();
    Zone::try_from(zf).unwrap()
}

fn dump(zone: &Zone) -> Content {
    let out = Arc::new(Mutex::new(Content::new()));
    let o2 = out.clone();
    zone.read().walk(Box::new(move |owner, rrset, _cut| {
        let mut o = o2.lock().unwrap();
        for d in rrset.data() {
            o.insert((
                format!("{owner}").to_ascii_lowercase(),
                format!("{}", rrset.rtype()),
                format!("{d}").to_ascii_lowercase(),
                rrset.ttl().as_secs(),
            ));
        }
    }));
    let res = out.lock().unwrap().clone();
    res
}

fn apply_diff(old: &Content, diff: &InMemoryZoneDiff) -> Content {
    let mut new = old.clone();
    for ((owner, rtype), rrset) in diff.removed.iter() {
        for d in rrset.data() {
            let owner = format!("{owner}").to_ascii_lowercase();
            let rtype = format!("{rtype}");
            let d = format!("{d}").to_ascii_lowercase();
            new.retain(|(o, t, x, _)| !(*o == owner && *t == rtype && *x == d));
        }
    }
    for ((owner, rtype), rrset) in diff.added.iter() {
        for d in rrset.data() {
            new.insert((
                format!("{owner}").to_ascii_lowercase(),
                format!("{rtype}"),
                format!("{d}").to_ascii_lowercase(),
                rrset.ttl().as_secs(),
            ));
        }
    }
    new
}

fn rcode(zone: &Zone, name: &str, rtype: Rtype) -> Rcode {
    zone.read().query(n(name), rtype).unwrap().rcode()
}

#[derive(Clone)]
struct NoNext;

impl Service<Vec<u8>, ()> for NoNext {
    type Target = Vec<u8>;
    type Stream = Once<Ready<ServiceResult<Self::Target>>>;
    type Future = Ready<Self::Stream>;

    fn call(&self, _request: Request<Vec<u8>, ()>) -> Self::Future {
        unreachable!()
    }
}

#[derive(Clone)]
struct Provider {
    zone: Zone,
    diffs: Vec<Arc<InMemoryZoneDiff>>,
    compat: bool,
}

impl XfrDataProvider<()> for Provider {
    type Diff = Arc<InMemoryZoneDiff>;

    fn request<Octs>(
        &self,
        _req: &Request<Octs, ()>,
        diff_from: Option<Serial>,
    ) -> Pin<
        Box<
            dyn Future<
                    Output = Result<
                        XfrData<Self::Diff>,
                        XfrDataProviderError,
                    >,
                > + Sync
                + Send
                + '_,
        >,
    >
    where
        Octs: Octets + Send + Sync,
    {
        let diffs = if self.diffs.first().map(|d| d.start_serial) == diff_from
        {
            self.diffs.clone()
        } else {
            vec![]
        };
        Box::pin(ready(Ok(XfrData::new(
            self.zone.clone(),
            diffs,
            self.compat,
        ))))
    }
}

fn tcp() -> TransportSpecificContext {
    TransportSpecificContext::NonUdp(NonUdpTransportContext::new(None))
}

fn axfr_req(apex: &str) -> Request<Vec<u8>, ()> {
    let mut msg = MessageBuilder::new_vec().question();
    msg.push((n(apex), Rtype::AXFR)).unwrap();
    Request::new(
        "127.0.0.1:12345".parse().unwrap(),
        Instant::now(),
        msg.into_message(),
        tcp(),
        (),
    )
}

fn ixfr_req(apex: &str, serial: u32) -> Request<Vec<u8>, ()> {
    let mut msg = MessageBuilder::new_vec().question();
    msg.push((n(apex), Rtype::IXFR)).unwrap();
    let mut msg = msg.authority();
    msg.push(soa_rec(apex, serial)).unwrap();
    Request::new(
        "127.0.0.1:12345".parse().unwrap(),
        Instant::now(),
        msg.into_message(),
        tcp(),
        (),
    )
}

async fn serve<XDP>(
    xdp: XDP,
    req: &Request<Vec<u8>, ()>,
) -> Vec<Message<Bytes>>
where
    XDP: XfrDataProvider<()> + Clone + Sync + Send + 'static,
    XDP::Diff: Debug + Sync + 'static,
{
    let res = XfrMiddlewareSvc::<Vec<u8>, NoNext, (), XDP>::preprocess(
        Arc::new(Semaphore::new(1)),
        Arc::new(Semaphore::new(1)),
        req,
        xdp,
    )
    .await
    .unwrap();
    let ControlFlow::Break(mut stream) = res else {
        panic!("not an XFR request");
    };
    let mut out = vec![];
    while let Some(item) = stream.next().await {
        let (resp, feedback) = item.unwrap().into_inner();
        if let Some(resp) = resp {
            out.push(
                Message::from_octets(Bytes::copy_from_slice(
                    resp.as_message().as_slice(),
                ))
                .unwrap(),
            );
        }
        if matches!(feedback, Some(ServiceFeedback::EndTransaction)) {
            break;
        }
    }
    out
}

async fn receive(
    zone: &Zone,
    msgs: Vec<Message<Bytes>>,
) -> Result<Vec<InMemoryZoneDiff>, String> {
    let mut updater = ZoneUpdater::new(zone.clone()).await.unwrap();
    let mut interp = XfrResponseInterpreter::new();
    let mut diffs = vec![];
    for m in msgs {
        let it = interp
            .interpret_response(m)
            .map_err(|e| format!("interpreter: {e}"))?;
        for u in it {
            let u = u.map_err(|e| format!("iterator: {e:?}"))?;
            if let Some(d) = updater
                .apply(u)
                .await
                .map_err(|e| format!("updater: {e}"))?
            {
                diffs.push(d);
            }
        }
    }
    if !interp.is_finished() {
        return Err("transfer incomplete".into());
    }
    Ok(diffs)
}

async fn apply_all(
    zone: &Zone,
    updates: Vec<ZoneUpdate<PRec>>,
) -> Vec<InMemoryZoneDiff> {
    let mut updater = ZoneUpdater::new(zone.clone()).await.unwrap();
    let mut diffs = vec![];
    for u in updates {
        if let Some(d) = updater.apply(u).await.unwrap() {
            diffs.push(d);
        }
    }
    diffs
}

fn answer_msg(
    req: &Request<Vec<u8>, ()>,
    recs: &[PRec],
) -> Message<Bytes> {
    let mut b = MessageBuilder::new_bytes()
        .start_answer(req.message(), Rcode::NOERROR)
        .unwrap();
    for r in recs {
        b.push(r.clone()).unwrap();
    }
    b.into_message()
}

const OLD: &str = "\
example.com. 3600 IN SOA ns.example.com. admin.example.com. 1 3600 600 86400 300
example.com. 3600 IN NS ns.example.com.
ns.example.com. 3600 IN A 192.0.2.1
a.example.com. 100 IN A 192.0.2.10
b.example.com. 3600 IN A 192.0.2.20
";

const NEW: &str = "\
example.com. 3600 IN SOA ns.example.com. admin.example.com. 2 3600 600 86400 300
example.com. 3600 IN NS ns.example.com.
ns.example.com. 3600 IN A 192.0.2.1
a.example.com. 100 IN A 192.0.2.10
";

//------------ P1 ------------------------------------------------------------

/// AXFR into a zone that already has content: the diff reported by the
/// commit does not mention the records that vanished.
#[tokio::test]
async fn p1_axfr_commit_diff_misses_vanished_records() {
    let sender = load_zone(NEW);
    let receiver = load_zone(OLD);
    let old = dump(&receiver);

    let msgs = serve(sender.clone(), &axfr_req("example.com.")).await;
    let diffs = receive(&receiver, msgs).await.unwrap();

    assert_eq!(dump(&receiver), dump(&sender), "AXFR fidelity");
    assert_eq!(diffs.len(), 1);
    assert_eq!(
        apply_diff(&old, &diffs[0]),
        dump(&receiver),
        "diff applied to old content must give new content"
    );
}

//------------ P2 ------------------------------------------------------------

/// An IXFR that changes only the TTL of a record (delete + add of the same
/// rdata): the commit diff says "removed" and nothing else.
#[tokio::test]
async fn p2_ttl_change_commit_diff_loses_record() {
    let receiver = load_zone(OLD);
    let old = dump(&receiver);

    let diffs = apply_all(
        &receiver,
        vec![
            ZoneUpdate::BeginBatchDelete(soa_rec("example.com.", 1)),
            ZoneUpdate::DeleteRecord(a_rec("a.example.com.", 100, "192.0.2.10")),
            ZoneUpdate::BeginBatchAdd(soa_rec("example.com.", 2)),
            ZoneUpdate::AddRecord(a_rec("a.example.com.", 200, "192.0.2.10")),
            ZoneUpdate::Finished(soa_rec("example.com.", 2)),
        ],
    )
    .await;

    let new = dump(&receiver);
    assert!(new.contains(&(
        "a.example.com".into(),
        "A".into(),
        "192.0.2.10".into(),
        200
    )));
    let diff = diffs.last().unwrap();
    assert_eq!(
        apply_diff(&old, diff),
        new,
        "diff applied to old content must give new content"
    );
}

//------------ P3 ------------------------------------------------------------

/// IXFR query, server has no diffs and the client is flagged as needing
/// compatibility mode (one RR per message). The library's own sender then
/// produces a first message holding just the SOA, which the library's own
/// interpreter takes for the UDP "retry over TCP" signal.
#[tokio::test]
async fn p3_ixfr_fallback_one_rr_per_message_is_rejected() {
    let sender = load_zone(NEW);
    let receiver = load_zone(OLD);
    let provider = Provider {
        zone: sender.clone(),
        diffs: vec![],
        compat: true,
    };
    let msgs = serve(provider, &ixfr_req("example.com.", 1)).await;
    assert!(msgs.len() > 2);
    let res = receive(&receiver, msgs).await;
    assert!(res.is_ok(), "legal packaging rejected: {res:?}");
    assert_eq!(dump(&receiver), dump(&sender));
}

//------------ P4 ------------------------------------------------------------

/// IXFR difference sequences in the wrong order (2->3 before 1->2) are
/// accepted without complaint.
#[tokio::test]
async fn p4_reordered_ixfr_sequences_are_accepted() {
    let req = ixfr_req("example.com.", 1);
    let msg = answer_msg(
        &req,
        &[
            soa_rec("example.com.", 3),
            // 2 -> 3
            soa_rec("example.com.", 2),
            a_rec("c.example.com.", 3600, "192.0.2.30"),
            soa_rec("example.com.", 3),
            a_rec("d.example.com.", 3600, "192.0.2.40"),
            // 1 -> 2
            soa_rec("example.com.", 1),
            a_rec("b.example.com.", 3600, "192.0.2.20"),
            soa_rec("example.com.", 2),
            a_rec("c.example.com.", 3600, "192.0.2.30"),
            soa_rec("example.com.", 3),
        ],
    );
    let receiver = load_zone(OLD);
    let res = receive(&receiver, vec![msg]).await;
    assert!(res.is_err(), "reordered IXFR accepted; zone now: {:#?}", dump(&receiver));
}

/// An IXFR whose first difference sequence starts from a serial that is
/// not the serial of the zone it is applied to is accepted.
#[tokio::test]
async fn p4b_ixfr_for_wrong_base_serial_is_accepted() {
    let req = ixfr_req("example.com.", 7);
    let msg = answer_msg(
        &req,
        &[
            soa_rec("example.com.", 9),
            soa_rec("example.com.", 7),
            a_rec("b.example.com.", 3600, "192.0.2.20"),
            soa_rec("example.com.", 9),
            a_rec("d.example.com.", 3600, "192.0.2.40"),
            soa_rec("example.com.", 9),
        ],
    );
    // The zone is at serial 1.
    let receiver = load_zone(OLD);
    let res = receive(&receiver, vec![msg]).await;
    assert!(res.is_err(), "IXFR 7->9 applied to serial 1");
}

//------------ P5 ------------------------------------------------------------

/// A transfer in progress / an aborted transfer is visible to readers: a
/// name that the aborted version wanted to add answers NOERROR/NODATA
/// instead of NXDOMAIN.
#[tokio::test]
async fn p5_aborted_transfer_leaves_names_behind() {
    let zone = load_zone(OLD);
    assert_eq!(rcode(&zone, "new.example.com.", Rtype::A), Rcode::NXDOMAIN);

    let mut updater = ZoneUpdater::new(zone.clone()).await.unwrap();
    updater
        .apply(ZoneUpdate::AddRecord(a_rec(
            "new.example.com.",
            3600,
            "192.0.2.99",
        )))
        .await
        .unwrap();

    let during = rcode(&zone, "new.example.com.", Rtype::A);
    drop(updater);
    let after = rcode(&zone, "new.example.com.", Rtype::A);

    assert_eq!(
        (during, after),
        (Rcode::NXDOMAIN, Rcode::NXDOMAIN),
        "(during transfer, after rollback)"
    );
}

//------------ P6 ------------------------------------------------------------

const WITH_CUT: &str = "\
example.com. 3600 IN SOA ns.example.com. admin.example.com. 1 3600 600 86400 300
example.com. 3600 IN NS ns.example.com.
ns.example.com. 3600 IN A 192.0.2.1
sub.example.com. 3600 IN NS ns.sub.example.com.
ns.sub.example.com. 3600 IN A 192.0.2.53
www.example.com. 3600 IN CNAME ns.example.com.
";

/// IXFR applied to a zone that was loaded from a zone file: delegation
/// (NS/glue) and CNAME records live in the node's "special" slot, the
/// updater only edits the ordinary RRsets, so they cannot be deleted.
#[tokio::test]
async fn p6_ixfr_cannot_delete_delegation_or_cname_of_loaded_zone() {
    let zone = load_zone(WITH_CUT);
    apply_all(
        &zone,
        vec![
            ZoneUpdate::BeginBatchDelete(soa_rec("example.com.", 1)),
            ZoneUpdate::DeleteRecord(ns_rec(
                "sub.example.com.",
                3600,
                "ns.sub.example.com.",
            )),
            ZoneUpdate::DeleteRecord(a_rec(
                "ns.sub.example.com.",
                3600,
                "192.0.2.53",
            )),
            ZoneUpdate::DeleteRecord(cname_rec(
                "www.example.com.",
                3600,
                "ns.example.com.",
            )),
            ZoneUpdate::BeginBatchAdd(soa_rec("example.com.", 2)),
            ZoneUpdate::Finished(soa_rec("example.com.", 2)),
        ],
    )
    .await;

    let left: Vec<_> = dump(&zone)
        .into_iter()
        .filter(|(o, ..)| o.contains("sub.") || o.starts_with("www."))
        .collect();
    assert!(left.is_empty(), "records survived their deletion: {left:#?}");
}

//------------ P7 ------------------------------------------------------------

/// After an AXFR into a populated zone, a name that no longer exists
/// answers NOERROR/NODATA on the receiver but NXDOMAIN on the sender.
#[tokio::test]
async fn p7_axfr_vanished_name_is_nodata_not_nxdomain() {
    let sender = load_zone(NEW);
    let receiver = load_zone(OLD);
    let msgs = serve(sender.clone(), &axfr_req("example.com.")).await;
    receive(&receiver, msgs).await.unwrap();
    assert_eq!(
        rcode(&receiver, "b.example.com.", Rtype::A),
        rcode(&sender, "b.example.com.", Rtype::A)
    );
}

//------------ P8 ------------------------------------------------------------

const OCCLUDED: &str = "\
example.com. 3600 IN SOA ns.example.com. admin.example.com. 1 3600 600 86400 300
example.com. 3600 IN NS ns.example.com.
ns.example.com. 3600 IN A 192.0.2.1
sub.example.com. 3600 IN NS ns.example.com.
host.sub.example.com. 3600 IN A 192.0.2.77
";

/// RFC 5936 3.5: occluded names MUST be part of an AXFR. Also the glue of
/// an in-zone name server that is itself ordinary zone data is sent twice.
#[tokio::test]
async fn p8_axfr_occluded_and_duplicate_records() {
    let sender = load_zone(OCCLUDED);
    let msgs = serve(sender.clone(), &axfr_req("example.com.")).await;
    let mut seen = vec![];
    for m in &msgs {
        for r in m.answer().unwrap().limit_to::<ZoneRecordData<_, _>>() {
            let r = r.unwrap();
            seen.push(format!("{} {} {}", r.owner(), r.rtype(), r.data()));
        }
    }
    let dup = seen
        .iter()
        .filter(|s| s.starts_with("ns.example.com A"))
        .count();
    let occluded = seen
        .iter()
        .filter(|s| s.starts_with("host.sub.example.com"))
        .count();
    assert_eq!((dup, occluded), (1, 1), "(copies of ns A, copies of occluded A): {seen:#?}");
}
