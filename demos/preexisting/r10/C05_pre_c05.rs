// Confirmed behaviour of the UNMODIFIED library that violates property C05.
//
// Place as tests/pre_c05.rs and run
//
//     cargo test --offline --test pre_c05
//
// (default features). Every test below FAILS on the unmodified library;
// each assertion states what C05 expects.

use std::panic::{catch_unwind, AssertUnwindSafe};

use domain::base::charstr::CharStr;
use domain::base::iana::{
    IpseckeyAlgorithm, ZonemdAlgorithm, ZonemdScheme,
};
use domain::base::rdata::ComposeRecordData;
use domain::base::{Name, Serial};
use domain::rdata::caa::{Caa, CaaFlags, CaaTag};
use domain::rdata::ipseckey::{Ipseckey, IpseckeyGateway};
use domain::rdata::openpgpkey::Openpgpkey;
use domain::rdata::zonemd::Zonemd;
use octseq::Parser;

type VName = Name<Vec<u8>>;

/// 1. src/rdata/ipseckey.rs: `Ipseckey::new` accepts an empty key together
///    with an algorithm other than NONE. The value composes (3 octets,
///    rdlen() == 3) but `Ipseckey::parse` rejects exactly that RDATA with
///    ShortInput ("len_key == 0 && algorithm != NONE"). Writer (constructor
///    + compose) and reader disagree about which values exist.
#[test]
fn ipseckey_empty_key_with_algorithm_does_not_survive() {
    let v: Ipseckey<Vec<u8>, VName> = Ipseckey::new(
        10,
        IpseckeyAlgorithm::RSA,
        IpseckeyGateway::None,
        Vec::new(),
    );
    let mut buf = Vec::new();
    v.compose_rdata(&mut buf).unwrap();
    assert_eq!(usize::from(v.rdlen(false).unwrap()), buf.len());
    let mut p = Parser::from_ref(buf.as_slice());
    let parsed = Ipseckey::parse(&mut p);
    assert!(
        parsed.is_ok(),
        "value accepted by Ipseckey::new composes to {:?} which the parser \
         rejects: {:?}",
        buf,
        parsed.err()
    );
}

/// 2. src/rdata/zonemd.rs: same shape. `Zonemd::new` accepts any digest,
///    `Zonemd::parse` insists on at least 12 digest octets.
#[test]
fn zonemd_short_digest_does_not_survive() {
    let v = Zonemd::new(
        Serial::from(2024010101),
        ZonemdScheme::SIMPLE,
        ZonemdAlgorithm::SHA384,
        vec![0xAAu8; 4],
    );
    let mut buf = Vec::new();
    v.compose_rdata(&mut buf).unwrap();
    assert_eq!(usize::from(v.rdlen(false).unwrap()), buf.len());
    let mut p = Parser::from_ref(buf.as_slice());
    let parsed = Zonemd::parse(&mut p);
    assert!(
        parsed.is_ok(),
        "value accepted by Zonemd::new composes to {:?} which the parser \
         rejects: {:?}",
        buf,
        parsed.err()
    );
}

/// 3. src/rdata/caa.rs: `CaaTag::from_octets` / `from_slice` /
///    `check_slice` only check the character set. The documented limit of
///    255 octets ("at most 255 octets long", and the safety contract of
///    `from_octets_unchecked`) is not enforced, so a tag that cannot be
///    encoded behind a one-octet length is accepted ...
#[test]
fn caa_tag_longer_than_255_accepted() {
    let tag = CaaTag::from_octets(vec![b'a'; 300]);
    assert!(
        tag.is_err(),
        "CaaTag::from_octets accepted a 300 octet tag"
    );
}

/// ... and the CAA value built from it cannot be composed: rdlen() answers
/// 1 + 301 + value while compose_rdata panics in CharStr::compose
/// ("long charstr").
#[test]
fn caa_with_long_tag_cannot_be_composed() {
    // For comparison: the checked CharStr constructor refuses the octets.
    assert!(CharStr::from_octets(vec![b'a'; 300]).is_err());

    let tag = match CaaTag::from_octets(vec![b'a'; 300]) {
        Ok(tag) => tag,
        Err(_) => return, // fixed library: nothing left to show
    };
    let caa = Caa::new(CaaFlags::new(0), tag, b"ca.example".to_vec());
    let rdlen = caa.rdlen(false);
    let composed = catch_unwind(AssertUnwindSafe(|| {
        let mut buf = Vec::new();
        caa.compose_rdata(&mut buf).unwrap();
        buf
    }));
    match composed {
        Ok(buf) => {
            assert_eq!(rdlen.map(usize::from), Some(buf.len()));
        }
        Err(_) => panic!(
            "Caa advertised rdlen {:?} but compose_rdata panicked",
            rdlen
        ),
    }
}

/// 4. src/rdata/openpgpkey.rs (same for Tlsa::new, Sshfp::new, Zonemd::new,
///    Caa::new, Ipseckey::new): the constructor is infallible and does not
///    apply the 65,535 octet RDATA limit (other types return
///    `LongRecordData`). The resulting value has no RDLENGTH: `rdlen()`
///    panics ("long OPENPGPKEY rdata") instead of the value being refused.
#[test]
fn openpgpkey_over_the_rdata_limit() {
    let key = Openpgpkey::new(vec![0u8; 65_536]);
    let rdlen = catch_unwind(AssertUnwindSafe(|| key.rdlen(false)));
    assert!(
        rdlen.is_ok(),
        "Openpgpkey::new accepted 65,536 octets but rdlen() panics"
    );
}
