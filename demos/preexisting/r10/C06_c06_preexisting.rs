// Behaviour of the UNMODIFIED library that violates property C06.
//
// Place this file into tests/ of the repository and run
//
//     cargo test --offline --features zonefile --test c06_preexisting -- --nocapture
//
// Every test asserts the property (write in presentation format, read with
// the zone-file reader, compare), so every FAILING test is one confirmed
// violation. `control_*` tests pass and show the harness itself is sound.
//
// All records are obtained through public API only: they are parsed from
// their wire format with `Record::parse` (which is how such records enter a
// program from the network or an AXFR) and flattened to `Name<Bytes>`.
#![cfg(feature = "zonefile")]

use bytes::Bytes;
use domain::base::name::{FlattenInto, Name, ParsedName};
use domain::base::zonefile_fmt::{DisplayKind, ZonefileFmt};
use domain::base::Record;
use domain::rdata::ZoneRecordData;
use domain::zonefile::inplace::{Entry, Zonefile};
use octseq::Parser;

type Rec = Record<Name<Bytes>, ZoneRecordData<Bytes, Name<Bytes>>>;

/// Makes a record `a. <ttl 60> IN <rtype> <rdata>` from wire format.
fn from_wire(rtype: u16, rdata: &[u8]) -> Rec {
    let mut wire = b"\x01a\x00".to_vec();
    wire.extend_from_slice(&rtype.to_be_bytes());
    wire.extend_from_slice(&1u16.to_be_bytes());
    wire.extend_from_slice(&60u32.to_be_bytes());
    wire.extend_from_slice(&(rdata.len() as u16).to_be_bytes());
    wire.extend_from_slice(rdata);
    let wire = Bytes::from(wire);
    let mut parser = Parser::from_ref(&wire);
    Record::<ParsedName<Bytes>, ZoneRecordData<Bytes, ParsedName<Bytes>>>::parse(
        &mut parser,
    )
    .expect("wire format is accepted")
    .expect("record type is accepted")
    .try_flatten_into()
    .unwrap()
}

fn kind(idx: usize) -> DisplayKind {
    match idx {
        0 => DisplayKind::Simple,
        1 => DisplayKind::Tabbed,
        _ => DisplayKind::Multiline,
    }
}

fn assert_round_trip(rec: &Rec) {
    for idx in 0..3 {
        let text = format!("{}", rec.display_zonefile(kind(idx)));
        println!("written: {text:?}");
        let mut zone = Zonefile::load(&mut text.as_bytes()).unwrap();
        let entry = zone
            .next_entry()
            .unwrap_or_else(|err| panic!("reading {text:?} failed: {err}"))
            .unwrap_or_else(|| panic!("no record in {text:?}"));
        let back: Rec = match entry {
            Entry::Record(record) => record.try_flatten_into().unwrap(),
            _ => panic!("unexpected entry"),
        };
        assert_eq!(rec, &back, "text was {text:?}");
        assert_eq!(rec.ttl(), back.ttl());
        assert!(zone.next_entry().unwrap().is_none());
    }
}

fn svcb(params: &[(u16, &[u8])]) -> Rec {
    // priority 1, target "."
    let mut rdata = vec![0u8, 1, 0];
    for (key, value) in params {
        rdata.extend(key.to_be_bytes());
        rdata.extend((value.len() as u16).to_be_bytes());
        rdata.extend(*value);
    }
    from_wire(64, &rdata)
}

//------------ controls (pass) -----------------------------------------------

#[test]
fn control_txt() {
    assert_round_trip(&from_wire(16, b"\x03abc\x00\x02\"\\"));
}

#[test]
fn control_nsec3() {
    // SHA-1, flags 1, 10 iterations, salt AABB, 20 octet hash, types A RRSIG
    let mut rdata = b"\x01\x01\x00\x0a\x02\xaa\xbb\x14".to_vec();
    rdata.extend([0x5a; 20]);
    rdata.extend(b"\x00\x06\x40\x00\x00\x00\x00\x02");
    assert_round_trip(&from_wire(50, &rdata));
}

#[test]
fn control_svcb() {
    assert_round_trip(&svcb(&[
        (1, b"\x02h2\x02h3"),
        (3, b"\x01\xbb"),
        (4, b"\xc0\x00\x02\x01"),
        (667, b"hello \"world\"\\\x00\xff"),
    ]));
}

//------------ violations (fail on the unmodified library) -------------------

/// TXT record data without any character string. `Txt::parse` accepts empty
/// record data (commit 19d8022 re-allowed it on purpose). The writer emits
/// nothing behind `TXT`; `Scanner::scan_charstr_entry` /
/// `EntryScanner::convert_charstr` then fails with "unexpected end of entry".
#[test]
fn violation_txt_without_strings() {
    assert_round_trip(&from_wire(16, b""));
}

/// NSEC3 with a zero-length next hashed owner name (accepted by
/// `OwnerHash::parse`/`from_octets`). `Nsec3::fmt` writes an empty token for
/// it, so `OwnerHash::scan` consumes the first type mnemonic instead: here
/// `MINFO` is valid Base32hex and silently becomes the hash, with the type
/// dropped from the bitmap. With other first types the reader reports
/// "illegal Base 32 data", without types "unexpected end of entry".
#[test]
fn violation_nsec3_empty_next_owner_silent() {
    // hash alg 1, flags 0, iterations 0, no salt, empty hash, types MINFO MX
    assert_round_trip(&from_wire(
        50,
        b"\x01\x00\x00\x00\x00\x00\x00\x02\x00\x03",
    ));
}

#[test]
fn violation_nsec3_empty_next_owner_error() {
    // ... types A
    assert_round_trip(&from_wire(50, b"\x01\x00\x00\x00\x00\x00\x00\x01\x40"));
}

/// The value-less SVCB parameter no-default-alpn (key 2) is written as
/// `nodefaultalpn` (`NoDefaultAlpn`'s `Display`), while the reader
/// (`SvcParamKey::from_str`) only knows `no-default-alpn`:
/// "unknown SvcParamKey".
#[test]
fn violation_svcb_no_default_alpn() {
    assert_round_trip(&svcb(&[(1, b"\x02h2"), (2, b"")]));
}

/// ALPN ids are written raw (`Alpn`'s `Display`): a comma inside an id is
/// read back as two ids, a backslash is dropped, ...
#[test]
fn violation_svcb_alpn_comma() {
    assert_round_trip(&svcb(&[(1, b"\x03a,b")]));
}

#[test]
fn violation_svcb_alpn_backslash() {
    assert_round_trip(&svcb(&[(1, b"\x03a\\b")]));
}

/// ... a semicolon starts a comment, so the rest of the record is silently
/// lost (`alpn=a;b port=443` reads back as just `alpn=a`), ...
#[test]
fn violation_svcb_alpn_semicolon() {
    assert_round_trip(&svcb(&[(1, b"\x03a;b"), (3, b"\x01\xbb")]));
}

/// ... and space, double quote, parentheses or octets outside printable
/// ASCII make the text unreadable.
#[test]
fn violation_svcb_alpn_space() {
    assert_round_trip(&svcb(&[(1, b"\x03a b")]));
}

#[test]
fn violation_svcb_alpn_non_ascii() {
    assert_round_trip(&svcb(&[(1, b"\x02a\x80")]));
}

/// The same holds for dohpath values (`DohPath`'s `Display`).
#[test]
fn violation_svcb_dohpath_space() {
    assert_round_trip(&svcb(&[(7, b"/dns query")]));
}

/// An `ech` parameter with an empty value is written as bare `ech`, which
/// the reader refuses ("ech requires as value").
#[test]
fn violation_svcb_ech_empty() {
    assert_round_trip(&svcb(&[(5, b"")]));
}

/// `SvcParams::scan` checks that every key listed in `mandatory` is present;
/// `SvcParams::parse`/`from_octets` do not, so such a record is written but
/// cannot be read.
#[test]
fn violation_svcb_mandatory_lists_absent_key() {
    assert_round_trip(&svcb(&[(0, b"\x00\x03"), (1, b"\x02h2")]));
}
