// PRE-EXISTING behaviour of the UNMODIFIED library that contradicts C04 as
// stated ("equality ... of whole records ... independent of representation:
// neither depends on ASCII case or on whether a name is stored flat [or]
// compressed inside a message").
//
// Run (default features), after copying to tests/:
//   cargo test --offline --test pre2_parsed_record_eq
//
// `ParsedRecord::eq` (src/base/record.rs) compares the record header
// INCLUDING rdlen and then the raw, still-compressed RDATA octets. Two
// records of one message that are the same record (`Record::eq` says so once
// they are parsed) are `!=` as `ParsedRecord`s as soon as a name in the RDATA
// is compressed differently, or differs in ASCII case -- while the owner
// name of the very same ParsedRecord IS compared case-insensitively and
// representation-independently.
use domain::base::name::ParsedName;
use domain::base::Message;
use domain::rdata::Mx;

fn message() -> Vec<u8> {
    let mut m = vec![0, 0, 0x80, 0, 0, 0, 0, 3, 0, 0, 0, 0];
    // #1 at 12: a.example. MX 10 mail.example.   (nothing compressed)
    m.extend_from_slice(b"\x01a\x07example\x00");
    m.extend_from_slice(&[0, 15, 0, 1, 0, 0, 0, 60, 0, 16, 0, 10]);
    m.extend_from_slice(b"\x04mail\x07example\x00");
    // #2: the same record, owner and exchange compressed
    m.extend_from_slice(&[0xC0, 12]);
    m.extend_from_slice(&[0, 15, 0, 1, 0, 0, 0, 60, 0, 9, 0, 10]);
    m.extend_from_slice(b"\x04mail\xC0\x0E");
    // #3: the same record, nothing compressed, exchange in another case
    m.extend_from_slice(b"\x01A\x07EXAMPLE\x00");
    m.extend_from_slice(&[0, 15, 0, 1, 0, 0, 0, 60, 0, 16, 0, 10]);
    m.extend_from_slice(b"\x04MAIL\x07example\x00");
    m
}

fn check(i: usize, j: usize, what: &str) {
    let msg = Message::from_octets(message()).unwrap();
    let recs: Vec<_> =
        msg.answer().unwrap().map(|r| r.unwrap()).collect();
    assert_eq!(recs.len(), 3);

    // Parsed into records they are the same record.
    let full: Vec<_> = recs
        .iter()
        .map(|r| r.to_record::<Mx<ParsedName<_>>>().unwrap().unwrap())
        .collect();
    assert_eq!(full[i], full[j]);

    // Expected by C04: the ParsedRecords are equal, too.
    assert!(recs[i] == recs[j], "{}", what);
}

#[test]
fn parsed_record_eq_depends_on_compression() {
    check(0, 1, "ParsedRecord::eq depends on name compression in the RDATA");
}

#[test]
fn parsed_record_eq_depends_on_case() {
    check(0, 2, "ParsedRecord::eq depends on ASCII case in the RDATA");
}
