// Pre-existing violations of C04 in the UNMODIFIED library.
//
// Place into tests/ and run:
//   cargo test --offline -j3 --test c04_preexisting
//
// Every test asserts the behaviour the property demands, so every test
// FAILS on the unmodified library (each failure = one confirmed finding).

use core::cmp::Ordering;
use core::hash::{Hash, Hasher};
use domain::base::cmp::CanonicalOrd;
use domain::base::iana::{
    Class, Nsec3HashAlgorithm, Rtype, SecurityAlgorithm, ZonemdAlgorithm,
    ZonemdScheme,
};
use domain::base::name::Name;
use domain::base::rdata::{ComposeRecordData, UnknownRecordData};
use domain::base::record::{Record, Ttl};
use domain::base::Serial;
use domain::rdata::dnssec::{RtypeBitmap, Timestamp};
use domain::rdata::ipseckey::{Ipseckey, IpseckeyGateway};
use domain::rdata::nsec3::{Nsec3Salt, OwnerHash};
use domain::rdata::{
    AllRecordData, Nsec3, Rrsig, ZoneRecordData, Zonemd, A,
};
use std::collections::hash_map::DefaultHasher;
use std::str::FromStr;
use std::vec::Vec;

type VName = Name<Vec<u8>>;

fn h<T: Hash>(t: &T) -> u64 {
    let mut s = DefaultHasher::new();
    t.hash(&mut s);
    s.finish()
}

fn name(s: &str) -> VName {
    Name::from_str(s).unwrap()
}

fn canon<D: ComposeRecordData>(d: &D) -> Vec<u8> {
    let mut v = Vec::new();
    d.compose_canonical_rdata(&mut v).unwrap();
    v
}

fn unk(rtype: u16, data: &[u8]) -> UnknownRecordData<Vec<u8>> {
    UnknownRecordData::from_octets(Rtype::from_int(rtype), data.to_vec())
        .unwrap()
}

/// AllRecordData::eq has no arm for the Unknown and Opt variants, so a value
/// of those variants is not equal to itself (while cmp() says Equal).
#[test]
fn p1_all_record_data_unknown_not_reflexive() {
    let a: AllRecordData<Vec<u8>, VName> =
        AllRecordData::Unknown(unk(65400, b"abc"));
    let b = a.clone();
    assert_eq!(a.cmp(&b), Ordering::Equal);
    assert!(a == b, "AllRecordData::Unknown(x) != its own clone");
}

/// UnknownRecordData::eq ignores the record type; ZoneRecordData::Unknown
/// values of different types with the same octets are `==`, but hash
/// differently.
#[test]
fn p2_zone_record_data_unknown_eq_vs_hash() {
    let a: ZoneRecordData<Vec<u8>, VName> =
        ZoneRecordData::Unknown(unk(65400, b"abc"));
    let b: ZoneRecordData<Vec<u8>, VName> =
        ZoneRecordData::Unknown(unk(65401, b"abc"));
    if a == b {
        assert_eq!(h(&a), h(&b), "a == b but hash(a) != hash(b)");
    }
}

/// Same root cause: whole records of different type compare equal, yet
/// the canonical order separates them.
#[test]
fn p2b_record_unknown_eq_ignores_rtype() {
    let a = Record::new(
        name("example."),
        Class::IN,
        Ttl::from_secs(1),
        unk(65400, b"abc"),
    );
    let b = Record::new(
        name("example."),
        Class::IN,
        Ttl::from_secs(1),
        unk(65401, b"abc"),
    );
    assert_ne!(a.canonical_cmp(&b), Ordering::Equal);
    assert!(a != b, "records of different rtype compare equal");
}

/// ZoneRecordData: an Unknown variant carrying a known rtype vs the proper
/// variant: cmp() == Equal but eq() == false.
#[test]
fn p3_zone_record_data_cmp_equal_but_ne() {
    let a: ZoneRecordData<Vec<u8>, VName> =
        ZoneRecordData::Unknown(unk(1, &[192, 0, 2, 1]));
    let b: ZoneRecordData<Vec<u8>, VName> =
        ZoneRecordData::A(A::from_octets(192, 0, 2, 1));
    if a.cmp(&b) == Ordering::Equal {
        assert!(a == b, "cmp() == Equal but eq() == false");
    }
}

fn rrsig(signer: &str, exp: u32) -> Rrsig<Vec<u8>, VName> {
    Rrsig::new(
        Rtype::A,
        SecurityAlgorithm::RSASHA256,
        2,
        Ttl::from_secs(3600),
        Timestamp::from(exp),
        Timestamp::from(0),
        1,
        name(signer),
        b"sig".to_vec(),
    )
    .unwrap()
}

/// Rrsig: PartialOrd::partial_cmp and Ord::cmp disagree (signer name).
#[test]
fn p4_rrsig_partial_cmp_vs_cmp_signer() {
    let a = rrsig("b.", 10);
    let b = rrsig("aa.", 10);
    assert_eq!(a.partial_cmp(&b), Some(a.cmp(&b)));
}

/// Rrsig: PartialOrd::partial_cmp uses serial arithmetic on the timestamps
/// (non-total, non-transitive), Ord::cmp uses the integer value.
#[test]
fn p4b_rrsig_partial_cmp_vs_cmp_timestamp() {
    let a = rrsig("a.", 0);
    let b = rrsig("a.", 0x8000_0000);
    let c = rrsig("a.", 0xC000_0000);
    assert_eq!(a.partial_cmp(&b), Some(a.cmp(&b)), "a vs b");
    assert_eq!(a.partial_cmp(&c), Some(a.cmp(&c)), "a vs c");
}

fn nsec3(salt: &[u8], next: &[u8]) -> Nsec3<Vec<u8>> {
    Nsec3::new(
        Nsec3HashAlgorithm::SHA1,
        0,
        0,
        Nsec3Salt::from_octets(salt.to_vec()).unwrap(),
        OwnerHash::from_octets(next.to_vec()).unwrap(),
        RtypeBitmap::from_octets(Vec::new()).unwrap(),
    )
}

/// Nsec3: partial_cmp is lexicographic on salt / next owner, cmp is
/// length-first (canonical).
#[test]
fn p5_nsec3_partial_cmp_vs_cmp() {
    let a = nsec3(b"ab", b"x");
    let b = nsec3(b"b", b"x");
    assert_eq!(a.partial_cmp(&b), Some(a.cmp(&b)));
}

/// Zonemd: partial_cmp uses serial arithmetic, cmp the integer value.
#[test]
fn p6_zonemd_partial_cmp_vs_cmp() {
    let z = |s: u32| {
        Zonemd::new(
            Serial(s),
            ZonemdScheme::SIMPLE,
            ZonemdAlgorithm::SHA384,
            b"d".to_vec(),
        )
    };
    let a = z(1);
    let b = z(0xF000_0000);
    assert_eq!(a.partial_cmp(&b), Some(a.cmp(&b)));
    let c = z(0x8000_0001);
    assert!(a.partial_cmp(&c).is_some(), "partial_cmp returned None");
}

/// Ipseckey without a gateway cannot be hashed (todo!() in
/// IpseckeyGateway::hash).
#[test]
fn p7_ipseckey_hash_none_gateway_panics() {
    let a: Ipseckey<Vec<u8>, VName> = Ipseckey::new(
        10,
        domain::base::iana::IpseckeyAlgorithm::RSA,
        IpseckeyGateway::None,
        b"key".to_vec(),
    );
    let b = a.clone();
    assert!(a == b);
    assert_eq!(h(&a), h(&b));
}

/// Ipseckey::canonical_cmp orders a name gateway with name_cmp (right to
/// left, ignoring case) although the canonical form keeps the name as is.
#[test]
fn p8_ipseckey_canonical_cmp_vs_wire() {
    let k = |gw: &str| -> Ipseckey<Vec<u8>, VName> {
        Ipseckey::new(
            10,
            domain::base::iana::IpseckeyAlgorithm::RSA,
            IpseckeyGateway::Name(name(gw)),
            b"key".to_vec(),
        )
    };
    // label order vs wire order
    let (a, b) = (k("b."), k("aa."));
    assert_eq!(a.canonical_cmp(&b), canon(&a).cmp(&canon(&b)), "b. / aa.");
    // case
    let (a, b) = (k("A.example."), k("a.example."));
    assert_eq!(
        a.canonical_cmp(&b),
        canon(&a).cmp(&canon(&b)),
        "A.example. / a.example."
    );
}
