// Scratch tests for behaviour of the UNMODIFIED library that violates C05.
//
// Place into `tests/` (e.g. `tests/c05_preexisting.rs`) and run:
//
//     cargo test --offline -j3 --test c05_preexisting --no-fail-fast
//
// Every test asserts what the property demands; each one FAILS on the
// unmodified library (worktree HEAD e15cdb0).

use core::str::FromStr;
use domain::base::iana::{
    Class, IpseckeyAlgorithm, OptionCode, Rtype,
};
use domain::base::name::{Name, ParsedName};
use domain::base::opt::{Opt, UnknownOptData};
use domain::base::rdata::{ComposeRecordData, UnknownRecordData};
use domain::base::{Record, Ttl};
use domain::rdata::ipseckey::IpseckeyGateway;
use domain::rdata::{AllRecordData, Ipseckey, Openpgpkey, ZoneRecordData};
use octseq::array::Array;
use octseq::Parser;
use std::collections::hash_map::DefaultHasher;
use std::hash::{Hash, Hasher};

type N = Name<Vec<u8>>;

fn name(s: &str) -> N {
    Name::from_str(s).unwrap()
}

fn compose_record<D: ComposeRecordData>(data: D) -> Vec<u8> {
    let mut buf = Vec::new();
    Record::new(name("example.com."), Class::IN, Ttl::from_secs(60), data)
        .compose(&mut buf)
        .unwrap();
    buf
}

type ParsedAll<'a> = AllRecordData<&'a [u8], ParsedName<&'a [u8]>>;

fn parse_all(buf: &Vec<u8>) -> Record<ParsedName<&[u8]>, ParsedAll<'_>> {
    let mut parser = Parser::from_ref(buf);
    Record::parse(&mut parser).unwrap().unwrap()
}

//------------ 1: AllRecordData equality for Unknown and Opt -----------------

/// `AllRecordData::eq` has arms for all concrete types but none for the
/// `Unknown` and `Opt` variants (src/rdata/macros.rs, `(_, _) => false`).
/// An unknown record type parsed back from its own wire form therefore never
/// equals the original, and not even itself.
#[test]
fn all_record_data_unknown_roundtrip_is_equal() {
    let data: AllRecordData<Vec<u8>, N> = AllRecordData::Unknown(
        UnknownRecordData::from_octets(Rtype::from_int(65280), b"\x01\x02\x03".to_vec())
            .unwrap(),
    );
    let buf = compose_record(data.clone());
    let parsed = parse_all(&buf);
    assert!(matches!(parsed.data(), AllRecordData::Unknown(_)));
    // the octets did survive:
    if let AllRecordData::Unknown(inner) = parsed.data() {
        assert_eq!(inner.rtype(), Rtype::from_int(65280));
        assert_eq!(inner.data().as_ref(), b"\x01\x02\x03");
    }
    // but the values do not compare equal, not even reflexively:
    assert!(data == data, "AllRecordData::Unknown is not equal to itself");
    assert!(*parsed.data() == data, "parsed value differs from original");
}

#[test]
fn all_record_data_opt_roundtrip_is_equal() {
    let mut opt = Opt::<Vec<u8>>::empty();
    opt.push(&UnknownOptData::new(OptionCode::from_int(65001), b"xyz").unwrap())
        .unwrap();
    let data: AllRecordData<Vec<u8>, N> = AllRecordData::Opt(opt);
    let buf = compose_record(data.clone());
    let parsed = parse_all(&buf);
    assert!(matches!(parsed.data(), AllRecordData::Opt(_)));
    assert!(data == data, "AllRecordData::Opt is not equal to itself");
    assert!(*parsed.data() == data, "parsed value differs from original");
}

//------------ 2: UnknownRecordData equality ignores the record type ---------

/// `UnknownRecordData::eq` compares the data only. Two opaque records of
/// different types compare equal (so a type change in transit would go
/// unnoticed by an equality based round-trip check), and for
/// `ZoneRecordData` `Eq` and `Hash` disagree (hash includes the type).
#[test]
fn unknown_record_data_equality_respects_rtype() {
    let a = UnknownRecordData::from_octets(Rtype::from_int(65280), b"\x00\x01".to_vec()).unwrap();
    let b = UnknownRecordData::from_octets(Rtype::from_int(65281), b"\x00\x01".to_vec()).unwrap();
    let za: ZoneRecordData<Vec<u8>, N> = a.clone().into();
    let zb: ZoneRecordData<Vec<u8>, N> = b.clone().into();
    let hash = |v: &ZoneRecordData<Vec<u8>, N>| {
        let mut h = DefaultHasher::new();
        v.hash(&mut h);
        h.finish()
    };
    // Eq implies equal hashes:
    if za == zb {
        assert_eq!(hash(&za), hash(&zb), "a == b but hash(a) != hash(b)");
    }
    assert!(a != b, "TYPE65280 and TYPE65281 data compare equal");
}

//------------ 3: IPSECKEY with an algorithm but an empty key ----------------

/// `Ipseckey::new` accepts an empty public key together with a non-zero
/// algorithm, `compose_rdata` happily writes it, but `Ipseckey::parse`
/// rejects exactly that combination (ShortInput): a value that does not
/// survive compose/parse.
#[test]
fn ipseckey_empty_key_roundtrip() {
    let data: Ipseckey<Vec<u8>, N> = Ipseckey::new(
        10,
        IpseckeyAlgorithm::RSA,
        IpseckeyGateway::None,
        Vec::new(),
    );
    let mut buf = Vec::new();
    data.compose_rdata(&mut buf).unwrap();
    assert_eq!(usize::from(data.rdlen(false).unwrap()), buf.len());
    let parsed = Ipseckey::parse(&mut Parser::from_ref(buf.as_slice()));
    match parsed {
        Ok(parsed) => assert_eq!(parsed, data),
        Err(err) => panic!("composed {:02x?} does not parse back: {}", buf, err),
    }
}

//------------ 4: Opt::push length check forgets the option header -----------

/// `Opt::push_raw_option` checks `current_len + option_len <= 65535` but
/// then appends `4 + option_len` octets. The OPT RDATA can thus be pushed
/// beyond 65,535 octets; the push reports success and `rdlen()` /
/// `Record::compose` later panic with "long OPT".
#[test]
fn opt_push_keeps_rdata_within_u16() {
    let mut opt = Opt::<Vec<u8>>::empty();
    let big = vec![0u8; 65_535];
    let res = opt.push(&UnknownOptData::new(OptionCode::PADDING, big).unwrap());
    if res.is_ok() {
        assert!(
            opt.len() <= 65_535,
            "push succeeded but OPT rdata is {} octets long",
            opt.len()
        );
    }
}

/// Same defect, two moderately sized options: after the first push the
/// rdata is 32,768 octets; 32,768 + 32,767 = 65,535 passes the check, but
/// the rdata becomes 65,539 octets.
#[test]
fn opt_push_twice_keeps_rdata_within_u16() {
    let mut opt = Opt::<Vec<u8>>::empty();
    opt.push(
        &UnknownOptData::new(OptionCode::PADDING, vec![0u8; 32_764]).unwrap(),
    )
    .unwrap();
    let res = opt.push(
        &UnknownOptData::new(OptionCode::PADDING, vec![0u8; 32_767]).unwrap(),
    );
    if res.is_ok() {
        let rdlen = std::panic::catch_unwind(|| opt.rdlen(false));
        assert!(
            rdlen.is_ok(),
            "both pushes succeeded, rdata is {} octets, rdlen() panics",
            opt.len()
        );
    }
}

//------------ 5: failed Opt::push leaves half an option behind --------------

/// When the octets builder runs out of space in the middle of
/// `Opt::push_raw_option` (after code and length have been written), the
/// error is returned but the partial option stays in the OPT data. The
/// value then composes to RDATA that the library's own parser rejects.
#[test]
fn opt_failed_push_leaves_value_intact() {
    let mut opt = Opt::<Array<16>>::empty();
    opt.push(&UnknownOptData::new(OptionCode::from_int(65001), b"abcd").unwrap())
        .unwrap();
    let before = opt.len();
    // 8 used; 4 header + 12 data do not fit into the remaining 8.
    let res = opt.push(
        &UnknownOptData::new(OptionCode::from_int(65002), [7u8; 12]).unwrap(),
    );
    assert!(res.is_err());

    let mut buf = Vec::new();
    opt.compose_rdata(&mut buf).unwrap();
    assert!(
        Opt::parse(&mut Parser::from_ref(buf.as_slice())).is_ok(),
        "OPT rdata {:02x?} written after a failed push does not parse \
         (length before the failed push: {}, after: {})",
        buf,
        before,
        opt.len()
    );
    assert_eq!(opt.len(), before, "failed push changed the OPT data");
}

//------------ 6: unchecked constructors -------------------------------------

/// Several record data constructors do not check the 65,535 limit at all
/// (`Openpgpkey::new`, `Zonemd::new`, `Tlsa::new`, `Sshfp::new`, `Caa::new`,
/// `Nsec3::new`, `Ipseckey::new`, `Null`...). Such a value exists, but its
/// length cannot be advertised: `rdlen()` panics instead of the constructor
/// or the composer returning an error.
#[test]
fn openpgpkey_long_key_does_not_panic_on_compose() {
    let data = Openpgpkey::new(vec![0u8; 70_000]);
    let res = std::panic::catch_unwind(|| data.rdlen(false));
    assert!(res.is_ok(), "Openpgpkey::new accepted 70000 octets, rdlen() panics");
}

//------------ 7: UnknownSvcParam equality ignores the key -------------------

/// Same pattern as `UnknownRecordData`: `UnknownSvcParam::eq` (and therefore
/// `AllValues::Unknown`) compares the value octets only, so opaque SVCB
/// parameters with different keys compare equal.
#[test]
fn unknown_svc_param_equality_respects_key() {
    use domain::rdata::svcb::UnknownSvcParam;
    let a = UnknownSvcParam::new(65280.into(), b"hello").unwrap();
    let b = UnknownSvcParam::new(65281.into(), b"hello").unwrap();
    assert!(a != b, "key65280=hello and key65281=hello compare equal");
}

//------------ 8: SvcParamsBuilder after a failed push -----------------------

/// When `SvcParamsBuilder::push` runs out of buffer space after key and
/// length have been appended, the partial parameter stays in the internal
/// buffer. `freeze` still works (it follows the pointers), but every later
/// `push` walks the raw buffer and panics on `parse_param(..).unwrap()`.
#[test]
fn svc_params_builder_usable_after_failed_push() {
    use domain::rdata::svcb::{SvcParams, SvcParamsBuilder, UnknownSvcParam};
    let mut builder = SvcParamsBuilder::<Array<32>>::empty();
    builder
        .push(&UnknownSvcParam::new(1.into(), b"abcd").unwrap())
        .unwrap();
    // 16 octets used; key + len fit, the 20 value octets do not.
    assert!(builder
        .push(&UnknownSvcParam::new(2.into(), [0u8; 20]).unwrap())
        .is_err());
    let res = std::panic::catch_unwind(move || {
        let mut builder = builder;
        builder
            .push(&UnknownSvcParam::new(3.into(), b"x").unwrap())
            .map(|_| builder.freeze::<Vec<u8>>().unwrap())
    });
    match res {
        Ok(Ok(params)) => {
            let params: SvcParams<Vec<u8>> = params;
            assert_eq!(
                params.as_slice(),
                b"\x00\x01\x00\x04abcd\x00\x03\x00\x01x"
            );
        }
        Ok(Err(_)) => {} // refusing would be acceptable
        Err(_) => panic!("push after a failed push panics"),
    }
}
