// Pre-existing violation of C04 in the UNMODIFIED library, module
// `domain::new` (feature `unstable-new`).
//
// Place into tests/ and run:
//   cargo test --offline -j3 --features unstable-new --test c04_preexisting_new
//
// The test asserts what the property demands and FAILS on the unmodified
// library.
#![cfg(feature = "unstable-new")]

use core::cmp::Ordering;
use domain::new::base::name::{Name, RevNameBuf};
use domain::new::base::wire::ParseBytesZC;

fn name(wire: &[u8]) -> &Name {
    Name::parse_bytes_by_ref(wire).unwrap()
}

/// `new::base::name::Name::cmp` decides that one name is a suffix of the
/// other when the *octets* of the shorter name are a suffix of the octets of
/// the longer one -- also when that octet suffix does not start at a label
/// boundary (an octet of a label happens to look like a length octet).
#[test]
fn new_name_cmp_confuses_label_boundaries() {
    // "b."  vs  "a\001b."  (one label of three octets: 'a', 0x01, 'b')
    let short = name(b"\x01b\x00");
    let long = name(b"\x03a\x01b\x00");

    // RFC 4034, 6.1: compare the right-most (non-root) labels:
    // "b" > "a\001b". Both names have exactly one such label.
    assert_eq!(
        short.labels().next().unwrap().cmp(&long.labels().next().unwrap()),
        Ordering::Greater
    );
    // The reversed representation of the same names agrees with the RFC ...
    let rshort = RevNameBuf::from(domain::new::base::name::NameBuf::copy_from(short));
    let rlong = RevNameBuf::from(domain::new::base::name::NameBuf::copy_from(long));
    assert_eq!(rshort.cmp(&rlong), Ordering::Greater);
    // ... but the absolute representation does not.
    assert_eq!(short.cmp(long), Ordering::Greater, "Name::cmp");
}
