//! C19: behaviour of the UNMODIFIED library that already violates the
//! property. Every test below states the property for one concrete input and
//! FAILS on the unmodified tree (worktree HEAD 1be02a6).
//!
//! Place this file in `tests/` of the repository and run it with
//!
//!   RUST_BACKTRACE=0 cargo test --offline --features unstable-new \
//!       --test c19_preexisting
#![cfg(feature = "unstable-new")]
#![allow(clippy::type_complexity)]

use domain::base::name::{ParsedName, ToName};
use domain::base::Message as OldMessage;
use domain::rdata::AllRecordData;
use octseq::Parser;

use domain::new::base::build::{
    AsBytes, BuildInMessage, MessageBuilder, NameCompressor,
};
use domain::new::base::name::{NameBuf, RevNameBuf};
use domain::new::base::parse::{MessageParser, SplitMessageBytes};
use domain::new::base::wire::{ParseBytes, SizePrefixed, SplitBytes, U16};
use domain::new::base::{
    HeaderFlags, QClass, QType, Question, RClass, RType, Record, TTL,
};
use domain::new::rdata::{A, DName, RecordData};

//============ Helpers =======================================================

/// Writes names one after the other with the new compressor.
fn build_names(names: &[NameBuf], rev: bool) -> (Vec<u8>, Vec<usize>) {
    let mut buf = vec![0u8; 4096];
    let mut c = NameCompressor::new();
    let mut off = 0;
    let mut starts = vec![];
    for n in names {
        starts.push(off);
        off = if rev {
            RevNameBuf::from(n.clone())
                .build_in_message(&mut buf, off, &mut c)
                .unwrap()
        } else {
            n.build_in_message(&mut buf, off, &mut c).unwrap()
        };
    }
    buf.truncate(off);
    (buf, starts)
}

/// Every name written by the compressor must resolve to itself.
fn check_names(names: &[NameBuf], rev: bool) {
    let (buf, starts) = build_names(names, rev);
    for (i, (n, &s)) in names.iter().zip(&starts).enumerate() {
        let end = starts.get(i + 1).copied().unwrap_or(buf.len());
        match NameBuf::split_message_bytes(&buf, s) {
            Ok((got, e)) => {
                assert_eq!(&got, n, "rev={rev} contents={buf:?}");
                assert_eq!(e, end, "rev={rev} contents={buf:?}");
            }
            Err(_) => panic!("{n} does not resolve: rev={rev} {buf:?}"),
        }
    }
}

fn names(names: &[&str]) -> Vec<NameBuf> {
    names.iter().map(|n| n.parse().unwrap()).collect()
}

/// Reads a whole message with the established codec.
fn read_old(bytes: &[u8]) -> Result<Vec<String>, String> {
    let msg = OldMessage::from_octets(bytes).map_err(|e| e.to_string())?;
    let mut out = vec![];
    for q in msg.question() {
        let q = q.map_err(|e| format!("question: {e}"))?;
        out.push(format!("Q {} {} {}", q.qname(), q.qtype(), q.qclass()));
    }
    let mut section = Some(msg.answer().map_err(|e| format!("{e}"))?);
    while let Some(mut s) = section {
        for rr in s.by_ref() {
            let rr = rr.map_err(|e| format!("record header: {e}"))?;
            let rr = rr
                .into_record::<AllRecordData<_, _>>()
                .map_err(|e| format!("record data: {e}"))?
                .ok_or("record data: none")?;
            out.push(format!(
                "R {} {} {} {} {}",
                rr.owner(),
                rr.class(),
                rr.ttl().as_secs(),
                rr.rtype(),
                rr.data()
            ));
        }
        section = s.next_section().map_err(|e| format!("{e}"))?;
    }
    Ok(out)
}

/// Reads a whole message with the new codec.
fn read_new(bytes: &[u8]) -> Result<Vec<String>, String> {
    let mut out = vec![];
    for item in MessageParser::new(bytes).map_err(|_| "short")? {
        let item = item.map_err(|_| "new parser: item failed")?;
        out.push(format!("{item:?}"));
    }
    Ok(out)
}

fn same_verdict(what: &str, bytes: &[u8]) {
    let o = read_old(bytes);
    let n = read_new(bytes);
    assert_eq!(
        o.is_ok(),
        n.is_ok(),
        "{what}: established codec {o:?}, new codec {n:?}"
    );
}

fn msg(counts: [u16; 4], contents: &[u8]) -> Vec<u8> {
    let mut m = vec![0x12, 0x34, 0x80, 0x00];
    for c in counts {
        m.extend_from_slice(&c.to_be_bytes());
    }
    m.extend_from_slice(contents);
    m
}

fn rr(owner: &[u8], rtype: u16, rdata: &[u8]) -> Vec<u8> {
    let mut v = owner.to_vec();
    v.extend_from_slice(&rtype.to_be_bytes());
    v.extend_from_slice(&[0, 1, 0, 0, 0, 60]);
    v.extend_from_slice(&(rdata.len() as u16).to_be_bytes());
    v.extend_from_slice(rdata);
    v
}

/// `example.org. ANY IN` as question (at offset 12), followed by answers.
fn answer_msg(records: &[Vec<u8>]) -> Vec<u8> {
    let mut c = b"\x07example\x03org\x00\x00\xff\x00\x01".to_vec();
    for r in records {
        c.extend_from_slice(r);
    }
    msg([1, records.len() as u16, 0, 0], &c)
}

fn q(name: &str) -> Question<RevNameBuf> {
    Question {
        qname: name.parse().unwrap(),
        qtype: QType::A,
        qclass: QClass::IN,
    }
}

fn a(
    name: &str,
    last: u8,
) -> Record<RevNameBuf, RecordData<'static, RevNameBuf>> {
    Record {
        rname: name.parse().unwrap(),
        rtype: RType::A,
        rclass: RClass::IN,
        ttl: TTL::from(300),
        rdata: RecordData::A(A {
            octets: [192, 0, 2, last],
        }),
    }
}

//============ A. The compressor emits pointers to the wrong name ===========

/// A.1 `NameCompressor::compress_name()` / `lookup_entry_for_name()`:
/// a child entry only records the *index* of its parent entry, not the
/// offset inside the parent it was hung onto. `bar` (written for
/// `bar.example.org.`) is a child of the entry `foo.example.org` although
/// it continues at `example.org`. `bar.foo.example.org.` then matches the
/// parent completely, finds the child `bar` and is written as a bare
/// pointer to `bar.example.org.`.
#[test]
fn a1_child_entry_is_matched_below_the_wrong_suffix_name() {
    check_names(
        &names(&[
            "foo.example.org.",
            "bar.example.org.",
            "bar.foo.example.org.",
        ]),
        false,
    );
}

/// A.1 again through `compress_revname()` / `lookup_entry_for_revname()`.
#[test]
fn a1_child_entry_is_matched_below_the_wrong_suffix_revname() {
    check_names(
        &names(&[
            "foo.example.org.",
            "bar.example.org.",
            "bar.foo.example.org.",
        ]),
        true,
    );
}

/// A.2 `lookup_entry_for_name()`, branch "'entry' is a proper suffix of
/// 'name'": the octets of the entry are compared blindly with the end of
/// the name, nothing checks that the match starts on a label boundary of
/// the *name*. `x0aaa...a.org.` (label of 50 octets "x0" + 48 * 'a') ends
/// in the octets of `aaa...a.org.` (0x30 == '0' is the length octet 48).
/// The remainder `[50, 'x']` is not a sequence of labels;
/// `last_label()` runs into `unreachable!()`.
#[test]
fn a2_suffix_match_off_the_label_boundary_panics() {
    let l48 = "a".repeat(48);
    check_names(
        &names(&[&format!("{l48}.org."), &format!("x0{l48}.org.")]),
        false,
    );
}

/// A.2 without a panic: `b.org.` followed by `\000\001b.org.` (one label
/// of three octets 0x00 0x01 'b'). The second name is written as
/// `03 00 C0 0C`: a label of three octets that swallows the pointer.
#[test]
fn a2_suffix_match_off_the_label_boundary_writes_garbage() {
    let first = NameBuf::parse_bytes(b"\x01b\x03org\x00").unwrap();
    let second = NameBuf::parse_bytes(b"\x03\x00\x01b\x03org\x00").unwrap();
    check_names(&[first, second], false);
}

//============ B. Builder state after truncate / failure / reuse ============

/// B.1 `MessageBuilder::truncate()` rewinds the message but not the
/// compressor ("TODO: Reset the name compressor"). The stale entry for
/// `www.example.org` (offset 0, 16 octets) still matches the octets of the
/// new question `www.example.org.uk.`, and the owner `example.org.` of the
/// answer becomes a pointer into it: the established codec (and the new
/// one) read `example.org.uk.`.
#[test]
fn b1_truncate_leaves_stale_compressor_entries() {
    let mut buffer = vec![0u8; 512];
    let mut compressor = NameCompressor::default();
    let mut b = MessageBuilder::new(
        &mut buffer,
        &mut compressor,
        U16::new(1),
        HeaderFlags::default(),
    );
    b.push_question(&q("www.example.org.")).unwrap();
    b.push_answer(&a("www.example.org.", 1)).unwrap();
    b.truncate();
    b.header_mut().flags.set_tc(false);
    b.push_question(&q("www.example.org.uk.")).unwrap();
    b.push_answer(&a("example.org.", 2)).unwrap();
    let bytes = b.finish().as_bytes().to_vec();
    assert_eq!(
        read_old(&bytes),
        Ok(vec![
            "Q www.example.org.uk A IN".to_string(),
            "R example.org IN 300 A 192.0.2.2".to_string()
        ]),
        "{bytes:?}"
    );
}

/// B.1, the more likely outcome: the stale entry lies beyond the new end
/// of the message and the next lookup panics with "'contents' did not
/// correspond to the name compressor state".
#[test]
fn b1_truncate_then_push_panics() {
    let mut buffer = vec![0u8; 512];
    let mut compressor = NameCompressor::default();
    let mut b = MessageBuilder::new(
        &mut buffer,
        &mut compressor,
        U16::new(1),
        HeaderFlags::default(),
    );
    b.push_question(&q("www.example.org.")).unwrap();
    b.push_answer(&a("mail.example.org.", 1)).unwrap();
    b.truncate();
    b.push_question(&q("ftp.example.org.")).unwrap();
    let bytes = b.finish().as_bytes().to_vec();
    assert_eq!(
        read_old(&bytes),
        Ok(vec!["Q ftp.example.org A IN".to_string()])
    );
}

/// B.2 `MessageBuilder::new()` documents "The name compressor will be
/// reset in case it was used before" but does not ("TODO"). Second message
/// built with the same compressor: `example.org.` points into
/// `www.example.org.uk.`.
#[test]
fn b2_new_does_not_reset_a_used_compressor() {
    let mut compressor = NameCompressor::default();
    {
        let mut buffer = vec![0u8; 512];
        let mut b = MessageBuilder::new(
            &mut buffer,
            &mut compressor,
            U16::new(1),
            HeaderFlags::default(),
        );
        b.push_question(&q("www.example.org.")).unwrap();
        b.push_answer(&a("www.example.org.", 1)).unwrap();
        let _ = b.finish();
    }
    let mut buffer = vec![0u8; 512];
    let mut b = MessageBuilder::new(
        &mut buffer,
        &mut compressor,
        U16::new(2),
        HeaderFlags::default(),
    );
    b.push_question(&q("www.example.org.uk.")).unwrap();
    b.push_answer(&a("example.org.", 2)).unwrap();
    let bytes = b.finish().as_bytes().to_vec();
    assert_eq!(
        read_old(&bytes),
        Ok(vec![
            "Q www.example.org.uk A IN".to_string(),
            "R example.org IN 300 A 192.0.2.2".to_string()
        ]),
        "{bytes:?}"
    );
}

/// B.3 `MessageBuilder::push()`: when an item does not fit, the names it
/// already wrote stay registered ("TODO: Reset the name compressor in case
/// of failure"). The owner `www.example.org.` of the rejected TXT-sized
/// record stays registered at the offset where `www.example.org.uk.` is
/// written next.
#[test]
fn b3_failed_push_leaves_stale_compressor_entries() {
    // 12 header + 21 question + 2 records of 36 and 16 octets.
    let mut buffer = vec![0u8; 12 + 21 + 36 + 16];
    let mut compressor = NameCompressor::default();
    let mut b = MessageBuilder::new(
        &mut buffer,
        &mut compressor,
        U16::new(1),
        HeaderFlags::default(),
    );
    b.push_question(&q("host.example.com.")).unwrap();

    // Does not fit: 17 (owner) + 10 + 255 octets of unknown data.
    let big = [0u8; 255];
    let unknown = <&domain::new::rdata::UnknownRecordData>::parse_bytes(
        &big[..],
    )
    .unwrap();
    let rejected = b.push_answer(&Record {
        rname: "www.example.org.".parse::<RevNameBuf>().unwrap(),
        rtype: RType::from(65280),
        rclass: RClass::IN,
        ttl: TTL::from(300),
        rdata: RecordData::<RevNameBuf>::Unknown(
            RType::from(65280),
            unknown,
        ),
    });
    assert!(rejected.is_err());

    b.push_answer(&a("www.example.org.uk.", 1)).unwrap();
    b.push_answer(&a("example.org.", 2)).unwrap();
    let bytes = b.finish().as_bytes().to_vec();
    assert_eq!(
        read_old(&bytes),
        Ok(vec![
            "Q host.example.com A IN".to_string(),
            "R www.example.org.uk IN 300 A 192.0.2.1".to_string(),
            "R example.org IN 300 A 192.0.2.2".to_string()
        ]),
        "{bytes:?}"
    );
}

/// B.4 `MessageBuilder::reborrow()` copies `offset` by value. Whatever a
/// helper pushes through the reborrowed builder is counted in the (shared)
/// header and remembered by the (shared) compressor, but the original
/// builder continues at its old offset and overwrites it. (Here the next
/// push panics in the compressor; with other names the header announces a
/// question that is not there.)
#[test]
fn b4_reborrowed_builder_loses_the_offset() {
    fn add_question(mut b: MessageBuilder<'_, '_>) {
        b.push_question(&q("www.example.org.")).unwrap();
    }
    let mut buffer = vec![0u8; 512];
    let mut compressor = NameCompressor::default();
    let mut b = MessageBuilder::new(
        &mut buffer,
        &mut compressor,
        U16::new(1),
        HeaderFlags::default(),
    );
    add_question(b.reborrow());
    b.push_answer(&a("www.example.org.", 1)).unwrap();
    let bytes = b.finish().as_bytes().to_vec();
    assert_eq!(
        read_old(&bytes),
        Ok(vec![
            "Q www.example.org A IN".to_string(),
            "R www.example.org IN 300 A 192.0.2.1".to_string()
        ]),
        "{bytes:?}"
    );
}

/// B.5 `DName::build_in_message()` compresses the target, while
/// `RecordData::parse_record_data()` reads DNAME with
/// `<&DName>::parse_bytes()` (no decompression): the new codec cannot read
/// a message its own builder produced; the established codec can.
#[test]
fn b5_new_builder_compresses_dname_which_new_parser_rejects() {
    let target: NameBuf = "target.example.org.".parse().unwrap();
    let dname = <&DName>::parse_bytes(target.as_bytes()).unwrap();
    let mut buffer = vec![0u8; 512];
    let mut compressor = NameCompressor::default();
    let mut b = MessageBuilder::new(
        &mut buffer,
        &mut compressor,
        U16::new(1),
        HeaderFlags::default(),
    );
    b.push_question(&q("example.org.")).unwrap();
    b.push_answer(&Record {
        rname: "example.org.".parse::<RevNameBuf>().unwrap(),
        rtype: RType::DNAME,
        rclass: RClass::IN,
        ttl: TTL::from(60),
        rdata: RecordData::<RevNameBuf>::DName(dname),
    })
    .unwrap();
    let bytes = b.finish().as_bytes().to_vec();
    assert!(read_old(&bytes).is_ok());
    let new = read_new(&bytes);
    assert!(new.is_ok(), "new codec on its own message: {new:?} {bytes:?}");
}

//============ C. SizePrefixed ===============================================

/// C.1 `SizePrefixed::<S, T>::parse_bytes()` checks the prefix but then
/// hands the *whole* input (prefix included) to `T::parse_bytes()`;
/// `split_bytes()` on the same input is fine.
#[test]
fn c1_size_prefixed_parse_bytes_includes_the_prefix() {
    let bytes = [0u8, 4, 192, 0, 2, 1];
    let (sp, rest) =
        <SizePrefixed<U16, A>>::split_bytes(&bytes).expect("split_bytes");
    assert!(rest.is_empty());
    assert_eq!(sp.octets, [192, 0, 2, 1]);
    let sp = <SizePrefixed<U16, A>>::parse_bytes(&bytes)
        .expect("parse_bytes on the same input");
    assert_eq!(sp.octets, [192, 0, 2, 1]);
}

//============ D. Differential parsing: names ================================

fn name_verdicts(message: &[u8], pos: usize) -> (bool, bool) {
    let mut parser = Parser::from_ref(message);
    parser.advance(pos).unwrap();
    let old = ParsedName::parse(&mut parser).map(|n| n.to_vec()).is_ok();
    let new =
        NameBuf::split_message_bytes(&message[12..], pos - 12).is_ok();
    (old, new)
}

/// D.1 A pointer into the header (offset 4, the zero high octet of
/// QDCOUNT, i.e. a root label): the established codec resolves `www.`, the
/// new one rejects every pointer below 12 (`checked_sub(12)`).
#[test]
fn d1_pointer_into_the_header() {
    let m = msg([1, 0, 0, 0], b"\x03www\xC0\x04\x00\x01\x00\x01");
    let (old, new) = name_verdicts(&m, 12);
    assert_eq!(old, new, "established {old}, new {new}");
    same_verdict("question with pointer into header", &m);
}

/// D.2 A pointer that points backwards, but into the segment it belongs
/// to: label `a\000b` at offset 12, pointer at 16 to offset 14 (the zero
/// octet inside the label, a root label). The established codec only wants
/// `ptr < position of the pointer`; the new one wants `ptr < start of the
/// current segment`.
#[test]
fn d2_pointer_into_its_own_segment() {
    let m = msg([1, 0, 0, 0], b"\x03a\x00b\xC0\x0E\x00\x01\x00\x01");
    let (old, new) = name_verdicts(&m, 12);
    assert_eq!(old, new, "established {old}, new {new}");
}

//============ E. Differential parsing: records ==============================

/// E.1 Compressed names in the data of SRV, DNAME, NSEC, RRSIG: the
/// established codec decompresses them (`ParsedName`), the new one parses
/// them with `parse_bytes()` and rejects the record.
#[test]
fn e1_compressed_srv_target() {
    same_verdict(
        "SRV",
        &answer_msg(&[rr(
            b"\xC0\x0C",
            33,
            b"\x00\x01\x00\x02\x01\xBB\x03sip\xC0\x0C",
        )]),
    );
}

#[test]
fn e1_compressed_dname_target() {
    same_verdict(
        "DNAME",
        &answer_msg(&[rr(b"\xC0\x0C", 39, b"\x03foo\xC0\x0C")]),
    );
}

#[test]
fn e1_compressed_nsec_next_name() {
    same_verdict(
        "NSEC",
        &answer_msg(&[rr(b"\xC0\x0C", 47, b"\x03foo\xC0\x0C\x00\x01\x40")]),
    );
}

#[test]
fn e1_compressed_rrsig_signer() {
    let mut rd =
        vec![0, 1, 8, 2, 0, 0, 0, 60, 0, 0, 0, 2, 0, 0, 0, 1, 0, 5];
    rd.extend_from_slice(b"\xC0\x0C");
    rd.extend_from_slice(&[1, 2, 3, 4]);
    same_verdict("RRSIG", &answer_msg(&[rr(b"\xC0\x0C", 46, &rd)]));
}

/// E.2 Type bitmaps: `TypeBitmaps::validate_bytes()` rejects decreasing
/// window numbers, trailing zero octets and (for NSEC) an empty bitmap;
/// `RtypeBitmap::from_octets()` only checks the block lengths.
#[test]
fn e2_nsec_windows_out_of_order() {
    same_verdict(
        "NSEC windows 1, 0",
        &answer_msg(&[rr(
            b"\xC0\x0C",
            47,
            b"\x03foo\x07example\x03org\x00\x01\x01\x40\x00\x01\x40",
        )]),
    );
}

#[test]
fn e2_nsec_window_with_trailing_zero() {
    same_verdict(
        "NSEC window 40 00",
        &answer_msg(&[rr(
            b"\xC0\x0C",
            47,
            b"\x03foo\x07example\x03org\x00\x00\x02\x40\x00",
        )]),
    );
}

#[test]
fn e2_nsec_without_bitmap() {
    same_verdict(
        "NSEC without types",
        &answer_msg(&[rr(
            b"\xC0\x0C",
            47,
            b"\x03foo\x07example\x03org\x00",
        )]),
    );
}

/// E.3 TXT with RDLENGTH 0: accepted by the established codec, rejected
/// by `Txt::parse_bytes_by_ref()` ("at least one CharStr").
#[test]
fn e3_txt_without_strings() {
    same_verdict("empty TXT", &answer_msg(&[rr(b"\xC0\x0C", 16, b"")]));
}

/// E.4 ZONEMD with a digest shorter than 12 octets: rejected by the
/// established codec, accepted by the new one.
#[test]
fn e4_zonemd_short_digest() {
    same_verdict(
        "ZONEMD with 6 octets of digest",
        &answer_msg(&[rr(
            b"\xC0\x0C",
            63,
            &[4, 0, 61, 41, 1, 1, 0x12, 0x34, 0, 6, 0x26, 0xA0],
        )]),
    );
}
