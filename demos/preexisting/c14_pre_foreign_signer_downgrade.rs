// PRE-EXISTING WEAKNESS (unmodified library), reported for completeness: it
// is a downgrade from Bogus to Insecure/Indeterminate, not a false "Secure".
//
// Run (from the repository root, file placed in
// tests/c14_pre_foreign_signer_downgrade.rs):
//   cargo test --offline -j3 --features unstable-validator,ring,unstable-crypto-sign --test c14_pre_foreign_signer_downgrade
//
// Group::validate_with_vc (group.rs) takes the zone whose status decides the
// fate of an RRset from the signer name of the FIRST RRSIG record in the
// reply, as long as that name is a suffix of the owner name. The RRSIG is
// not verified at that point. With a trust anchor for an island of security
// (secure.example., where example. is an insecure delegation of the signed
// root, or where there is no trust anchor above the island at all) a hostile
// upstream attaches a junk RRSIG with signer name example. (or .) to a forged
// RRset for www.secure.example.: the status is taken from the insecure
// (indeterminate) ancestor and the forged RRset of the secure zone is
// reported Insecure (Indeterminate) instead of Bogus. A resolver treats
// insecure data as usable.

#![allow(dead_code, unused_imports)]
#![cfg(all(
    feature = "unstable-validator",
    feature = "ring",
    feature = "unstable-crypto-sign"
))]

use bytes::Bytes;
use domain::base::iana::{Class, DigestAlgorithm, Nsec3HashAlgorithm, Rcode};
use domain::base::name::{Name, ToName};
use domain::base::{Message, MessageBuilder, Record, Rtype, Serial, Ttl};
use domain::crypto::sign::{generate, GenerateParams, KeyPair, SignRaw};
use domain::dnssec::validator::anchor::TrustAnchors;
use domain::dnssec::common::nsec3_hash;
use domain::dnssec::validator::base::{DnskeyExt, RrsigExt};
use domain::dnssec::validator::context::{
    ValidationContext, ValidationState,
};
use domain::net::client::request::{
    ComposeRequest, Error, GetResponse, RequestMessage, SendRequest,
};
use domain::rdata::dnssec::{RtypeBitmap, Timestamp};
use domain::rdata::nsec3::{Nsec3Salt, OwnerHash};
use domain::rdata::{
    Dnskey, Ds, Nsec, Nsec3, Rrsig, Soa, ZoneRecordData, A,
};
use std::collections::HashMap;
use std::future::Future;
use std::pin::Pin;
use std::str::FromStr;
use std::sync::{Arc, Mutex};

//------------ Harness ------------------------------------------------------

type N = Name<Bytes>;
type RD = ZoneRecordData<Bytes, N>;
type RR = Record<N, RD>;

fn n(s: &str) -> N {
    N::from_str(s).unwrap()
}

fn rr(owner: &str, data: impl Into<RD>) -> RR {
    Record::new(n(owner), Class::IN, Ttl::from_secs(3600), data.into())
}

fn bitmap(types: &[Rtype]) -> RtypeBitmap<Bytes> {
    let mut b = RtypeBitmap::<Bytes>::builder();
    for t in types {
        b.add(*t).unwrap();
    }
    b.finalize()
}

fn now() -> u32 {
    Timestamp::now().into_int()
}

struct Zone {
    apex: N,
    kp: KeyPair,
    dnskey: Dnskey<Bytes>,
}

impl Zone {
    fn new(apex: &str) -> Self {
        let (sec, public) =
            generate(&GenerateParams::EcdsaP256Sha256, 257).unwrap();
        let kp = KeyPair::from_bytes(&sec, &public).unwrap();
        let dnskey = Dnskey::new(
            public.flags(),
            public.protocol(),
            public.algorithm(),
            Bytes::copy_from_slice(public.public_key().as_ref()),
        )
        .unwrap();
        Zone {
            apex: n(apex),
            kp,
            dnskey,
        }
    }

    fn dnskey_rr(&self) -> RR {
        Record::new(
            self.apex.clone(),
            Class::IN,
            Ttl::from_secs(3600),
            ZoneRecordData::Dnskey(self.dnskey.clone()),
        )
    }

    fn ds_rr(&self) -> RR {
        let digest = self
            .dnskey
            .digest(&self.apex, DigestAlgorithm::SHA256)
            .unwrap();
        Record::new(
            self.apex.clone(),
            Class::IN,
            Ttl::from_secs(3600),
            ZoneRecordData::Ds(
                Ds::new(
                    self.dnskey.key_tag(),
                    self.dnskey.algorithm(),
                    DigestAlgorithm::SHA256,
                    Bytes::copy_from_slice(digest.as_ref()),
                )
                .unwrap(),
            ),
        )
    }

    fn soa_rr(&self) -> RR {
        Record::new(
            self.apex.clone(),
            Class::IN,
            Ttl::from_secs(3600),
            ZoneRecordData::Soa(Soa::new(
                self.apex.clone(),
                self.apex.clone(),
                Serial(1),
                Ttl::from_secs(3600),
                Ttl::from_secs(3600),
                Ttl::from_secs(3600),
                Ttl::from_secs(3600),
            )),
        )
    }

    /// Build the NSEC3 chain (SHA-1, the given salt/iterations/flags) for
    /// the given names of the zone.
    fn nsec3_chain(
        &self,
        names: &[(&str, &[Rtype])],
        flags: u8,
        iterations: u16,
        salt: &[u8],
    ) -> Vec<RR> {
        let salt =
            Nsec3Salt::from_octets(Bytes::copy_from_slice(salt)).unwrap();
        let mut hashed: Vec<(OwnerHash<Vec<u8>>, &[Rtype])> = names
            .iter()
            .map(|(name, types)| {
                (
                    nsec3_hash::<_, _, Vec<u8>>(
                        n(name),
                        Nsec3HashAlgorithm::SHA1,
                        iterations,
                        &salt,
                    )
                    .unwrap(),
                    *types,
                )
            })
            .collect();
        hashed.sort_by(|a, b| a.0.as_slice().cmp(b.0.as_slice()));
        let mut res = Vec::new();
        for i in 0..hashed.len() {
            let next = &hashed[(i + 1) % hashed.len()].0;
            let owner = format!(
                "{}.{}",
                hashed[i].0,
                self.apex.fmt_with_dot()
            );
            res.push(rr(
                &owner,
                Nsec3::new(
                    Nsec3HashAlgorithm::SHA1,
                    flags,
                    iterations,
                    salt.clone(),
                    OwnerHash::from_octets(Bytes::copy_from_slice(
                        next.as_slice(),
                    ))
                    .unwrap(),
                    bitmap(hashed[i].1),
                ),
            ));
        }
        res
    }

    fn anchor(&self) -> TrustAnchors {
        let s = format!(
            "{} 3600 IN DNSKEY {}",
            self.apex.fmt_with_dot(),
            self.dnskey
        );
        TrustAnchors::from_u8(s.as_bytes()).unwrap()
    }

    /// Sign an RRset the way a zone signer does: labels is the number of
    /// labels of the owner, not counting the root and a leading "*".
    fn sign(&self, rrs: &[RR]) -> RR {
        let owner = rrs[0].owner();
        let mut labels = owner.label_count() - 1;
        if owner.first().is_wildcard() {
            labels -= 1;
        }
        self.sign_as(rrs, owner.clone(), labels as u8)
    }

    /// Produce the RRSIG record for `rrs`, with the given labels field, and
    /// attach it to `sig_owner` (the owner name used in the reply).
    fn sign_as(&self, rrs: &[RR], sig_owner: N, labels: u8) -> RR {
        let t = now();
        self.sign_full(
            rrs,
            sig_owner,
            labels,
            t.wrapping_sub(3600),
            t.wrapping_add(86400),
        )
    }

    /// Like sign_as, with explicit inception and expiration times.
    fn sign_full(
        &self,
        rrs: &[RR],
        sig_owner: N,
        labels: u8,
        inception: u32,
        expiration: u32,
    ) -> RR {
        let proto = Rrsig::<Bytes, N>::new(
            rrs[0].rtype(),
            self.kp.algorithm(),
            labels,
            Ttl::from_secs(3600),
            Timestamp::from(expiration),
            Timestamp::from(inception),
            self.dnskey.key_tag(),
            self.apex.clone(),
            Bytes::new(),
        )
        .unwrap();
        let mut buf = Vec::new();
        let mut v: Vec<RR> = rrs.to_vec();
        proto.signed_data(&mut buf, v.as_mut_slice()).unwrap();
        let sig = self.kp.sign_raw(&buf).unwrap();
        let rrsig = Rrsig::<Bytes, N>::new(
            proto.type_covered(),
            proto.algorithm(),
            proto.labels(),
            proto.original_ttl(),
            proto.expiration(),
            proto.inception(),
            proto.key_tag(),
            proto.signer_name().clone(),
            Bytes::copy_from_slice(sig.as_ref()),
        )
        .unwrap();
        Record::new(
            sig_owner,
            Class::IN,
            Ttl::from_secs(3600),
            ZoneRecordData::Rrsig(rrsig),
        )
    }
}

fn reply(
    qname: &N,
    qtype: Rtype,
    rcode: Rcode,
    answer: &[RR],
    authority: &[RR],
) -> Message<Bytes> {
    let mut b = MessageBuilder::new_vec();
    b.header_mut().set_qr(true);
    b.header_mut().set_rcode(rcode);
    let mut b = b.question();
    b.push((qname, qtype)).unwrap();
    let mut b = b.answer();
    for r in answer {
        b.push(r.clone()).unwrap();
    }
    let mut b = b.authority();
    for r in authority {
        b.push(r.clone()).unwrap();
    }
    Message::from_octets(Bytes::from(b.finish())).unwrap()
}

/// The upstream the validator uses for its DS and DNSKEY lookups.
#[derive(Clone, Default)]
struct Upstream {
    replies: Arc<Mutex<HashMap<(N, Rtype), Message<Bytes>>>>,
}

impl Upstream {
    fn set(&self, qname: &N, qtype: Rtype, answer: &[RR], authority: &[RR]) {
        self.replies.lock().unwrap().insert(
            (qname.clone(), qtype),
            reply(qname, qtype, Rcode::NOERROR, answer, authority),
        );
    }
}

#[derive(Debug)]
struct Resp(Option<Result<Message<Bytes>, Error>>);

impl GetResponse for Resp {
    fn get_response(
        &mut self,
    ) -> Pin<
        Box<
            dyn Future<Output = Result<Message<Bytes>, Error>>
                + Send
                + Sync
                + '_,
        >,
    > {
        let r = self.0.take().unwrap();
        Box::pin(std::future::ready(r))
    }
}

impl SendRequest<RequestMessage<Vec<u8>>> for Upstream {
    fn send_request(
        &self,
        req: RequestMessage<Vec<u8>>,
    ) -> Box<dyn GetResponse + Send + Sync> {
        let msg = req.to_message().unwrap();
        let q = msg.sole_question().unwrap();
        let qname: N = q.qname().to_name();
        let found = self
            .replies
            .lock()
            .unwrap()
            .get(&(qname.clone(), q.qtype()))
            .cloned();
        let r = found.unwrap_or_else(|| {
            reply(&qname, q.qtype(), Rcode::NOERROR, &[], &[])
        });
        Box::new(Resp(Some(Ok(r))))
    }
}

async fn validate(
    vc: &ValidationContext<Upstream>,
    msg: &Message<Bytes>,
) -> ValidationState {
    let mut m = msg.clone();
    let (state, _ede) = vc.validate_msg(&mut m).await.unwrap();
    state
}

//------------ The test ------------------------------------------------------

#[tokio::test]
async fn forged_rrset_in_secure_island_is_bogus() {
    let root = Zone::new(".");
    let island = Zone::new("secure.example.");
    let attacker = Zone::new("example."); // some key, not trusted by anyone
    let up = Upstream::default();

    let k = root.dnskey_rr();
    up.set(&root.apex, Rtype::DNSKEY, &[k.clone(), root.sign(&[k])], &[]);
    let k = island.dnskey_rr();
    up.set(&island.apex, Rtype::DNSKEY, &[k.clone(), island.sign(&[k])], &[]);
    // example. is an insecure delegation of the root: NSEC without DS.
    let nsec = rr(
        "example.",
        Nsec::new(n("zzz."), bitmap(&[Rtype::NS, Rtype::RRSIG, Rtype::NSEC])),
    );
    up.set(
        &n("example."),
        Rtype::DS,
        &[],
        &[nsec.clone(), root.sign(&[nsec])],
    );

    // Two trust anchors: the root and the island.
    let mut ta = root.anchor();
    ta.add_u8(
        format!(
            "{} 3600 IN DNSKEY {}",
            island.apex.fmt_with_dot(),
            island.dnskey
        )
        .as_bytes(),
    )
    .unwrap();
    let vc = ValidationContext::new(ta, up.clone());

    let www = n("www.secure.example.");
    let a = rr("www.secure.example.", A::from_octets(192, 0, 2, 1));
    let m = reply(
        &www,
        Rtype::A,
        Rcode::NOERROR,
        &[a.clone(), island.sign(&[a])],
        &[],
    );
    assert_eq!(validate(&vc, &m).await, ValidationState::Secure);

    // Forged data without signature: bogus, as it should be.
    let f = rr("www.secure.example.", A::from_octets(6, 6, 6, 6));
    let m = reply(&www, Rtype::A, Rcode::NOERROR, &[f.clone()], &[]);
    assert_eq!(validate(&vc, &m).await, ValidationState::Bogus);

    // Forged data with a junk RRSIG naming the insecure parent as signer.
    let m = reply(
        &www,
        Rtype::A,
        Rcode::NOERROR,
        &[f.clone(), attacker.sign(&[f])],
        &[],
    );
    assert_eq!(
        validate(&vc, &m).await,
        ValidationState::Bogus,
        "forged RRset below the trust anchor secure.example."
    );
}
