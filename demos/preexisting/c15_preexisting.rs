// Behaviour of the UNMODIFIED library that violates property C15.
//
// Place this file in tests/ of the repository and run it with
//
//   cargo test --offline -j3 --features unstable-client-transport \
//       --test c15_preexisting
//
// Every test asserts what the property demands; every failing test is one
// confirmed violation. (The stream transport keeps time with
// std::time::Instant, so these tests run in real time; the whole file takes
// about 25 s because of `p2_single_...`; the `control_*` tests pass and show that the
// failing tests fail for the stated reason.)

#![cfg(feature = "unstable-client-transport")]

use domain::base::iana::{Class, Rcode};
use domain::base::{Message, MessageBuilder, Name, Rtype, Serial, Ttl};
use domain::net::client::load_balancer;
use domain::net::client::request::{
    ComposeRequest, Error, RequestMessage, RequestMessageMulti,
    SendRequest, SendRequestMulti,
};
use domain::net::client::stream;
use domain::rdata::{A, Soa};
use std::str::FromStr;
use std::time::{Duration, Instant};
use tokio::io::{AsyncReadExt, AsyncWriteExt, DuplexStream};

type Conn = stream::Connection<
    RequestMessage<Vec<u8>>,
    RequestMessageMulti<Vec<u8>>,
>;

fn name(s: &str) -> Name<Vec<u8>> {
    Name::from_str(s).unwrap()
}

fn query(qname: &str, qtype: Rtype) -> Message<Vec<u8>> {
    let mut msg = MessageBuilder::new_vec();
    msg.header_mut().set_rd(true);
    let mut msg = msg.question();
    msg.push((name(qname), qtype)).unwrap();
    msg.into_message()
}

fn single(qname: &str) -> RequestMessage<Vec<u8>> {
    RequestMessage::new(query(qname, Rtype::A)).unwrap()
}

fn axfr(qname: &str) -> RequestMessageMulti<Vec<u8>> {
    RequestMessageMulti::new(query(qname, Rtype::AXFR)).unwrap()
}

async fn read_req(peer: &mut DuplexStream) -> Message<Vec<u8>> {
    let len = peer.read_u16().await.unwrap() as usize;
    let mut buf = vec![0u8; len];
    peer.read_exact(&mut buf).await.unwrap();
    Message::from_octets(buf).unwrap()
}

async fn write_msg(peer: &mut DuplexStream, msg: &[u8]) {
    peer.write_u16(msg.len() as u16).await.unwrap();
    peer.write_all(msg).await.unwrap();
    peer.flush().await.unwrap();
}

/// A well-formed NOERROR response with the given ID that does not belong to
/// any request.
fn unrelated(id: u16) -> Vec<u8> {
    let mut msg = MessageBuilder::new_vec();
    msg.header_mut().set_id(id);
    msg.header_mut().set_qr(true);
    let mut msg = msg.question();
    msg.push((name("unrelated.test."), Rtype::A)).unwrap();
    msg.finish()
}

fn answer(req: &Message<Vec<u8>>) -> Vec<u8> {
    let mut ans = MessageBuilder::new_vec()
        .start_answer(req, Rcode::NOERROR)
        .unwrap();
    let q = req.sole_question().unwrap();
    ans.push((
        q.qname(),
        Class::IN,
        Ttl::from_secs(60),
        A::from_octets(192, 0, 2, 1),
    ))
    .unwrap();
    ans.finish()
}

fn soa(serial: u32) -> Soa<Name<Vec<u8>>> {
    Soa::new(
        name("ns.example.com."),
        name("admin.example.com."),
        Serial(serial),
        Ttl::from_secs(1),
        Ttl::from_secs(1),
        Ttl::from_secs(1),
        Ttl::from_secs(1),
    )
}

fn connect(config: stream::Config) -> (Conn, DuplexStream) {
    let (client, peer) = tokio::io::duplex(1 << 16);
    let (conn, transport): (Conn, _) =
        stream::Connection::with_config(client, config);
    tokio::spawn(transport.run());
    (conn, peer)
}

//------------ Controls (these pass) ------------------------------------------

/// Control for P2 and P3: with a silent peer and no other request, a
/// streaming request does fail after the configured 300 ms.
#[tokio::test]
async fn control_streaming_timeout_works_with_silent_peer() {
    let mut config = stream::Config::new();
    config.set_streaming_response_timeout(Duration::from_millis(300));
    let (conn, mut peer) = connect(config);
    let mut req =
        SendRequestMulti::send_request(&conn, axfr("example.com."));
    let start = Instant::now();
    let fut = req.get_response();
    tokio::pin!(fut);
    let res = tokio::select! {
        res = &mut fut => Some(res),
        _ = async {
            let _ = read_req(&mut peer).await;
            tokio::time::sleep(Duration::from_secs(2)).await;
        } => None,
    };
    assert!(matches!(res, Some(Err(_))), "{res:?}");
    assert!(start.elapsed() < Duration::from_millis(900));
}

/// Control for P2: with a silent peer, a single request does fail after the
/// default 19 s.
#[tokio::test]
async fn control_single_default_timeout_works_with_silent_peer() {
    let (conn, mut peer) = connect(stream::Config::new());
    let mut req = SendRequest::send_request(&conn, single("example.com."));
    let start = Instant::now();
    let fut = req.get_response();
    tokio::pin!(fut);
    let res = tokio::select! {
        res = &mut fut => Some(res),
        _ = async {
            let _ = read_req(&mut peer).await;
            tokio::time::sleep(Duration::from_secs(22)).await;
        } => None,
    };
    assert!(matches!(res, Some(Err(_))), "{res:?}");
    assert!(start.elapsed() < Duration::from_secs(21));
}

//------------ P1 ------------------------------------------------------------

/// stream::Config::set_response_timeout() must bound a (single) request.
///
/// Observed: Transport::run() overwrites config.response_timeout with the
/// private `single_response_timeout`, which no setter ever changes, so the
/// request only fails after the 19 s default.
#[tokio::test]
async fn p1_stream_configured_response_timeout_bounds_single_request() {
    let mut config = stream::Config::new();
    config.set_response_timeout(Duration::from_millis(300));
    assert_eq!(config.response_timeout(), Duration::from_millis(300));
    let (conn, mut peer) = connect(config);

    let mut req = SendRequest::send_request(&conn, single("example.com."));
    let start = Instant::now();
    let fut = req.get_response();
    tokio::pin!(fut);
    // The peer reads the request and stays silent (and connected).
    let res = tokio::select! {
        res = &mut fut => Some(res),
        _ = async {
            let _ = read_req(&mut peer).await;
            tokio::time::sleep(Duration::from_secs(3)).await;
        } => None,
    };
    assert!(
        res.is_some(),
        "request still pending after {:?}, configured response timeout \
         is 300 ms",
        start.elapsed()
    );
}

//------------ P2 ------------------------------------------------------------

/// Unrelated responses (unknown IDs) must not postpone the timeout of a
/// single request. Default config: response timeout 19 s. The peer sends a
/// response with an unknown ID every 5 s.
///
/// Observed: demux_reply() restarts the response timer for every message
/// read from the stream, before it even looks up the ID, so the request
/// never times out while the peer keeps talking.
#[tokio::test]
async fn p2_single_request_times_out_despite_unrelated_responses() {
    let config = stream::Config::new();
    let timeout = config.response_timeout(); // 19 s
    let (conn, mut peer) = connect(config);

    let mut req = SendRequest::send_request(&conn, single("example.com."));
    let start = Instant::now();
    let fut = req.get_response();
    tokio::pin!(fut);
    let res = tokio::select! {
        res = &mut fut => Some(res),
        _ = async {
            let _ = read_req(&mut peer).await;
            for _ in 0..5 {
                tokio::time::sleep(Duration::from_secs(5)).await;
                write_msg(&mut peer, &unrelated(4711)).await;
            }
        } => None,
    };
    assert!(
        res.is_some(),
        "request still pending after {:?}, response timeout is {timeout:?}",
        start.elapsed()
    );
}

/// The same for a streaming (XFR) request, whose timeout can actually be
/// configured: 300 ms timeout, unrelated responses every 100 ms.
#[tokio::test]
async fn p2_streaming_request_times_out_despite_unrelated_responses() {
    let mut config = stream::Config::new();
    config.set_streaming_response_timeout(Duration::from_millis(300));
    let (conn, mut peer) = connect(config);

    let mut req =
        SendRequestMulti::send_request(&conn, axfr("example.com."));
    let start = Instant::now();
    let fut = req.get_response();
    tokio::pin!(fut);
    let res = tokio::select! {
        res = &mut fut => Some(res),
        _ = async {
            let _ = read_req(&mut peer).await;
            for _ in 0..20 {
                tokio::time::sleep(Duration::from_millis(100)).await;
                write_msg(&mut peer, &unrelated(4711)).await;
            }
        } => None,
    };
    assert!(
        res.is_some(),
        "request still pending after {:?}, configured streaming response \
         timeout is 300 ms",
        start.elapsed()
    );
}

//------------ P3 ------------------------------------------------------------

/// A request's timeout must not change because another request of the
/// other kind is started on the same connection. Streaming timeout 300 ms;
/// an AXFR request is pending, then a single request is started.
///
/// Observed: there is only one "response timeout currently in effect" per
/// connection; run() switches it to the timeout of the kind of the most
/// recently started request (19 s here), so the AXFR request stays pending.
#[tokio::test]
async fn p3_timeout_of_pending_request_survives_request_of_other_kind() {
    let mut config = stream::Config::new();
    config.set_streaming_response_timeout(Duration::from_millis(300));
    let (conn, mut peer) = connect(config);

    let mut xfr = SendRequestMulti::send_request(&conn, axfr("example.com."));
    let start = Instant::now();
    let xfr_fut = xfr.get_response();
    tokio::pin!(xfr_fut);

    let res = tokio::select! {
        res = &mut xfr_fut => Some(res),
        _ = async {
            let _ = read_req(&mut peer).await;
            // Now start a single request on the same connection.
            let mut req =
                SendRequest::send_request(&conn, single("www.example.com."));
            let _ = tokio::time::timeout(
                Duration::from_secs(3), req.get_response()
            ).await;
        } => None,
    };
    assert!(
        res.is_some(),
        "AXFR request still pending after {:?}, configured streaming \
         response timeout is 300 ms",
        start.elapsed()
    );
}

//------------ P4 ------------------------------------------------------------

/// Every response handed out for a request carries that request's question
/// (an XFR continuation may have an empty question section, RFC 5936 2.2).
///
/// Observed: check_stream() only compares the first response of an XFR with
/// the request; a later message with the right ID but somebody else's
/// question is handed to the caller as part of the transfer.
#[tokio::test]
async fn p4_xfr_continuation_with_foreign_question_is_rejected() {
    let (conn, mut peer) = connect(stream::Config::new());
    let mut xfr = SendRequestMulti::send_request(&conn, axfr("example.com."));

    let peer_task = tokio::spawn(async move {
        let req = read_req(&mut peer).await;
        // First message: proper start of the transfer.
        let mut ans = MessageBuilder::new_vec()
            .start_answer(&req, Rcode::NOERROR)
            .unwrap();
        ans.push((name("example.com."), Class::IN, Ttl::from_secs(60), soa(1)))
            .unwrap();
        write_msg(&mut peer, &ans.finish()).await;
        // Second message: same ID, but the answer to another question.
        let other = {
            let mut msg = MessageBuilder::new_vec();
            msg.header_mut().set_id(req.header().id());
            let mut msg = msg.question();
            msg.push((name("victim.test."), Rtype::A)).unwrap();
            msg.into_message()
        };
        write_msg(&mut peer, &answer(&other)).await;
        peer
    });

    let first = tokio::time::timeout(Duration::from_secs(5), xfr.get_response())
        .await
        .unwrap();
    assert!(matches!(first, Ok(Some(_))), "{first:?}");
    let second =
        tokio::time::timeout(Duration::from_secs(5), xfr.get_response())
            .await
            .unwrap();
    if let Ok(Some(msg)) = &second {
        let q = msg.sole_question().unwrap();
        panic!(
            "the AXFR request for example.com. was handed a response for \
             {} {}",
            q.qname(),
            q.qtype()
        );
    }
    let _peer = peer_task.await;
}

//------------ P5 ------------------------------------------------------------

/// What the load balancer hands out when no upstream is available must be a
/// response to the request (the library's own is_answer() is the oracle).
///
/// Observed: serve_fail() copies the request header and never sets QR, so
/// the "response" is a query with RCODE SERVFAIL.
#[tokio::test]
async fn p5_load_balancer_synthesized_servfail_is_a_response() {
    let (conn, transport) =
        load_balancer::Connection::<RequestMessage<Vec<u8>>>::new();
    tokio::spawn(transport.run());

    let request = single("example.com.");
    let mut req = conn.send_request(request.clone());
    let res = tokio::time::timeout(Duration::from_secs(5), req.get_response())
        .await
        .unwrap();
    match res {
        Err(Error::NoTransportAvailable) => {}
        Err(err) => panic!("unexpected error {err}"),
        Ok(msg) => {
            assert_eq!(msg.header().rcode(), Rcode::SERVFAIL);
            assert!(
                msg.header().qr() && request.is_answer(msg.for_slice()),
                "the message handed out is not a response to the request \
                 (qr = {})",
                msg.header().qr()
            );
        }
    }
}

//------------ P6 ------------------------------------------------------------

/// A request sharing the connection with an XFR must complete when its
/// answer arrives, whether or not the consumer of the XFR keeps up.
///
/// Observed: demux_reply() awaits the bounded (8) per-XFR channel from
/// within the transport's main loop; once it is full, the whole transport
/// (responses of all other requests and all timers) stands still.
#[tokio::test]
async fn p6_single_request_is_not_blocked_by_slow_xfr_consumer() {
    assert!(
        single_completes_next_to_unread_xfr(12).await,
        "the single request's answer arrived 2 s ago, the request is still \
         pending"
    );
}

/// Control for P6 (passes): few enough XFR messages to fit the channel.
#[tokio::test]
async fn control_single_request_next_to_short_unread_xfr() {
    assert!(single_completes_next_to_unread_xfr(4).await);
}

/// An XFR and a single request share a connection. The peer sends `n`
/// messages of the XFR and then the answer to the single request; the
/// caller only reads the first XFR message. Returns whether the single
/// request completes within 2 s.
async fn single_completes_next_to_unread_xfr(n: u8) -> bool {
    let (conn, mut peer) = connect(stream::Config::new());

    let mut xfr = SendRequestMulti::send_request(&conn, axfr("example.com."));
    // Polling it once puts the request on the wire.
    let (first, single_task) = {
        let fut = xfr.get_response();
        tokio::pin!(fut);
        let xfr_req = tokio::select! {
            _ = &mut fut => panic!("no response was sent yet"),
            req = read_req(&mut peer) => req,
        };
        let mut req = SendRequest::send_request(&conn, single("example.com."));
        let single_task =
            tokio::spawn(async move { req.get_response().await });
        let single_req = read_req(&mut peer).await;

        // The peer sends the beginning of a long zone, then answers the
        // single request.
        for i in 0..n {
            let mut ans = MessageBuilder::new_vec()
                .start_answer(&xfr_req, Rcode::NOERROR)
                .unwrap();
            if i == 0 {
                ans.push((
                    name("example.com."),
                    Class::IN,
                    Ttl::from_secs(60),
                    soa(1),
                ))
                .unwrap();
            }
            ans.push((
                name(&format!("h{i}.example.com.")),
                Class::IN,
                Ttl::from_secs(60),
                A::from_octets(192, 0, 2, i),
            ))
            .unwrap();
            write_msg(&mut peer, &ans.finish()).await;
        }
        write_msg(&mut peer, &answer(&single_req)).await;
        (fut.await, single_task)
    };
    assert!(matches!(first, Ok(Some(_))));

    // The XFR consumer does not read any further for now.
    let res =
        tokio::time::timeout(Duration::from_secs(2), single_task).await;
    let ok = match res {
        Ok(res) => {
            let msg = res.unwrap().expect("answer expected");
            assert_eq!(msg.header().rcode(), Rcode::NOERROR);
            true
        }
        Err(_) => false,
    };
    drop(xfr);
    drop(peer);
    ok
}
