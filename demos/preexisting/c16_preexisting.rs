// Scratch tests for behaviour of the UNMODIFIED library that already violates
// property C16. Every test asserts what the property demands; a FAILING test
// is a confirmed violation of the unmodified code.
//
// Place in tests/ as tests/c16_preexisting.rs and run
//
//   cargo test --offline -j4 --features net,unstable-server-transport,unstable-client-transport --test c16_preexisting -- --test-threads=1
//
#![cfg(all(
    feature = "net",
    feature = "unstable-server-transport",
    feature = "unstable-client-transport"
))]

use std::future::{Future, Ready, ready};
use std::io;
use std::net::SocketAddr;
use std::pin::Pin;
use std::str::FromStr;
use std::sync::{Arc, Mutex};
use std::task::{Context, Poll};
use std::time::Duration;

use domain::base::iana::Rcode;
use domain::base::{Message, MessageBuilder, Name, Rtype, ToName};
use domain::net::server::ConnectionConfig;
use domain::net::server::buf::VecBufSource;
use domain::net::server::dgram::DgramServer;
use domain::net::server::message::Request;
use domain::net::server::middleware::edns::EdnsMiddlewareSvc;
use domain::net::server::middleware::mandatory::MandatoryMiddlewareSvc;
use domain::net::server::service::{CallResult, Service, ServiceResult};
use domain::net::server::sock::AsyncAccept;
use domain::net::server::stream::{Config as StreamConfig, StreamServer};
use domain::net::server::util::{mk_builder_for_target, service_fn};
use domain::rdata::A;
use futures_util::stream::Once;
use tokio::io::{
    AsyncRead, AsyncReadExt, AsyncWrite, AsyncWriteExt, DuplexStream, ReadBuf,
};
use tokio::net::UdpSocket;
use tokio::sync::mpsc;
use tokio::time::{sleep, timeout};

//============ helpers =======================================================

struct ChanListener<S>(Mutex<mpsc::UnboundedReceiver<S>>);

impl<S> AsyncAccept for ChanListener<S> {
    type Error = io::Error;
    type StreamType = S;
    type Future = Ready<Result<S, io::Error>>;

    fn poll_accept(
        &self,
        cx: &mut Context<'_>,
    ) -> Poll<io::Result<(Self::Future, SocketAddr)>> {
        match self.0.lock().unwrap().poll_recv(cx) {
            Poll::Ready(Some(s)) => Poll::Ready(Ok((
                ready(Ok(s)),
                "127.0.0.1:5353".parse().unwrap(),
            ))),
            Poll::Ready(None) | Poll::Pending => Poll::Pending,
        }
    }
}

/// One A record; names starting with "slowNNN" take NNN milliseconds.
#[derive(Clone)]
struct SometimesSlow;

impl Service<Vec<u8>, ()> for SometimesSlow {
    type Target = Vec<u8>;
    type Stream = Once<Ready<ServiceResult<Vec<u8>>>>;
    type Future = Pin<Box<dyn Future<Output = Self::Stream> + Send>>;

    fn call(&self, req: Request<Vec<u8>, ()>) -> Self::Future {
        Box::pin(async move {
            let qname: Name<Vec<u8>> = req
                .message()
                .sole_question()
                .unwrap()
                .qname()
                .to_name();
            let s = qname.to_string();
            if let Some(rest) = s.strip_prefix("slow") {
                let ms: u64 = rest.split('.').next().unwrap().parse().unwrap();
                sleep(Duration::from_millis(ms)).await;
            }
            let res = (|| {
                let builder = mk_builder_for_target();
                let mut answer =
                    builder.start_answer(req.message(), Rcode::NOERROR)?;
                answer.push((&qname, 300, A::from_octets(192, 0, 2, 1)))?;
                Ok(CallResult::new(answer.additional()))
            })();
            futures_util::stream::once(ready(res))
        })
    }
}

fn mk_query(id: u16, name: &str, edns_size: Option<u16>) -> Vec<u8> {
    let mut msg = MessageBuilder::new_vec();
    msg.header_mut().set_id(id);
    let mut msg = msg.question();
    msg.push((Name::<Vec<u8>>::from_str(name).unwrap(), Rtype::A))
        .unwrap();
    let mut msg = msg.additional();
    if let Some(size) = edns_size {
        msg.opt(|opt| {
            opt.set_udp_payload_size(size);
            Ok(())
        })
        .unwrap();
    }
    msg.finish()
}

fn frame(msg: &[u8]) -> Vec<u8> {
    let mut v = (msg.len() as u16).to_be_bytes().to_vec();
    v.extend_from_slice(msg);
    v
}

async fn read_response<S: AsyncRead + Unpin>(
    s: &mut S,
    wait: Duration,
) -> Result<Message<Vec<u8>>, String> {
    let mut len = [0u8; 2];
    match timeout(wait, s.read_exact(&mut len)).await {
        Err(_) => return Err("timed out".into()),
        Ok(Err(e)) => return Err(format!("connection closed: {e}")),
        Ok(Ok(_)) => {}
    }
    let mut buf = vec![0u8; u16::from_be_bytes(len) as usize];
    match timeout(wait, s.read_exact(&mut buf)).await {
        Err(_) => return Err("timed out in body".into()),
        Ok(Err(e)) => return Err(format!("connection closed in body: {e}")),
        Ok(Ok(_)) => {}
    }
    Ok(Message::from_octets(buf).unwrap())
}

type Srv<S> = Arc<
    StreamServer<
        ChanListener<S>,
        VecBufSource,
        MandatoryMiddlewareSvc<Vec<u8>, SometimesSlow, ()>,
    >,
>;

fn start_stream_server<S>(
    config: StreamConfig,
) -> (Srv<S>, mpsc::UnboundedSender<S>)
where
    S: AsyncRead + AsyncWrite + Send + Sync + 'static,
{
    let (conn_tx, conn_rx) = mpsc::unbounded_channel();
    let listener = ChanListener(Mutex::new(conn_rx));
    let svc = MandatoryMiddlewareSvc::new(SometimesSlow);
    let srv = Arc::new(StreamServer::with_config(
        listener,
        VecBufSource,
        svc,
        config,
    ));
    let running = srv.clone();
    tokio::spawn(async move { running.run().await });
    (srv, conn_tx)
}

//============ P1: UDP, no EDNS, default config: limit is 1232, not 512 ======

/// Answers with `n` A records where n is the first label ("n30.example.").
fn n_records_service(
    req: Request<Vec<u8>, ()>,
    _meta: (),
) -> ServiceResult<Vec<u8>> {
    let builder = mk_builder_for_target();
    let mut answer = builder.start_answer(req.message(), Rcode::NOERROR)?;
    let qname: Name<Vec<u8>> =
        req.message().sole_question().unwrap().qname().to_name();
    let s = qname.to_string();
    let n: u8 = s[1..].split('.').next().unwrap().parse().unwrap();
    for i in 0..n {
        answer.push((&qname, 300, A::from_octets(192, 0, 2, i)))?;
    }
    let mut additional = answer.additional();
    if s.contains("bigopt") {
        // A service that adds a large EDNS option (think NSID, padding,
        // extended error text, ...).
        additional.opt(|opt| opt.padding(600))?;
    }
    Ok(CallResult::new(additional))
}

async fn udp_exchange(
    client: &UdpSocket,
    query: &[u8],
) -> Message<Vec<u8>> {
    client.send(query).await.unwrap();
    let mut buf = vec![0u8; 65535];
    let n = timeout(Duration::from_secs(2), client.recv(&mut buf))
        .await
        .expect("no response")
        .unwrap();
    buf.truncate(n);
    Message::from_octets(buf).unwrap()
}

async fn start_udp_server() -> (UdpSocket, impl Drop) {
    let svc = service_fn(n_records_service, ());
    let svc = EdnsMiddlewareSvc::new(svc);
    let svc = MandatoryMiddlewareSvc::new(svc);
    let sock = UdpSocket::bind("127.0.0.1:0").await.unwrap();
    let addr = sock.local_addr().unwrap();
    let srv = Arc::new(DgramServer::new(sock, VecBufSource, svc));
    let running = srv.clone();
    tokio::spawn(async move { running.run().await });
    let client = UdpSocket::bind("127.0.0.1:0").await.unwrap();
    client.connect(addr).await.unwrap();
    struct Stop<T>(T);
    impl<T> Drop for Stop<T> {
        fn drop(&mut self) {}
    }
    (client, Stop(srv))
}

#[tokio::test(flavor = "multi_thread", worker_threads = 2)]
async fn p1_udp_without_edns_is_limited_to_512() {
    let (client, _srv) = start_udp_server().await;
    // 30 records with uncompressed owner names: about 850 octets.
    let resp =
        udp_exchange(&client, &mk_query(7, "n30.example.", None)).await;
    assert_eq!(resp.header().id(), 7);
    assert!(
        resp.as_slice().len() <= 512,
        "request without EDNS got a {} octet UDP response (TC={})",
        resp.as_slice().len(),
        resp.header().tc()
    );
}

//============ P2: truncation keeps an arbitrarily large OPT record ==========

#[tokio::test(flavor = "multi_thread", worker_threads = 2)]
async fn p2_truncated_response_fits_the_limit() {
    let (client, _srv) = start_udp_server().await;
    let resp = udp_exchange(
        &client,
        &mk_query(8, "n30.bigopt.example.", Some(512)),
    )
    .await;
    assert_eq!(resp.header().id(), 8);
    assert!(
        resp.as_slice().len() <= 512,
        "client advertised 512 octets, got {} octets (TC={}, ancount={})",
        resp.as_slice().len(),
        resp.header().tc(),
        resp.header_counts().ancount()
    );
}

//============ P3: idle timer fires while a request is outstanding ===========

#[tokio::test(flavor = "current_thread")]
async fn p3_slow_service_response_is_delivered() {
    let mut conn = ConnectionConfig::new();
    conn.set_idle_timeout(Duration::from_millis(300));
    let mut config = StreamConfig::new();
    config.set_connection_config(conn);
    let (_srv, conn_tx) = start_stream_server::<DuplexStream>(config);

    let (mut client, server_side) = tokio::io::duplex(64 * 1024);
    conn_tx.send(server_side).unwrap();

    // The connection is NOT idle: a query is outstanding (RFC 7766 s. 3).
    client
        .write_all(&frame(&mk_query(1, "slow800.example.", None)))
        .await
        .unwrap();
    let resp = read_response(&mut client, Duration::from_secs(3)).await;
    match resp {
        Ok(resp) => assert_eq!(resp.header().id(), 1),
        Err(err) => panic!(
            "response of the slow service was never delivered: {err}"
        ),
    }
}

//============ P4: more pipelined requests than queue slots ==================

#[tokio::test(flavor = "current_thread")]
async fn p4_every_pipelined_request_is_answered() {
    p4_body().await
}

/// Same on the multi-threaded runtime (outcome varies from run to run).
#[tokio::test(flavor = "multi_thread", worker_threads = 4)]
async fn p4b_every_pipelined_request_is_answered_multi_thread() {
    p4_body().await
}

async fn p4_body() {
    // Default configuration: max_queued_responses = 10.
    let (_srv, conn_tx) =
        start_stream_server::<DuplexStream>(StreamConfig::new());
    let (mut client, server_side) = tokio::io::duplex(64 * 1024);
    conn_tx.send(server_side).unwrap();

    // 40 requests in one segment; the client reads responses eagerly.
    let mut all = Vec::new();
    for id in 0..40u16 {
        all.extend(frame(&mk_query(id, "a.example.", None)));
    }
    client.write_all(&all).await.unwrap();

    let mut seen = Vec::new();
    while let Ok(resp) =
        read_response(&mut client, Duration::from_millis(700)).await
    {
        seen.push(resp.header().id());
    }
    seen.sort();
    assert_eq!(
        seen.len(),
        40,
        "only {} of 40 pipelined requests were answered: {:?}",
        seen.len(),
        seen
    );
}

//============ P5: a runt frame discards the answer to an earlier request ====

#[tokio::test(flavor = "current_thread")]
async fn p5_runt_frame_does_not_cancel_earlier_request() {
    let (_srv, conn_tx) =
        start_stream_server::<DuplexStream>(StreamConfig::new());
    let (mut client, server_side) = tokio::io::duplex(64 * 1024);
    conn_tx.send(server_side).unwrap();

    client
        .write_all(&frame(&mk_query(1, "slow200.example.", None)))
        .await
        .unwrap();
    sleep(Duration::from_millis(50)).await;
    // A frame that is too short to be a DNS message (3 octets).
    client.write_all(&[0, 3, 1, 2, 3]).await.unwrap();

    match read_response(&mut client, Duration::from_secs(2)).await {
        Ok(resp) => assert_eq!(resp.header().id(), 1),
        Err(err) => panic!(
            "the valid request sent before the runt frame was never answered: {err}"
        ),
    }
}

//============ P6: accept loop never resumes after hitting the limit =========

#[tokio::test(flavor = "current_thread")]
async fn p6_server_accepts_again_once_below_connection_limit() {
    let mut config = StreamConfig::new();
    config.set_max_concurrent_connections(1);
    config.set_accept_connections_at_max(false);
    let (srv, conn_tx) = start_stream_server::<DuplexStream>(config);

    // Connection 1 is served.
    let (mut c1, s1) = tokio::io::duplex(64 * 1024);
    conn_tx.send(s1).unwrap();
    c1.write_all(&frame(&mk_query(1, "a.example.", None)))
        .await
        .unwrap();
    let resp = read_response(&mut c1, Duration::from_secs(2)).await.unwrap();
    assert_eq!(resp.header().id(), 1);
    assert_eq!(srv.metrics().num_connections(), 1);

    // Connection 2 arrives while at the limit: it is (legitimately) refused.
    let (mut c2, s2) = tokio::io::duplex(64 * 1024);
    conn_tx.send(s2).unwrap();
    c2.write_all(&frame(&mk_query(2, "a.example.", None)))
        .await
        .unwrap();
    assert!(
        read_response(&mut c2, Duration::from_millis(300))
            .await
            .is_err()
    );

    // Connection 1 goes away: the server is below its limit again.
    drop(c1);
    drop(c2);
    sleep(Duration::from_millis(300)).await;
    assert_eq!(srv.metrics().num_connections(), 0);

    // Connection 3 must be served.
    let (mut c3, s3) = tokio::io::duplex(64 * 1024);
    conn_tx.send(s3).unwrap();
    c3.write_all(&frame(&mk_query(3, "a.example.", None)))
        .await
        .unwrap();
    match read_response(&mut c3, Duration::from_secs(2)).await {
        Ok(resp) => assert_eq!(resp.header().id(), 3),
        Err(err) => panic!(
            "no connection is accepted any more although the server is below its limit: {err}"
        ),
    }
}

//============ P8: retry after ErrorKind::Interrupted restarts the buffer ====

/// A stream that delivers a scripted byte string, reports one
/// `ErrorKind::Interrupted` after `interrupt_at` octets, and records what is
/// written to it.
struct Scripted {
    data: Vec<u8>,
    pos: usize,
    interrupt_at: Option<usize>,
    written: Arc<Mutex<Vec<u8>>>,
}

impl AsyncRead for Scripted {
    fn poll_read(
        mut self: Pin<&mut Self>,
        _cx: &mut Context<'_>,
        buf: &mut ReadBuf<'_>,
    ) -> Poll<io::Result<()>> {
        if let Some(at) = self.interrupt_at {
            if self.pos == at {
                self.interrupt_at = None;
                return Poll::Ready(Err(io::ErrorKind::Interrupted.into()));
            }
        }
        if self.pos == self.data.len() {
            // No more data, but the client keeps the connection open.
            return Poll::Pending;
        }
        let mut end = (self.pos + buf.remaining()).min(self.data.len());
        if let Some(at) = self.interrupt_at {
            if at > self.pos {
                end = end.min(at);
            }
        }
        let pos = self.pos;
        buf.put_slice(&self.data[pos..end]);
        self.pos = end;
        Poll::Ready(Ok(()))
    }
}

impl AsyncWrite for Scripted {
    fn poll_write(
        self: Pin<&mut Self>,
        _cx: &mut Context<'_>,
        buf: &[u8],
    ) -> Poll<io::Result<usize>> {
        self.written.lock().unwrap().extend_from_slice(buf);
        Poll::Ready(Ok(buf.len()))
    }
    fn poll_flush(
        self: Pin<&mut Self>,
        _cx: &mut Context<'_>,
    ) -> Poll<io::Result<()>> {
        Poll::Ready(Ok(()))
    }
    fn poll_shutdown(
        self: Pin<&mut Self>,
        _cx: &mut Context<'_>,
    ) -> Poll<io::Result<()>> {
        Poll::Ready(Ok(()))
    }
}

async fn scripted_run(interrupt_at: Option<usize>) -> Vec<u16> {
    let (_srv, conn_tx) =
        start_stream_server::<Scripted>(StreamConfig::new());
    let mut data = frame(&mk_query(1, "a.example.", None));
    data.extend(frame(&mk_query(2, "b.example.", None)));
    let written = Arc::new(Mutex::new(Vec::new()));
    conn_tx
        .send(Scripted {
            data,
            pos: 0,
            interrupt_at,
            written: written.clone(),
        })
        .map_err(|_| ())
        .unwrap();
    sleep(Duration::from_millis(500)).await;
    let out = written.lock().unwrap().clone();
    let mut ids = Vec::new();
    let mut rest = &out[..];
    while rest.len() >= 2 {
        let len = u16::from_be_bytes([rest[0], rest[1]]) as usize;
        let msg = Message::from_octets(&rest[2..2 + len]).unwrap();
        ids.push(msg.header().id());
        rest = &rest[2 + len..];
    }
    ids.sort();
    ids
}

#[tokio::test(flavor = "current_thread")]
async fn p8_interrupted_read_does_not_lose_requests() {
    // Control: without the interruption both requests are answered.
    assert_eq!(scripted_run(None).await, [1, 2]);
    // ErrorKind::Interrupted ("might be recoverable, try again") in the
    // middle of the first message body.
    let ids = scripted_run(Some(10)).await;
    assert_eq!(
        ids,
        [1, 2],
        "after a transient Interrupted error the requests answered were {ids:?}"
    );
}
