// Behaviour of the UNMODIFIED library that violates property C09.
//
// Place this file in tests/ of the repository as tests/preexisting_c09.rs
// and run
//
//   cargo test --offline -j4 --features unstable-zonetree --test preexisting_c09
//
// Every test asserts what the property demands; every test FAILS on the
// unmodified library (each failure is one confirmed violation).
#![cfg(feature = "unstable-zonetree")]

use core::str::FromStr;
use std::sync::{Arc, Mutex};

use bytes::Bytes;
use domain::base::iana::{Class, Rcode};
use domain::base::name::Label;
use domain::base::{Name, Rtype, Serial, Ttl};
use domain::rdata::{A, Soa, ZoneRecordData};
use domain::zonetree::{
    AnswerContent, ReadableZone, Rrset, SharedRrset, Zone, ZoneBuilder,
};

fn name(s: &str) -> Name<Bytes> {
    Name::from_str(s).unwrap()
}

fn label(s: &str) -> &Label {
    Label::from_slice(s.as_bytes()).unwrap()
}

fn a(ip: &str) -> SharedRrset {
    let mut rrset = Rrset::new(Rtype::A, Ttl::from_secs(300));
    rrset.push_data(ZoneRecordData::A(A::from_str(ip).unwrap()));
    SharedRrset::new(rrset)
}

fn soa(serial: u32) -> SharedRrset {
    let mut rrset = Rrset::new(Rtype::SOA, Ttl::from_secs(3600));
    rrset.push_data(ZoneRecordData::Soa(Soa::new(
        name("ns.example.com"),
        name("admin.example.com"),
        Serial(serial),
        Ttl::from_secs(10),
        Ttl::from_secs(20),
        Ttl::from_secs(30),
        Ttl::from_secs(40),
    )));
    SharedRrset::new(rrset)
}

/// SOA, www A, and a wildcard `*.example.com A 192.0.2.42`.
fn mk_zone() -> Zone {
    let mut b = ZoneBuilder::new(name("example.com"), Class::IN);
    b.insert_rrset(&name("example.com"), soa(1)).unwrap();
    b.insert_rrset(&name("www.example.com"), a("192.0.2.1"))
        .unwrap();
    b.insert_rrset(&name("*.example.com"), a("192.0.2.42"))
        .unwrap();
    b.build()
}

/// SOA and www A only.
fn mk_plain_zone() -> Zone {
    let mut b = ZoneBuilder::new(name("example.com"), Class::IN);
    b.insert_rrset(&name("example.com"), soa(1)).unwrap();
    b.insert_rrset(&name("www.example.com"), a("192.0.2.1"))
        .unwrap();
    b.build()
}

fn query(read: &dyn ReadableZone, qname: &str, qtype: Rtype) -> String {
    let answer = read.query(name(qname), qtype).unwrap();
    match answer.content() {
        AnswerContent::Data(rrset) => rrset
            .data()
            .iter()
            .map(|d| format!("{d}"))
            .collect::<Vec<_>>()
            .join(","),
        AnswerContent::Cname(rr) => format!("CNAME {}", rr.data()),
        AnswerContent::NoData => {
            if answer.rcode() == Rcode::NXDOMAIN {
                String::from("NXDOMAIN")
            } else {
                String::from("NODATA")
            }
        }
    }
}

fn walk(read: &dyn ReadableZone) -> Vec<String> {
    let out = Arc::new(Mutex::new(Vec::new()));
    let out2 = out.clone();
    read.walk(Box::new(move |owner, rrset, _cut| {
        for data in rrset.data() {
            out2.lock().unwrap().push(format!(
                "{} {} {}",
                owner,
                rrset.rtype(),
                data
            ));
        }
    }));
    let mut res = out.lock().unwrap().clone();
    res.sort();
    res
}

// P1a. The *existence* of a tree node is not versioned. A writer that merely
// descends to a new name (WritableZoneNode::update_child) inserts the node
// into the shared child map at once. A reader that was obtained BEFORE the
// writer even started, and that got the wildcard answer for that name, gets
// NODATA for it from then on -- while the writer's change is uncommitted.
#[tokio::test]
async fn p1a_held_reader_sees_uncommitted_node_creation() {
    let zone = mk_zone();
    let held = zone.read();
    assert_eq!(query(&*held, "foo.example.com", Rtype::A), "192.0.2.42");

    let w = zone.write().await;
    let root = w.open(false).await.unwrap();
    let foo = root.update_child(label("foo")).await.unwrap();
    foo.update_rrset(a("192.0.2.7")).await.unwrap();

    // Not committed: the held reader must still get the wildcard answer.
    assert_eq!(
        query(&*held, "foo.example.com", Rtype::A),
        "192.0.2.42",
        "uncommitted node creation changed the answer of a held reader"
    );
    drop(foo);
    drop(root);
    drop(w);
}

// P1b. ... and the node stays behind when the writer is abandoned: every
// reader, old or new, gets NODATA instead of the wildcard answer forever.
#[tokio::test]
async fn p1b_abandoned_node_creation_stays_visible() {
    let zone = mk_zone();
    assert_eq!(
        query(&*zone.read(), "foo.example.com", Rtype::A),
        "192.0.2.42"
    );
    {
        let w = zone.write().await;
        let root = w.open(false).await.unwrap();
        let foo = root.update_child(label("foo")).await.unwrap();
        foo.update_rrset(a("192.0.2.7")).await.unwrap();
        drop(foo);
        drop(root);
        drop(w); // abandoned
    }
    assert_eq!(
        query(&*zone.read(), "foo.example.com", Rtype::A),
        "192.0.2.42",
        "an abandoned change is visible to a new reader"
    );
}

// P1c. The same without a wildcard: NXDOMAIN turns into NODATA for a held
// reader as soon as the writer touches the name, committed or not.
#[tokio::test]
async fn p1c_nxdomain_turns_into_nodata() {
    let zone = mk_plain_zone();
    let held = zone.read();
    assert_eq!(query(&*held, "foo.example.com", Rtype::A), "NXDOMAIN");
    {
        let w = zone.write().await;
        let root = w.open(false).await.unwrap();
        let _foo = root.update_child(label("foo")).await.unwrap();
        assert_eq!(
            query(&*held, "foo.example.com", Rtype::A),
            "NXDOMAIN",
            "held reader, writer still open"
        );
    }
}

// P2. A WritableZoneNode obtained from open() stays usable after commit()
// (with open(false); with open(true) commit() panics instead). It carries a
// private copy of the writer's version number, which commit() has meanwhile
// published: writing through it edits the published version in place, so
// held readers of that version see records change, and new readers see a
// change that was never committed.
#[tokio::test]
async fn p2_node_handle_kept_across_commit_edits_published_version() {
    let zone = mk_plain_zone();
    let mut w = zone.write().await;
    let root = w.open(false).await.unwrap();
    let www = root.update_child(label("www")).await.unwrap();
    www.update_rrset(a("192.0.2.2")).await.unwrap();
    w.commit(false).await.unwrap();

    let held = zone.read();
    let walk_before = walk(&*held);
    assert_eq!(query(&*held, "www.example.com", Rtype::A), "192.0.2.2");

    // More edits through the old handle; no commit follows.
    www.update_rrset(a("192.0.2.3")).await.unwrap();

    assert_eq!(
        query(&*held, "www.example.com", Rtype::A),
        "192.0.2.2",
        "a held reader saw an uncommitted change"
    );
    assert_eq!(walk(&*held), walk_before);
    drop(www);
    drop(root);
    drop(w);
    assert_eq!(
        query(&*zone.read(), "www.example.com", Rtype::A),
        "192.0.2.2",
        "an abandoned change is visible to a new reader"
    );
}

// P3. A WritableZoneNode also outlives its WritableZone (it is 'static and
// holds a lock-less clone of the writer). After the writer has been dropped
// -- its changes rolled back and the update lock released -- the node handle
// still writes entries for the abandoned version number. They are never
// rolled back; the next writer gets the same version number and publishes
// them with its own commit. The handle also writes while the second writer
// holds the lock, so the two writers are not serialised.
#[tokio::test]
async fn p3_node_handle_outlives_its_writer() {
    let zone = mk_plain_zone();
    let w1 = zone.write().await;
    let root1 = w1.open(false).await.unwrap();
    let www1 = root1.update_child(label("www")).await.unwrap();
    drop(w1); // writer 1 abandoned, lock released

    // Writer 2 gets the lock although a handle of writer 1 is still alive.
    let mut w2 = zone.write().await;
    let root2 = w2.open(false).await.unwrap();

    // Writer 1's handle writes while writer 2 holds the lock.
    www1.update_rrset(a("192.0.2.66")).await.unwrap();
    drop(www1);
    drop(root1);

    // Writer 2 commits without having changed anything.
    drop(root2);
    w2.commit(false).await.unwrap();

    assert_eq!(
        query(&*zone.read(), "www.example.com", Rtype::A),
        "192.0.2.1",
        "a change made through an abandoned writer was published"
    );
}

// P4. After a committed remove_all()+re-add (zone replacement) names that
// are not part of the new version keep answering NODATA instead of NXDOMAIN
// and keep blocking the wildcard: the node remains and its marker is a
// removal marker, which reads as "regular node".
#[tokio::test]
async fn p4_names_removed_by_remove_all_still_exist() {
    let zone = mk_zone();
    {
        let mut w = zone.write().await;
        let root = w.open(false).await.unwrap();
        root.remove_all().await.unwrap();
        root.update_rrset(soa(2)).await.unwrap();
        let wild = root.update_child(Label::wildcard()).await.unwrap();
        wild.update_rrset(a("192.0.2.42")).await.unwrap();
        drop(wild);
        drop(root);
        w.commit(false).await.unwrap();
    }
    let read = zone.read();
    assert_eq!(
        walk(&*read).len(),
        2,
        "the new version has the SOA and the wildcard A only"
    );
    // www is not in the new version, so the wildcard covers it.
    assert_eq!(query(&*read, "www.example.com", Rtype::A), "192.0.2.42");
}
