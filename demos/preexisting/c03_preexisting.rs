//! Pre-existing violations of property C03 in the UNMODIFIED library.
//!
//! Place in tests/ and run with
//!   cargo test --offline --test c03_preexisting
//! (default features; the serde case needs `--features serde` and is in
//! c03_preexisting_serde.rs).
//!
//! Every test asserts the behaviour the property demands, i.e. every test
//! FAILS on the unmodified library.

use domain::base::name::{
    Name, NameBuilder, ParsedName, RelativeName, ToName, ToRelativeName,
    UncertainName,
};
use octseq::array::Array;
use octseq::parse::Parser;
use std::str::FromStr;

/// Checks that `octets` is a correctly encoded relative name.
fn assert_valid_relative(octets: &[u8]) {
    assert!(octets.len() <= 254, "relative name of {} octets", octets.len());
    let mut pos = 0;
    while pos < octets.len() {
        let len = octets[pos] as usize;
        assert!((1..=63).contains(&len), "label of length {len} at {pos}");
        pos += len + 1;
    }
    assert_eq!(pos, octets.len(), "last label is cut short");
}

/// Checks that `octets` is a correctly encoded absolute name.
fn assert_valid_absolute(octets: &[u8]) {
    assert!(octets.len() <= 255, "absolute name of {} octets", octets.len());
    assert_eq!(octets.last(), Some(&0), "no root label at the end");
    assert_valid_relative(&octets[..octets.len() - 1]);
}

fn builder_250() -> NameBuilder<Vec<u8>> {
    let mut builder = NameBuilder::new_vec();
    for _ in 0..25 {
        builder.append_label(b"123456789").unwrap();
    }
    assert_eq!(builder.len(), 250);
    builder
}

/// P1: NameBuilder::append_slice / append_label forget the length octet of
/// the label they start: 250 + 1 + 4 = 255 octets relative, 256 absolute.
#[test]
fn p1_append_label_off_by_one() {
    let mut builder = builder_250();
    let res = builder.append_label(b"1234");
    let rel = builder.clone().finish();
    let abs = builder.into_name().unwrap();
    assert!(
        res.is_err() && rel.len() <= 254 && abs.len() <= 255,
        "append_label -> {res:?}, relative {} octets, absolute {} octets",
        rel.len(),
        abs.len()
    );
}

/// P2: continuing a label that already has 63 octets underflows
/// `Label::MAX_LEN - (len - head)`: panic in debug builds, a 64+ octet
/// label (length octet 0x40..) in release builds.
#[test]
fn p2_append_slice_to_full_label() {
    let mut builder = NameBuilder::new_vec();
    builder.append_slice(&[b'a'; 63]).unwrap();
    let res = std::panic::catch_unwind(move || {
        let res = builder.append_slice(b"b");
        (res, builder.finish())
    });
    match res {
        Err(_) => panic!("append_slice panicked instead of returning LongLabel"),
        Ok((res, name)) => {
            assert!(res.is_err(), "64th octet accepted");
            assert_valid_relative(name.as_slice());
        }
    }
}

/// P3a: if the octets builder runs out of space after the provisional
/// length octet was written, the builder keeps `head` set. finish() then
/// writes a zero length: a root label inside a relative name.
#[test]
fn p3a_short_buf_leaves_empty_label() {
    let mut builder = NameBuilder::<Array<5>>::new();
    builder.append_label(b"abc").unwrap();
    assert!(builder.append_slice(b"de").is_err());
    let name = builder.finish();
    assert_valid_relative(name.as_slice());
}

/// P3b: if the octets builder is full when a new label is started, `head`
/// points behind the buffer and finish() panics.
#[test]
fn p3b_short_buf_then_finish_panics() {
    let mut builder = NameBuilder::<Array<4>>::new();
    builder.append_label(b"abc").unwrap();
    assert!(builder.push(b'd').is_err());
    let res = std::panic::catch_unwind(move || builder.finish());
    assert!(res.is_ok(), "finish() panicked after a failed push");
}

/// P3c: append_name composes label by label; a ShortBuf in the middle of
/// a label leaves a length octet without its content.
#[test]
fn p3c_short_buf_in_append_name() {
    let mut builder = NameBuilder::<Array<6>>::new();
    builder.append_label(b"abc").unwrap();
    let tail = RelativeName::from_slice(b"\x02de").unwrap();
    assert!(builder.append_name(&tail).is_err());
    let name = builder.finish();
    assert_valid_relative(name.as_slice());
}

/// P4: Chain::new applies the 255 limit also if the right name is relative,
/// so a relative chain can be 255 octets (chain::test::name_limit even
/// asserts this). Flattened it is a 255 octet RelativeName and a 256 octet
/// Name.
#[test]
fn p4_relative_chain_of_255_octets() {
    let left = builder_250().finish();
    let five_rel = RelativeName::from_slice(b"\x041234").unwrap();
    let chain = match left.chain(five_rel) {
        Ok(chain) => chain,
        Err(_) => return,
    };
    let rel: RelativeName<Vec<u8>> = chain.to_relative_name();
    let rel_len = rel.len();
    let abs_len = rel.into_absolute().map(|n| n.len());
    assert!(
        rel_len <= 254,
        "relative {rel_len} octets, into_absolute -> {abs_len:?}"
    );
}

/// P5a: UncertainName::from_octets checks the relative case against 255.
#[test]
fn p5a_uncertain_from_octets_255_relative() {
    let mut octets = Vec::new();
    for _ in 0..3 {
        octets.push(63);
        octets.extend_from_slice(&[b'x'; 63]);
    }
    octets.push(62);
    octets.extend_from_slice(&[b'y'; 62]);
    assert_eq!(octets.len(), 255);
    if let Ok(name) = UncertainName::from_octets(octets) {
        assert!(name.is_relative());
        let abs = name.clone().into_absolute().unwrap();
        panic!(
            "accepted a relative name of {} octets, into_absolute gives {}",
            name.as_slice().len(),
            abs.len()
        );
    }
}

/// P5b: the empty relative name does not survive the wire round trip.
#[test]
fn p5b_uncertain_empty_wire_round_trip() {
    let empty = UncertainName::<Vec<u8>>::empty();
    let back = UncertainName::from_octets(empty.as_slice().to_vec());
    assert!(back.is_ok(), "{:?}", back.err());
}

/// P6a: an absolute UncertainName displays as `<name>.`; the root name
/// displays as "." already, so the result is ".." which cannot be read.
#[test]
fn p6a_uncertain_root_text_round_trip() {
    let root = UncertainName::<Vec<u8>>::root();
    let text = root.to_string();
    let back = UncertainName::<Vec<u8>>::from_str(&text);
    assert!(
        matches!(back, Ok(ref name) if *name == root),
        "{text:?} -> {back:?}"
    );
}

/// P6b: "." is not accepted by UncertainName::from_str at all.
#[test]
fn p6b_uncertain_root_from_str() {
    let back = UncertainName::<Vec<u8>>::from_str(".");
    assert!(back.is_ok(), "{back:?}");
}

/// P6c: ParsedName has no special case for the root name in Display.
#[test]
fn p6c_parsed_root_text_round_trip() {
    let mut parser = Parser::from_ref(b"\0".as_ref());
    let parsed = ParsedName::parse_ref(&mut parser).unwrap();
    let text = parsed.to_string();
    let back = Name::<Vec<u8>>::from_str(&text);
    assert!(
        matches!(back, Ok(ref name) if *name == parsed),
        "{text:?} -> {back:?}"
    );
}

/// P8: append_dec_u8_label pushes digit by digit; if the last digit does
/// not fit, the error is returned after two digits have been added.
#[test]
fn p8_append_dec_u8_label_is_not_atomic() {
    let mut builder = builder_250();
    builder.push(b'x').unwrap();
    assert_eq!(builder.len(), 252);
    builder.end_label();
    let before = builder.as_slice().to_vec();
    assert!(builder.append_dec_u8_label(255).is_err());
    let after = builder.finish();
    assert!(
        after.as_slice() == &before[..],
        "failed step changed the name: {} -> {} octets, now ends in {:?}",
        before.len(),
        after.len(),
        &after.as_slice()[before.len()..]
    );
}

/// Sanity: the helper accepts a valid name.
#[test]
fn helper_sanity() {
    let name = Name::<Vec<u8>>::from_str("www.example.com").unwrap();
    assert_valid_absolute(name.as_slice());
    let name: Name<Vec<u8>> = name.to_name();
    assert_valid_absolute(name.as_slice());
}
