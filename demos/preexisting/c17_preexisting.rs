// C17 probes against the UNMODIFIED library.
//
// Every test asserts what the property demands.  Tests that are not marked
// `#[ignore]` all PASS on the unmodified library (no confirmed violation of
// the arithmetic itself was found).  The tests marked
// `#[ignore = "borderline: ..."]` FAIL on the unmodified library; they probe
// how *consumers* treat the undefined (exactly 2^31 apart) case or use a
// non-RFC-1982 order, which is debatable rather than a clear-cut violation.
// See notes.md.
//
// Place in `tests/` (e.g. tests/c17_preexisting.rs).
//
// Run:
//   cargo test --offline -j3 --test c17_preexisting                 (default)
//   cargo test --offline -j3 --all-features --test c17_preexisting  (all)
//   ... -- --ignored           (to run the borderline / exhaustive ones)
//   cargo test --offline -j3 --release --test c17_preexisting -- --ignored exhaustive

use core::cmp::Ordering;

use domain::base::Serial;
use domain::rdata::dnssec::Timestamp;

const HALF: u32 = 0x8000_0000;

const BASES: &[u32] = &[
    0,
    1,
    5,
    20240922,
    0x3FFF_FFFF,
    0x7FFF_FFFE,
    0x7FFF_FFFF,
    0x8000_0000,
    0x8000_0001,
    0xDEAD_BEEF,
    0xFFFF_FFFE,
    0xFFFF_FFFF,
];

/// What RFC 1982 says about `a ? b` given d = b - a (mod 2^32).
fn expected(d: u32) -> Option<Ordering> {
    if d == 0 {
        Some(Ordering::Equal)
    } else if d < HALF {
        Some(Ordering::Less)
    } else if d == HALF {
        None
    } else {
        Some(Ordering::Greater)
    }
}

/// The differences worth looking at: everything near 0, near 2^31, near 2^32
/// plus a stride through the rest.
fn diffs() -> impl Iterator<Item = u32> {
    let near = |c: u32| (0..=64u32).flat_map(move |i| [c.wrapping_sub(i), c.wrapping_add(i)]);
    near(0)
        .chain(near(HALF))
        .chain(near(0x4000_0000))
        .chain(near(0xC000_0000))
        .chain((0..=u32::MAX).step_by(65_537))
}

fn check_cmp<T: PartialOrd + Copy + core::fmt::Debug>(
    mk: impl Fn(u32) -> T,
    base: u32,
    d: u32,
) {
    let a = mk(base);
    let b = mk(base.wrapping_add(d));
    let ab = a.partial_cmp(&b);
    let ba = b.partial_cmp(&a);
    // RFC 1982 3.2.
    assert_eq!(ab, expected(d), "{a:?} ? {b:?}");
    // Antisymmetry.
    assert_eq!(ab.map(Ordering::reverse), ba, "{a:?} / {b:?}");
    // Undefined exactly when 2^31 apart.
    assert_eq!(ab.is_none(), d == HALF);
    // Invariance under adding the same amount to both sides.
    for k in [1u32, 7, 0x4000_0000, 0x7FFF_FFFF] {
        let a2 = mk(base.wrapping_add(k));
        let b2 = mk(base.wrapping_add(d).wrapping_add(k));
        assert_eq!(a2.partial_cmp(&b2), ab, "shift {k:#x} of {a:?} ? {b:?}");
    }
}

//------------ base::Serial ----------------------------------------------------

#[test]
fn old_serial_comparison() {
    for &base in BASES {
        for d in diffs() {
            check_cmp(Serial, base, d);
        }
    }
}

#[test]
fn old_serial_addition() {
    for &base in BASES {
        for n in diffs().filter(|n| *n < HALF) {
            let s = Serial(base);
            let t = s.add(n);
            assert_eq!(t.into_int(), base.wrapping_add(n));
            if n == 0 {
                assert_eq!(t, s);
            } else {
                assert!(t > s && s < t, "{s} + {n}");
            }
        }
    }
}

#[test]
#[ignore = "exhaustive: all 2^32 differences from several bases; run with --release"]
fn exhaustive_old_serial() {
    for &base in &[0u32, 0x7FFF_FFFF, 0x8000_0000, 0xDEAD_BEEF, 0xFFFF_FFFF] {
        let a = Serial(base);
        for d in 0..=u32::MAX {
            let b = Serial(base.wrapping_add(d));
            let ab = a.partial_cmp(&b);
            assert_eq!(ab, expected(d));
            assert_eq!(b.partial_cmp(&a), ab.map(Ordering::reverse));
            if d < HALF {
                assert_eq!(a.add(d), b);
            }
        }
    }
}

//------------ rdata::dnssec::Timestamp ---------------------------------------

#[test]
fn old_timestamp_comparison() {
    for &base in BASES {
        for d in diffs() {
            check_cmp(Timestamp::from, base, d);
        }
    }
}

/// `to_system_time` maps a timestamp to the absolute time closest to the
/// reference; sorting by it must agree with RFC 1982 for timestamps that are
/// comparable with the reference and with each other.
#[test]
fn old_timestamp_to_system_time_agrees_with_serial_order() {
    use std::time::{Duration, UNIX_EPOCH};
    // References in era 1 and 2 (era 0 has the documented "not before the
    // epoch" exception).
    for ref_secs in [
        0x1_0000_0000u64,
        0x1_0000_0005,
        0x1_7FFF_FFFF,
        0x1_8000_0000,
        0x1_FFFF_FFFF,
        0x2_DEAD_BEEF,
    ] {
        let reference = UNIX_EPOCH + Duration::from_secs(ref_secs);
        let ref_ts = Timestamp::from(ref_secs as u32);
        for d in diffs() {
            let ts = Timestamp::from((ref_secs as u32).wrapping_add(d));
            let sys = ts.to_system_time(reference);
            let secs = sys.duration_since(UNIX_EPOCH).unwrap().as_secs();
            assert_eq!(secs as u32, ts.into_int());
            let delta = secs as i64 - ref_secs as i64;
            assert!(
                (-(1i64 << 31)..(1i64 << 31)).contains(&delta),
                "ts {ts} ref {ref_secs:#x}: delta {delta} does not fit an i32"
            );
            match ts.partial_cmp(&ref_ts) {
                Some(o) => assert_eq!(sys.cmp(&reference), o),
                None => assert_eq!(d, HALF),
            }
        }
    }
}

//------------ conversions into serial space ------------------------------------

#[test]
fn jiff_conversion_is_modulo_2_32() {
    for secs in [0i64, 1, 0xFFFF_FFFF, 0x1_0000_0000, 0x1_0000_0005, 0x2_8000_0000] {
        let ts = jiff::Timestamp::from_second(secs).unwrap();
        assert_eq!(Serial::from(ts), Serial(secs as u32));
    }
    let before = Serial::from(jiff::Timestamp::from_second(0xFFFF_FFF0).unwrap());
    let after = Serial::from(jiff::Timestamp::from_second(0x1_0000_0010).unwrap());
    assert!(after > before);
}

#[test]
fn timestamp_from_str_dates_are_modulo_2_32() {
    use core::str::FromStr;
    let last = Timestamp::from_str("21060207062815").unwrap();
    let first = Timestamp::from_str("21060207062816").unwrap();
    assert_eq!(last.into_int(), u32::MAX);
    assert_eq!(first.into_int(), 0);
    assert!(first > last);
}

//------------ new::base::Serial -----------------------------------------------

#[cfg(feature = "unstable-new")]
mod new_codec {
    use super::*;
    use domain::new::base::Serial as NewSerial;

    #[test]
    fn new_serial_comparison() {
        for &base in BASES {
            for d in diffs() {
                check_cmp(NewSerial::new, base, d);
            }
        }
    }

    #[test]
    fn new_serial_increment() {
        for &base in BASES {
            for n in diffs().filter(|n| *n < HALF) {
                let s = NewSerial::new(base);
                let t = s.inc(n as i32);
                assert_eq!(t.get(), base.wrapping_add(n));
                if n == 0 {
                    assert_eq!(t, s);
                } else {
                    assert!(t > s && s < t, "{s} + {n}");
                }
            }
        }
    }

    #[test]
    #[ignore = "exhaustive: all 2^32 differences from several bases; run with --release"]
    fn exhaustive_new_serial() {
        for &base in &[0u32, 0x7FFF_FFFF, 0x8000_0000, 0xDEAD_BEEF, 0xFFFF_FFFF]
        {
            let a = NewSerial::new(base);
            for d in 0..=u32::MAX {
                let b = NewSerial::new(base.wrapping_add(d));
                let ab = a.partial_cmp(&b);
                assert_eq!(ab, expected(d));
                assert_eq!(b.partial_cmp(&a), ab.map(Ordering::reverse));
                if d < HALF {
                    assert_eq!(a.inc(d as i32), b);
                }
            }
        }
    }

    /// The new codec's `Timestamp` is only reachable through
    /// `Rrsig::expiration()`.
    #[test]
    fn new_timestamp_comparison_and_conversion() {
        use domain::new::base::name::Name;
        use domain::new::base::wire::U16;
        use domain::new::base::{RType, TTL};
        use domain::new::rdata::{Rrsig, SecAlg};

        let mk = |v: u32| {
            Rrsig {
                rtype: RType::A,
                algorithm: SecAlg::RSA_SHA1,
                labels: 1,
                ttl: TTL::from(60),
                expiration: NewSerial::new(v),
                inception: NewSerial::new(0),
                keytag: U16::new(1),
                signer: Name::ROOT,
                signature: &[],
            }
            .expiration()
        };
        for &base in BASES {
            for d in diffs() {
                check_cmp(mk, base, d);
                let v = base.wrapping_add(d);
                let old: Timestamp = mk(v).into();
                assert_eq!(old.into_int(), v);
                assert_eq!(mk(v).into_int(), v);
            }
        }
    }
}

//------------ consumers: the undefined case (borderline) ----------------------

#[cfg(feature = "unstable-zonetree")]
mod consumers {
    use core::str::FromStr;

    use bytes::Bytes;
    use domain::base::{Name, Rtype, Serial, Ttl};
    use domain::rdata::Soa;
    use domain::zonetree::types::Rrset;
    use domain::zonetree::{InMemoryZoneDiffBuilder, SharedRrset};

    fn n(s: &str) -> Name<Bytes> {
        Name::from_str(s).unwrap()
    }

    fn soa(serial: u32) -> Soa<Name<Bytes>> {
        Soa::new(
            n("ns.example.com."),
            n("admin.example.com."),
            Serial(serial),
            Ttl::from_secs(600),
            Ttl::from_secs(600),
            Ttl::from_secs(3600000),
            Ttl::from_secs(604800),
        )
    }

    fn soa_rrset(serial: u32) -> SharedRrset {
        let mut rrset = Rrset::new(Rtype::SOA, Ttl::from_secs(3600));
        rrset.push_data(soa(serial).into());
        SharedRrset::new(rrset)
    }

    fn build_diff(from: u32, to: u32) -> bool {
        let mut b = InMemoryZoneDiffBuilder::new();
        b.remove(n("example.com."), Rtype::SOA, soa_rrset(from));
        b.add(n("example.com."), Rtype::SOA, soa_rrset(to));
        b.build().is_ok()
    }

    /// Passing sanity checks: forward diffs are accepted, backward ones
    /// rejected, also across the wrap.
    #[test]
    fn zone_diff_direction_across_the_wrap() {
        assert!(build_diff(1, 2));
        assert!(build_diff(0xFFFF_FFFF, 0));
        assert!(build_diff(0xFFFF_FFF0, 0x10));
        assert!(build_diff(5, 0x8000_0004));
        assert!(!build_diff(2, 1));
        assert!(!build_diff(0, 0xFFFF_FFFF));
        assert!(!build_diff(5, 0x8000_0006));
        assert!(!build_diff(7, 7));
    }

    /// A diff is "from an older to a newer version".  For serials exactly
    /// 2^31 apart neither is newer, yet the diff is accepted.
    #[test]
    #[ignore = "borderline: InMemoryZoneDiff accepts start/end exactly 2^31 apart"]
    fn zone_diff_with_undefined_direction_is_rejected() {
        assert_eq!(Serial(5).partial_cmp(&Serial(0x8000_0005)), None);
        assert!(!build_diff(5, 0x8000_0005));
    }

    /// `Soa`'s own `PartialOrd`/`Ord` order the serial field as a plain
    /// integer, so the SOA of the newer zone version sorts *before* the older
    /// one once the serial has wrapped.
    #[test]
    #[ignore = "borderline: Soa's structural PartialOrd/Ord use raw integer order for the serial"]
    fn soa_ordering_follows_serial_arithmetic() {
        let older = soa(0xFFFF_FFFF);
        let newer = soa(0);
        assert!(newer.serial() > older.serial());
        assert!(newer > older);
    }
}
