// Supplementary randomized differential harness for C12 (used while hunting
// for pre-existing violations; see notes.md). Place in tests/ and run from the
// repository root:
//
//   C12_ITERS=400 cargo test --offline --features ring,unstable-sign,unstable-validator \
//       --test c12_differential_harness -- --nocapture
//
// `known_types` PASSES on the unmodified library (400 iterations x 35 record
// types: signed octets == independent RFC 4034 construction, key tag, verify
// plain / reordered / case-changed / TTL-decremented / compressed /
// wildcard-expanded, single-field and single-bit tampering).
// `rfc4034_list_types_without_library_type` FAILS on the unmodified library
// (AFSDB, RT, PX, KX -- see c12_preexisting.rs, section 1).
#![cfg(all(
    feature = "ring",
    feature = "unstable-sign",
    feature = "unstable-validator"
))]

use std::cell::RefCell;

use domain::base::iana::{Class, SecurityAlgorithm};
use domain::base::name::{FlattenInto, Name, ParsedName};
use domain::base::{Message, Record, Rtype, Ttl};
use domain::crypto::sign::{
    generate, GenerateParams, KeyPair, SecretKeyBytes, SignError, SignRaw,
    Signature,
};
use domain::dnssec::common::parse_from_bind;
use domain::dnssec::sign::keys::SigningKey;
use domain::dnssec::sign::records::Rrset;
use domain::dnssec::sign::signatures::rrsigs::sign_rrset;
use domain::dnssec::validator::base::RrsigExt;
use domain::rdata::dnssec::Timestamp;
use domain::rdata::{Dnskey, Rrsig, ZoneRecordData};

type OName = Name<Vec<u8>>;
type ORec = Record<OName, ZoneRecordData<Vec<u8>, OName>>;

//------------ recording key ------------------------------------------------

#[derive(Debug)]
struct RecKey {
    inner: KeyPair,
    last: RefCell<Vec<u8>>,
}

impl SignRaw for RecKey {
    fn algorithm(&self) -> SecurityAlgorithm {
        self.inner.algorithm()
    }
    fn dnskey(&self) -> Dnskey<Vec<u8>> {
        self.inner.dnskey()
    }
    fn sign_raw(&self, data: &[u8]) -> Result<Signature, SignError> {
        *self.last.borrow_mut() = data.to_vec();
        self.inner.sign_raw(data)
    }
}

fn gen_key(params: GenerateParams, flags: u16) -> RecKey {
    let (sk, pk) = generate(&params, flags).unwrap();
    RecKey {
        inner: KeyPair::from_bytes(&sk, &pk).unwrap(),
        last: RefCell::new(Vec::new()),
    }
}

fn file_key(alg: u8, tag: u16) -> RecKey {
    let base = format!("test-data/dnssec-keys/Ktest.+{:03}+{:05}", alg, tag);
    let sk = SecretKeyBytes::parse_from_bind(
        &std::fs::read_to_string(format!("{base}.private")).unwrap(),
    )
    .unwrap();
    let pk = parse_from_bind::<Vec<u8>>(
        &std::fs::read_to_string(format!("{base}.key")).unwrap(),
    )
    .unwrap();
    RecKey {
        inner: KeyPair::from_bytes(&sk, pk.data()).unwrap(),
        last: RefCell::new(Vec::new()),
    }
}

//------------ rng -----------------------------------------------------------

struct Rng(u64);
impl Rng {
    fn next(&mut self) -> u64 {
        let mut x = self.0;
        x ^= x << 13;
        x ^= x >> 7;
        x ^= x << 17;
        self.0 = x;
        x
    }
    fn below(&mut self, n: usize) -> usize {
        (self.next() % (n as u64)) as usize
    }
    fn bytes(&mut self, n: usize) -> Vec<u8> {
        (0..n).map(|_| self.next() as u8).collect()
    }
    fn chance(&mut self, pct: usize) -> bool {
        self.below(100) < pct
    }
}

//------------ spec ----------------------------------------------------------

#[derive(Clone, Debug, PartialEq)]
enum F {
    B(Vec<u8>),
    /// name that RFC 4034 6.2 says must be lowercased
    NL(Vec<u8>),
    /// name that keeps its case
    NK(Vec<u8>),
}

#[derive(Clone, Debug)]
struct Set {
    owner: Vec<u8>,
    rtype: u16,
    class: u16,
    ttl: u32,
    rrs: Vec<Vec<F>>,
}

fn lower(v: &[u8]) -> Vec<u8> {
    // names only: label-aware lowercasing (length octets are < 64 so a
    // plain map would do, but do it properly)
    let mut out = Vec::new();
    let mut i = 0;
    while i < v.len() {
        let l = v[i] as usize;
        out.push(v[i]);
        for &c in &v[i + 1..i + 1 + l] {
            out.push(if c.is_ascii_uppercase() { c + 32 } else { c });
        }
        i += 1 + l;
    }
    out
}

fn flipcase(v: &[u8], rng: &mut Rng) -> Vec<u8> {
    let mut out = Vec::new();
    let mut i = 0;
    while i < v.len() {
        let l = v[i] as usize;
        out.push(v[i]);
        for &c in &v[i + 1..i + 1 + l] {
            let f = rng.chance(60);
            out.push(if f && c.is_ascii_uppercase() {
                c + 32
            } else if f && c.is_ascii_lowercase() {
                c - 32
            } else {
                c
            });
        }
        i += 1 + l;
    }
    out
}

fn wire_rdata(fs: &[F]) -> Vec<u8> {
    let mut out = Vec::new();
    for f in fs {
        match f {
            F::B(b) | F::NL(b) | F::NK(b) => out.extend_from_slice(b),
        }
    }
    out
}

fn canon_rdata(fs: &[F]) -> Vec<u8> {
    let mut out = Vec::new();
    for f in fs {
        match f {
            F::B(b) | F::NK(b) => out.extend_from_slice(b),
            F::NL(b) => out.extend_from_slice(&lower(b)),
        }
    }
    out
}

const LABEL_CHARS: &[u8] =
    b"abcxyzABCXYZ019-_*@[`{\x00\xff. \\mMzZaA";

fn gen_label(rng: &mut Rng) -> Vec<u8> {
    let n = 1 + rng.below(6);
    (0..n)
        .map(|_| LABEL_CHARS[rng.below(LABEL_CHARS.len())])
        .collect()
}

fn gen_name(rng: &mut Rng, suffix: &[u8]) -> Vec<u8> {
    let mut out = Vec::new();
    let n = rng.below(4);
    for _ in 0..n {
        let l = gen_label(rng);
        out.push(l.len() as u8);
        out.extend_from_slice(&l);
    }
    if rng.chance(60) {
        out.extend_from_slice(suffix);
    } else {
        out.push(0);
    }
    out
}

fn charstr(rng: &mut Rng) -> Vec<u8> {
    let n = rng.below(5);
    let mut v = vec![n as u8];
    for _ in 0..n {
        v.push(LABEL_CHARS[rng.below(LABEL_CHARS.len())]);
    }
    v
}

fn bitmap(rng: &mut Rng) -> Vec<u8> {
    let n = 1 + rng.below(4);
    let mut v = vec![0u8, n as u8];
    let mut b = rng.bytes(n);
    if b[n - 1] == 0 {
        b[n - 1] = 1;
    }
    v.extend_from_slice(&b);
    v
}

const TYPES: &[u16] = &[
    1, 2, 3, 4, 5, 6, 7, 8, 9, 12, 13, 14, 15, 16, 17, 28, 33, 35, 39, 43,
    44, 45, 47, 48, 50, 51, 52, 59, 60, 61, 63, 64, 65, 257, 65280,
];
// Types the RFC 4034 6.2 list names but the library has no type for.
const RFC_LIST_UNKNOWN: &[u16] = &[18, 21, 26, 36];

fn gen_rdata(rtype: u16, rng: &mut Rng, sfx: &[u8]) -> Vec<F> {
    use F::*;
    match rtype {
        1 => vec![B(rng.bytes(4))],
        2 | 3 | 4 | 5 | 7 | 8 | 9 | 12 | 39 => vec![NL(gen_name(rng, sfx))],
        6 => vec![
            NL(gen_name(rng, sfx)),
            NL(gen_name(rng, sfx)),
            B(rng.bytes(20)),
        ],
        13 => vec![B(charstr(rng)), B(charstr(rng))],
        14 | 17 => vec![NL(gen_name(rng, sfx)), NL(gen_name(rng, sfx))],
        15 | 18 | 21 | 36 => {
            vec![B(rng.bytes(2)), NL(gen_name(rng, sfx))]
        }
        26 => vec![
            B(rng.bytes(2)),
            NL(gen_name(rng, sfx)),
            NL(gen_name(rng, sfx)),
        ],
        16 => {
            let n = 1 + rng.below(3);
            let mut v = Vec::new();
            for _ in 0..n {
                v.extend_from_slice(&charstr(rng));
            }
            vec![B(v)]
        }
        28 => vec![B(rng.bytes(16))],
        33 => {
            // few distinct heads so that targets decide the order
            let mut h = vec![0, 0, 0, rng.below(2) as u8, 0, 80];
            if rng.chance(20) {
                h = rng.bytes(6);
            }
            vec![B(h), NL(gen_name(rng, sfx))]
        }
        35 => {
            let mut h = vec![0, 0, 0, rng.below(2) as u8];
            h.extend_from_slice(&charstr(rng));
            h.extend_from_slice(&charstr(rng));
            h.extend_from_slice(&charstr(rng));
            vec![B(h), NL(gen_name(rng, sfx))]
        }
        43 | 59 => {
            let mut v = rng.bytes(2);
            v.push(13);
            v.push(2);
            v.extend_from_slice(&rng.bytes(32));
            vec![B(v)]
        }
        44 => {
            let mut v = vec![1 + rng.below(4) as u8, 1 + rng.below(2) as u8];
            let n = 1 + rng.below(32);
            v.extend_from_slice(&rng.bytes(n));
            vec![B(v)]
        }
        45 => {
            let gw = rng.below(4) as u8;
            let head = vec![rng.next() as u8, gw, rng.below(3) as u8];
            let key = {
                let n = 1 + rng.below(10);
                rng.bytes(n)
            };
            match gw {
                0 => vec![B(head), B(key)],
                1 => vec![B(head), B(rng.bytes(4)), B(key)],
                2 => vec![B(head), B(rng.bytes(16)), B(key)],
                _ => vec![B(head), NK(gen_name(rng, sfx)), B(key)],
            }
        }
        47 => vec![NK(gen_name(rng, sfx)), B(bitmap(rng))],
        48 | 60 => {
            let mut v = vec![1, rng.below(2) as u8, 3, 13];
            let n = 1 + rng.below(40);
            v.extend_from_slice(&rng.bytes(n));
            vec![B(v)]
        }
        50 => {
            let mut v = vec![1, rng.below(2) as u8, 0, rng.below(3) as u8];
            let sl = rng.below(4);
            v.push(sl as u8);
            v.extend_from_slice(&rng.bytes(sl));
            v.push(20);
            v.extend_from_slice(&rng.bytes(20));
            v.extend_from_slice(&bitmap(rng));
            vec![B(v)]
        }
        51 => {
            let mut v = vec![1, 0, 0, rng.below(3) as u8];
            let sl = rng.below(4);
            v.push(sl as u8);
            v.extend_from_slice(&rng.bytes(sl));
            vec![B(v)]
        }
        52 => {
            let mut v =
                vec![rng.below(4) as u8, rng.below(2) as u8, rng.below(3) as u8];
            let n = 1 + rng.below(32);
            v.extend_from_slice(&rng.bytes(n));
            vec![B(v)]
        }
        61 => {
            let n = 1 + rng.below(32);
            vec![B(rng.bytes(n))]
        }
        63 => {
            let mut v = rng.bytes(4);
            v.push(1);
            v.push(1);
            v.extend_from_slice(&rng.bytes(48));
            vec![B(v)]
        }
        64 | 65 => {
            let prio = vec![0, rng.below(3) as u8];
            let mut params = Vec::new();
            if prio[1] != 0 && rng.chance(50) {
                params.extend_from_slice(&[0, 3, 0, 2]);
                params.extend_from_slice(&rng.bytes(2));
            }
            vec![B(prio), NK(gen_name(rng, sfx)), B(params)]
        }
        257 => {
            let tags: &[&[u8]] = &[
                b"issue",
                b"issuewild",
                b"iodef",
                b"contactemail",
                b"a",
                b"Zz9",
            ];
            let t = tags[rng.below(tags.len())];
            let mut v = vec![if rng.chance(50) { 0 } else { 128 }];
            v.push(t.len() as u8);
            v.extend_from_slice(t);
            let n = rng.below(6);
            v.extend_from_slice(&rng.bytes(n));
            vec![B(v)]
        }
        _ => {
            let n = rng.below(12);
            vec![B(rng.bytes(n))]
        }
    }
}

fn gen_set(rtype: u16, rng: &mut Rng) -> Set {
    let apex: &[u8] = b"\x07eXample\x03Org\x00";
    let mut owner = Vec::new();
    if rng.chance(30) {
        owner.extend_from_slice(b"\x01*");
    }
    let n = rng.below(3);
    for _ in 0..n {
        let l = gen_label(rng);
        owner.push(l.len() as u8);
        owner.extend_from_slice(&l);
    }
    owner.extend_from_slice(apex);
    let single = matches!(rtype, 5 | 6 | 39 | 47 | 51);
    let want = if single { 1 } else { 1 + rng.below(4) };
    let mut rrs: Vec<Vec<F>> = Vec::new();
    let mut tries = 0;
    while rrs.len() < want && tries < 50 {
        tries += 1;
        let r = gen_rdata(rtype, rng, apex);
        let c = canon_rdata(&r);
        if rrs.iter().any(|x| canon_rdata(x) == c) {
            continue;
        }
        rrs.push(r);
    }
    let ttl = match rng.below(5) {
        0 => 0,
        1 => 0x7fff_ffff,
        2 => rng.next() as u32,
        _ => 3600,
    };
    let class = match rng.below(6) {
        0 => 3,
        1 => 254,
        _ => 1,
    };
    Set {
        owner,
        rtype,
        class,
        ttl,
        rrs,
    }
}

//------------ message building ---------------------------------------------

fn build_msg(set: &Set, compress: bool) -> Vec<u8> {
    let mut m = vec![0, 0, 0x84, 0, 0, 0];
    m.extend_from_slice(&(set.rrs.len() as u16).to_be_bytes());
    m.extend_from_slice(&[0, 0, 0, 0]);
    let owner_pos = m.len();
    let compressible = matches!(set.rtype, 2..=9 | 12 | 14 | 15);
    for (i, rr) in set.rrs.iter().enumerate() {
        if compress && i > 0 {
            m.extend_from_slice(&[0xc0, owner_pos as u8]);
        } else {
            m.extend_from_slice(&set.owner);
        }
        m.extend_from_slice(&set.rtype.to_be_bytes());
        m.extend_from_slice(&set.class.to_be_bytes());
        m.extend_from_slice(&set.ttl.to_be_bytes());
        let mut rd = Vec::new();
        for f in rr {
            match f {
                F::B(b) | F::NK(b) => rd.extend_from_slice(b),
                F::NL(b) => {
                    if compress
                        && compressible
                        && b.len() > set.owner.len()
                        && b.ends_with(&set.owner)
                    {
                        rd.extend_from_slice(
                            &b[..b.len() - set.owner.len()],
                        );
                        rd.extend_from_slice(&[0xc0, owner_pos as u8]);
                    } else if compress && compressible && b == &set.owner {
                        rd.extend_from_slice(&[0xc0, owner_pos as u8]);
                    } else {
                        rd.extend_from_slice(b);
                    }
                }
            }
        }
        m.extend_from_slice(&(rd.len() as u16).to_be_bytes());
        m.extend_from_slice(&rd);
    }
    m
}

type PRec<'a> = Record<
    ParsedName<&'a [u8]>,
    ZoneRecordData<&'a [u8], ParsedName<&'a [u8]>>,
>;

fn parse_msg<'a>(msg: &'a Message<Vec<u8>>) -> Vec<PRec<'a>> {
    let mut out = Vec::new();
    for item in msg.answer().unwrap() {
        let item = item.unwrap();
        let rec = match item
            .into_record::<ZoneRecordData<_, ParsedName<_>>>()
        {
            Ok(r) => r.unwrap(),
            Err(e) => panic!("parse error {e:?} in {:?}", msg.as_slice()),
        };
        out.push(rec);
    }
    out
}

fn owned(set: &Set) -> Vec<ORec> {
    let msg = Message::from_octets(build_msg(set, false)).unwrap();
    parse_msg(&msg)
        .into_iter()
        .map(|r| r.flatten_into())
        .collect()
}

//------------ independent construction --------------------------------------

fn labels_of(owner: &[u8]) -> u8 {
    let mut n = 0u8;
    let mut i = 0;
    let mut first_wild = false;
    while owner[i] != 0 {
        let l = owner[i] as usize;
        if i == 0 && l == 1 && owner[1] == b'*' {
            first_wild = true;
        }
        n += 1;
        i += 1 + l;
    }
    if first_wild { n - 1 } else { n }
}

fn keytag(rdata: &[u8]) -> u16 {
    let mut ac: u32 = 0;
    for (i, &b) in rdata.iter().enumerate() {
        ac += if i & 1 == 1 { b as u32 } else { (b as u32) << 8 };
    }
    ac += (ac >> 16) & 0xffff;
    (ac & 0xffff) as u16
}

fn dnskey_rdata(k: &Dnskey<Vec<u8>>) -> Vec<u8> {
    let mut v = k.flags().to_be_bytes().to_vec();
    v.push(k.protocol());
    v.push(k.algorithm().to_int());
    v.extend_from_slice(k.public_key());
    v
}

fn independent(
    set: &Set,
    alg: u8,
    exp: u32,
    inc: u32,
    tag: u16,
    signer: &[u8],
) -> Vec<u8> {
    let mut out = Vec::new();
    out.extend_from_slice(&set.rtype.to_be_bytes());
    out.push(alg);
    out.push(labels_of(&set.owner));
    out.extend_from_slice(&set.ttl.to_be_bytes());
    out.extend_from_slice(&exp.to_be_bytes());
    out.extend_from_slice(&inc.to_be_bytes());
    out.extend_from_slice(&tag.to_be_bytes());
    out.extend_from_slice(&lower(signer));
    let mut rds: Vec<Vec<u8>> =
        set.rrs.iter().map(|r| canon_rdata(r)).collect();
    rds.sort();
    for rd in rds {
        out.extend_from_slice(&lower(&set.owner));
        out.extend_from_slice(&set.rtype.to_be_bytes());
        out.extend_from_slice(&set.class.to_be_bytes());
        out.extend_from_slice(&set.ttl.to_be_bytes());
        out.extend_from_slice(&(rd.len() as u16).to_be_bytes());
        out.extend_from_slice(&rd);
    }
    out
}

//------------ the checks -----------------------------------------------------

fn verify<N: domain::base::ToName, D>(
    rrsig: &Rrsig<Vec<u8>, OName>,
    key: &Dnskey<Vec<u8>>,
    recs: &mut [Record<N, D>],
) -> bool
where
    D: domain::base::RecordData
        + domain::base::CanonicalOrd
        + domain::base::rdata::ComposeRecordData,
{
    let mut buf = Vec::new();
    rrsig.signed_data(&mut buf, recs).unwrap();
    rrsig.verify_signed_data(key, &buf).is_ok()
}

fn check_set(
    set: &Set,
    key: &SigningKey<Vec<u8>, RecKey>,
    rng: &mut Rng,
    fails: &mut Vec<String>,
) {
    let inc = rng.next() as u32;
    let exp = inc.wrapping_add(rng.below(0x7fff_0000) as u32);
    let recs = owned(set);
    let rrset = Rrset::new_from_owned(&recs).unwrap();
    let sig = sign_rrset(
        key,
        &rrset,
        Timestamp::from(inc),
        Timestamp::from(exp),
    );
    let sig = match sig {
        Ok(s) => s,
        Err(e) => {
            fails.push(format!("sign error {e:?} for {set:?}"));
            return;
        }
    };
    let rrsig = sig.data().clone();
    let dnskey = key.dnskey();
    let tag = keytag(&dnskey_rdata(&dnskey));
    let mut fail = |what: &str| {
        fails.push(format!("{what}: type {} set {:?}", set.rtype, set));
    };
    if tag != rrsig.key_tag() {
        fail("keytag");
    }
    let signer = key.owner().as_slice().to_vec();
    let ind = independent(
        set,
        dnskey.algorithm().to_int(),
        exp,
        inc,
        tag,
        &signer,
    );
    if *key.raw_secret_key().last.borrow() != ind {
        fail("signed-octets");
    }
    // plain
    let mut v = recs.clone();
    if !verify(&rrsig, &dnskey, &mut v) {
        fail("verify-plain");
    }
    // independent octets verify too?
    if rrsig.verify_signed_data(&dnskey, &ind).is_err() {
        fail("verify-independent-octets");
    }
    // reversed
    let mut v = recs.clone();
    v.reverse();
    if !verify(&rrsig, &dnskey, &mut v) {
        fail("verify-reversed");
    }
    // case + ttl + reorder + compression
    let mut t = set.clone();
    t.owner = flipcase(&t.owner, rng);
    t.ttl = if t.ttl > 0 { rng.below(t.ttl as usize) as u32 } else { 0 };
    for rr in t.rrs.iter_mut() {
        for f in rr.iter_mut() {
            if let F::NL(b) = f {
                *b = flipcase(b, rng);
            }
        }
    }
    if rng.chance(50) {
        t.rrs.reverse();
    }
    for compress in [false, true] {
        let msg = Message::from_octets(build_msg(&t, compress)).unwrap();
        let mut v = parse_msg(&msg);
        if !verify(&rrsig, &dnskey, &mut v) {
            fail(if compress {
                "verify-transformed-compressed"
            } else {
                "verify-transformed"
            });
        }
    }
    // wildcard expansion
    if set.owner.starts_with(b"\x01*") {
        let mut e = t.clone();
        let mut o = Vec::new();
        let n = 1 + rng.below(2);
        for _ in 0..n {
            let l = gen_label(rng);
            o.push(l.len() as u8);
            o.extend_from_slice(&l);
        }
        o.extend_from_slice(&t.owner[2..]);
        e.owner = o;
        for compress in [false, true] {
            let msg = Message::from_octets(build_msg(&e, compress)).unwrap();
            let mut v = parse_msg(&msg);
            if !verify(&rrsig, &dnskey, &mut v) {
                fail("verify-wildcard-expanded");
            }
        }
    }
    // tampering
    let mk = |ty: Rtype,
              lab: u8,
              ottl: u32,
              e: u32,
              i: u32,
              tg: u16,
              sn: OName,
              sg: Vec<u8>| {
        Rrsig::new(
            ty,
            rrsig.algorithm(),
            lab,
            Ttl::from_secs(ottl),
            Timestamp::from(e),
            Timestamp::from(i),
            tg,
            sn,
            sg,
        )
        .unwrap()
    };
    let base = (
        rrsig.type_covered(),
        rrsig.labels(),
        rrsig.original_ttl().as_secs(),
        exp,
        inc,
        rrsig.key_tag(),
        rrsig.signer_name().clone(),
        rrsig.signature().clone(),
    );
    let mut alts: Vec<(&str, Rrsig<Vec<u8>, OName>)> = Vec::new();
    let bit = 1u32 << rng.below(32);
    alts.push((
        "ottl",
        mk(base.0, base.1, base.2 ^ bit, base.3, base.4, base.5, base.6.clone(), base.7.clone()),
    ));
    alts.push((
        "exp",
        mk(base.0, base.1, base.2, base.3 ^ bit, base.4, base.5, base.6.clone(), base.7.clone()),
    ));
    alts.push((
        "inc",
        mk(base.0, base.1, base.2, base.3, base.4 ^ bit, base.5, base.6.clone(), base.7.clone()),
    ));
    alts.push((
        "tag",
        mk(base.0, base.1, base.2, base.3, base.4, base.5 ^ (bit as u16 | 1), base.6.clone(), base.7.clone()),
    ));
    if base.1 > 0 {
        alts.push((
            "labels-1",
            mk(base.0, base.1 - 1, base.2, base.3, base.4, base.5, base.6.clone(), base.7.clone()),
        ));
    }
    alts.push((
        "labels+1",
        mk(base.0, base.1 + 1, base.2, base.3, base.4, base.5, base.6.clone(), base.7.clone()),
    ));
    {
        let mut s = base.7.clone();
        let p = rng.below(s.len());
        s[p] ^= 1 << rng.below(8);
        alts.push((
            "sig",
            mk(base.0, base.1, base.2, base.3, base.4, base.5, base.6.clone(), s),
        ));
    }
    for (what, a) in alts {
        let mut v = recs.clone();
        if verify(&a, &dnskey, &mut v) {
            fail(&format!("tamper-{what}-still-verifies"));
        }
    }
    // key bit flip
    {
        let mut pk = dnskey.public_key().clone();
        let p = rng.below(pk.len());
        pk[p] ^= 1 << rng.below(8);
        let k2 =
            Dnskey::new(dnskey.flags(), 3, dnskey.algorithm(), pk).unwrap();
        let mut v = recs.clone();
        let mut buf = Vec::new();
        rrsig.signed_data(&mut buf, &mut v).unwrap();
        if rrsig.verify_signed_data(&k2, &buf).is_ok() {
            fail("tamper-key-still-verifies");
        }
    }
    // rdata bit flip (non-case bit)
    {
        let mut t2 = set.clone();
        let r = rng.below(t2.rrs.len());
        let mut done = false;
        for f in t2.rrs[r].iter_mut() {
            if let F::B(b) = f {
                if !b.is_empty() && !done && set.rtype == 1 {
                    let p = rng.below(b.len());
                    b[p] ^= 1 << rng.below(8);
                    done = true;
                }
            }
        }
        if done {
            let mut v = owned(&t2);
            if verify(&rrsig, &dnskey, &mut v) {
                fail("tamper-rdata-still-verifies");
            }
        }
        let mut t3 = set.clone();
        t3.class ^= 1 << rng.below(8);
        let mut v = owned(&t3);
        if verify(&rrsig, &dnskey, &mut v) {
            fail("tamper-class-still-verifies");
        }
    }
}

fn run(types: &[u16], iters: usize, seed: u64) -> Vec<String> {
    let mut rng = Rng(seed);
    let apex: OName =
        Name::from_octets(b"\x07exAmple\x03orG\x00".to_vec()).unwrap();
    let keys = vec![
        SigningKey::new(apex.clone(), 256, gen_key(GenerateParams::Ed25519, 256)),
        SigningKey::new(
            apex.clone(),
            257,
            gen_key(GenerateParams::EcdsaP256Sha256, 257),
        ),
        SigningKey::new(
            apex.clone(),
            256,
            gen_key(GenerateParams::EcdsaP384Sha384, 256),
        ),
        SigningKey::new(apex.clone(), 256, file_key(8, 60616)),
        SigningKey::new(apex.clone(), 256, file_key(10, 46731)),
    ];
    let mut fails = Vec::new();
    for it in 0..iters {
        for &t in types {
            let set = gen_set(t, &mut rng);
            // RSA is slow: use it rarely
            let k = if it % 10 == 0 {
                3 + rng.below(2)
            } else {
                rng.below(3)
            };
            check_set(&set, &keys[k], &mut rng, &mut fails);
        }
    }
    fails
}

fn summarize(fails: &[String]) {
    use std::collections::BTreeMap;
    let mut m: BTreeMap<String, (usize, String)> = BTreeMap::new();
    for f in fails {
        let key: String = f.split(" set ").next().unwrap().to_string();
        let e = m.entry(key).or_insert((0, f.clone()));
        e.0 += 1;
    }
    for (k, (n, ex)) in &m {
        eprintln!("FAIL {k} x{n}\n   e.g. {ex}");
    }
}

#[test]
fn known_types() {
    let iters = std::env::var("C12_ITERS")
        .ok()
        .and_then(|s| s.parse().ok())
        .unwrap_or(30);
    let fails = run(TYPES, iters, 0x9e3779b97f4a7c15);
    summarize(&fails);
    assert!(fails.is_empty(), "{} failures", fails.len());
}

#[test]
fn rfc4034_list_types_without_library_type() {
    let fails = run(RFC_LIST_UNKNOWN, 20, 0x1234567);
    summarize(&fails);
    assert!(fails.is_empty(), "{} failures", fails.len());
}
