// Randomised exploration of NameBuilder operation sequences on the UNMODIFIED
// library (default features).  Place as tests/explore_builder_ops.rs and run
//
//     cargo test --offline --test explore_builder_ops -- --nocapture
//
// The tests always pass; they PRINT every distinct anomaly found
// ("VEC:" = builder atop Vec<u8>, "ARR:" = atop octseq Array<40>).
// Observed categories on the unmodified library:
//   VEC: append_label N / append_slice N (ok=true): finish invalid, len 255
//        -> the known off-by-one when a NEW label is started (P1)
//   VEC/ARR: dec N failed but content changed / in_label flipped
//   VEC/ARR: hex failed but in_label true -> false
//        -> failed append_dec_u8_label / append_hex_digit_label are not
//           neutral (P7)
//   ARR: append_name N failed but content changed / in_label true -> false
//        -> append_name that runs out of buffer keeps the labels appended so
//           far and ends the open label (names stay valid)
use domain::base::name::*;
use domain::dep::octseq::array::Array;
use domain::dep::octseq::builder::{FreezeBuilder, OctetsBuilder, EmptyBuilder};

struct Rng(u64);
impl Rng {
    fn next(&mut self) -> u64 {
        self.0 = self.0.wrapping_mul(6364136223846793005).wrapping_add(1442695040888963407);
        self.0 >> 33
    }
    fn below(&mut self, n: u64) -> u64 { self.next() % n }
}

/// Checks builder content given whether a label is open.
fn check(slice: &[u8], in_label: bool, what: &str) -> Result<(), String> {
    // all complete labels valid; if in_label the last one starts with 0 placeholder
    let mut rest = slice;
    let mut pos = 0;
    let mut labels = vec![];
    while !rest.is_empty() {
        let len = rest[0] as usize;
        labels.push((pos, len));
        if len == 0 {
            // must be open label: the rest is its content
            if !in_label { return Err(format!("{what}: root label inside closed content {:?}", slice)); }
            let content = rest.len() - 1;
            if content == 0 || content > 63 { return Err(format!("{what}: open label content {content}")); }
            break;
        }
        if len > 63 { return Err(format!("{what}: bad len {len}")); }
        if rest.len() < len + 1 { return Err(format!("{what}: short label {:?}", slice)); }
        rest = &rest[len+1..];
        pos += len + 1;
        if rest.is_empty() && in_label { return Err(format!("{what}: in_label but no open label")); }
    }
    if slice.len() > 254 { return Err(format!("{what}: len {}", slice.len())); }
    Ok(())
}

fn run<B>(seed: u64, steps: usize) -> Result<(), String>
where B: OctetsBuilder + EmptyBuilder + FreezeBuilder + AsRef<[u8]> + AsMut<[u8]> + Clone,
      B::Octets: AsRef<[u8]>,
{
    let mut rng = Rng(seed);
    let mut b = NameBuilder::<B>::new();
    for _ in 0..steps {
        let before_fin = b.clone().finish().as_slice().to_vec();
        let before_in = b.in_label();
        let op = rng.below(8);
        let (what, ok) = match op {
            0 => ("push".to_string(), b.push(b'a').is_ok()),
            1 => { let n = rng.below(70) as usize; (format!("append_slice {n}"), b.append_slice(&vec![b'b'; n]).is_ok()) }
            2 => { b.end_label(); ("end_label".to_string(), true) }
            3 => { let n = rng.below(70) as usize; (format!("append_label {n}"), b.append_label(&vec![b'c'; n]).is_ok()) }
            4 => {
                // append_name with random relative name
                let mut v = vec![];
                for _ in 0..rng.below(5) { let n = 1 + rng.below(63) as usize; v.push(n as u8); v.extend(vec![b'd'; n]); }
                if v.len() > 254 { continue; }
                let r = RelativeName::from_octets(v).unwrap();
                (format!("append_name {}", r.len()), b.append_name(&r).is_ok())
            }
            5 => { let v = rng.below(256) as u8; (format!("dec {v}"), b.append_dec_u8_label(v).is_ok()) }
            6 => { ("hex".to_string(), b.append_hex_digit_label(rng.below(16) as u8).is_ok()) }
            _ => {
                // finish a clone / into_name a clone
                let r = b.clone().finish();
                RelativeName::from_slice(r.as_slice()).map_err(|e| format!("finish invalid {e}: {:?}", r.as_slice()))?;
                if let Ok(n) = b.clone().into_name() {
                    Name::from_slice(n.as_slice()).map_err(|e| format!("into_name invalid {e}: len {}", n.len()))?;
                }
                continue;
            }
        };
        let fin = b.clone().finish();
        if RelativeName::from_slice(fin.as_slice()).is_err() {
            return Err(format!("{what} (ok={ok}): finish invalid, len {}", fin.len()));
        }
        if !ok {
            if b.in_label() != before_in { return Err(format!("{what} failed but in_label {} -> {}", before_in, b.in_label())); }
            if fin.as_slice() != &before_fin[..] { return Err(format!("{what} failed but content changed: len {} -> {} (in_label {})", before_fin.len(), fin.len(), before_in)); }
        }
    }
    Ok(())
}

#[test]
fn explore_vec() {
    let mut errs = std::collections::BTreeSet::new();
    for seed in 0..3000 {
        if let Err(e) = run::<Vec<u8>>(seed, 60) { errs.insert(e); }
    }
    for e in errs.iter() { println!("VEC: {e}"); }
}

#[test]
fn explore_array() {
    let mut errs = std::collections::BTreeSet::new();
    for seed in 0..3000 {
        if let Err(e) = run::<Array<40>>(seed, 40) { errs.insert(e); }
    }
    for e in errs.iter() { println!("ARR: {e}"); }
}
