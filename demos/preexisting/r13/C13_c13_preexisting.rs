// Behaviour of the UNMODIFIED library that deviates from property C13 (or
// sits right next to it). Every test below states the expected behaviour and
// FAILS on the unmodified library.
//
// Place this file at tests/c13_preexisting.rs and run:
//
//   cargo test --offline -j4 --features serde,unstable-sign,ring \
//       --test c13_preexisting -- --test-threads=1
#![cfg(all(feature = "unstable-sign", feature = "ring"))]

use std::str::FromStr;

use bytes::Bytes;
use domain::base::iana::Class;
use domain::base::name::Name;
use domain::base::rdata::UnknownRecordData;
use domain::base::{Record, Rtype, Serial, Ttl};
use domain::dnssec::sign::denial::nsec::{generate_nsecs, GenerateNsecConfig};
use domain::dnssec::sign::denial::nsec3::{
    generate_nsec3s, GenerateNsec3Config,
};
use domain::dnssec::sign::records::{DefaultSorter, SortedRecords};
use domain::rdata::{Soa, ZoneRecordData};

type N = Name<Bytes>;
type D = ZoneRecordData<Bytes, N>;
type Rec = Record<N, D>;

fn name(s: &str) -> N {
    N::from_str(s).unwrap()
}

fn rr_full(
    owner: &str,
    class: Class,
    ttl: u32,
    rtype: &str,
    rdata: &'static [u8],
) -> Rec {
    let rtype = Rtype::from_str(rtype).unwrap();
    let data: D = if rtype == Rtype::SOA {
        Soa::new(
            name("mname."),
            name("rname."),
            Serial(1),
            Ttl::from_secs(3600),
            Ttl::from_secs(3600),
            Ttl::from_secs(3600),
            Ttl::from_secs(300),
        )
        .into()
    } else {
        ZoneRecordData::Unknown(
            UnknownRecordData::from_octets(rtype, Bytes::from_static(rdata))
                .unwrap(),
        )
    };
    Record::new(name(owner), class, Ttl::from_secs(ttl), data)
}

fn rr(owner: &str, rtype: &str) -> Rec {
    rr_full(owner, Class::IN, 3600, rtype, b"\x01")
}

fn nsec_chain(apex: &str, recs: Vec<Rec>) -> Vec<String> {
    let zone = SortedRecords::<N, D, DefaultSorter>::from(recs);
    let cfg =
        GenerateNsecConfig::new().without_assuming_dnskeys_will_be_added();
    generate_nsecs(&name(apex), zone.owner_rrs(), &cfg)
        .unwrap()
        .iter()
        .map(|r| {
            format!(
                "{} -> {} [{}]",
                r.owner(),
                r.data().next_name(),
                r.data().types()
            )
        })
        .collect()
}

/// 1. sign/records.rs `Rrset::new()` (reached from `OwnerRrsIter::next()` in
///    both `generate_nsecs()` and `generate_nsec3s()`): an RRset whose RRs
///    carry different TTLs (common in hand written zone files; RFC 2181 5.2
///    tells servers to fix it up, not to die) makes chain generation PANIC
///    ("TTLs should be the same: MultipleTtlValues") instead of producing a
///    chain or returning a `SigningError`. "For every zone" there is no chain.
#[test]
fn rrset_with_mixed_ttls() {
    let chain = nsec_chain(
        "example.",
        vec![
            rr("example.", "SOA"),
            rr("example.", "NS"),
            rr_full("a.example.", Class::IN, 3600, "A", b"\x01"),
            rr_full("a.example.", Class::IN, 60, "A", b"\x02"),
        ],
    );
    assert_eq!(
        chain,
        [
            "example -> a.example [NS SOA RRSIG NSEC]",
            "a.example -> example [A RRSIG NSEC]"
        ]
    );
}

/// 2. sign/denial/nsec3.rs `append_origin()` (via `mk_nsec3()`): if
///    <32 octet hash label>.<apex> does not fit in 255 octets (apex longer
///    than 222 octets) `generate_nsec3s()` PANICS with
///    "called `Result::unwrap()` on an `Err` value: LongName" instead of
///    returning an error.
#[test]
fn nsec3_for_very_long_apex() {
    let l = "a".repeat(56);
    let apex = format!("{l}.{l}.{l}.{l}."); // 229 octets
    let zone = SortedRecords::<N, D, DefaultSorter>::from(vec![
        rr(&apex, "SOA"),
        rr(&apex, "NS"),
    ]);
    let cfg = GenerateNsec3Config::<Bytes, DefaultSorter>::default();
    // Either outcome would be fine, a panic is not.
    let _ = generate_nsec3s(&name(&apex), zone.owner_rrs(), &cfg);
}

/// 3. base/record.rs `Record::canonical_cmp()` sorts by CLASS first, and
///    neither generator looks at the class of the owner groups: in a
///    collection that holds RRs of a second class, those names come after
///    all IN names, are treated as part of the zone, and the NSEC chain is
///    no longer in canonical order (b.example -> a.example). An absent name
///    such as `aa.example` is then not covered by any NSEC.
#[test]
fn collection_with_a_second_class() {
    let chain = nsec_chain(
        "example.",
        vec![
            rr("example.", "SOA"),
            rr("example.", "NS"),
            rr("b.example.", "A"),
            rr_full("a.example.", Class::CH, 3600, "TXT", b"\x01"),
        ],
    );
    // Expected: the CH data is not part of the IN zone.
    assert_eq!(
        chain,
        [
            "example -> b.example [NS SOA RRSIG NSEC]",
            "b.example -> example [A RRSIG NSEC]"
        ]
    );
}

/// 4. generate_nsec3s(): the NSEC3PARAM RR that is returned for insertion at
///    the apex is a verbatim clone of `config.params`, so with Opt-Out its
///    Flags field is 1. RFC 5155 section 4.1.2: "The Opt-Out flag is not
///    used and is set to zero. ... NSEC3PARAM RRs with a Flags field value
///    other than zero MUST be ignored." (A secondary that follows the RFC
///    will not find a usable NSEC3 chain.) Not literally a clause of C13,
///    but it is output of the same generator; the library's own gated test
///    even asserts `nsec3param.data().opt_out_flag()`.
#[test]
fn nsec3param_flags_with_opt_out() {
    let zone = SortedRecords::<N, D, DefaultSorter>::from(vec![
        rr("example.", "SOA"),
        rr("example.", "NS"),
        rr("insecure.example.", "NS"),
    ]);
    let cfg =
        GenerateNsec3Config::<Bytes, DefaultSorter>::default().with_opt_out();
    let res =
        generate_nsec3s(&name("example."), zone.owner_rrs(), &cfg).unwrap();
    for nsec3 in &res.nsec3s {
        assert_eq!(nsec3.data().flags(), 1);
    }
    assert_eq!(res.nsec3param.data().flags(), 0);
}

/// 5. sign/denial/nsec3.rs `mk_nsec3()` / NSEC3PARAM creation hard-code
///    `Class::IN`, whereas `generate_nsecs()` uses the class of the SOA: the
///    NSEC3 chain of a zone of another class is generated in class IN.
#[test]
fn nsec3_class_follows_the_zone() {
    let zone = SortedRecords::<N, D, DefaultSorter>::from(vec![
        rr_full("example.", Class::CH, 3600, "SOA", b""),
        rr_full("example.", Class::CH, 3600, "NS", b"\x01"),
        rr_full("a.example.", Class::CH, 3600, "TXT", b"\x01"),
    ]);
    let cfg = GenerateNsec3Config::<Bytes, DefaultSorter>::default();
    let res =
        generate_nsec3s(&name("example."), zone.owner_rrs(), &cfg).unwrap();
    for nsec3 in &res.nsec3s {
        assert_eq!(nsec3.class(), Class::CH);
    }
    assert_eq!(res.nsec3param.class(), Class::CH);
}

/// 6. (Borderline, depends on how "occluded" is read.) Names below a DNAME
///    owner are occluded in the RFC 6672 sense (section 2.4: no data may
///    exist below a DNAME owner; BIND's signer treats such data like data
///    below a zone cut), but both generators give them a chain entry.
#[test]
fn names_below_a_dname() {
    let chain = nsec_chain(
        "example.",
        vec![
            rr("example.", "SOA"),
            rr("example.", "NS"),
            rr("d.example.", "DNAME"),
            rr("below.d.example.", "A"),
        ],
    );
    assert_eq!(
        chain,
        [
            "example -> d.example [NS SOA RRSIG NSEC]",
            "d.example -> example [DNAME RRSIG NSEC]"
        ]
    );
}
