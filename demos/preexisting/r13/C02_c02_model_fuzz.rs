// Scratch model-based random test for property C02, used to look for
// violations in the UNMODIFIED library (and to cross-check the mutations).
//
// Place as tests/c02_model_fuzz.rs and run:
//
//     cargo test --offline -j4 --features bytes --test c02_model_fuzz -- --nocapture
//
// Environment: C02_SEEDS=<n> (default 300), C02_SEED0=<first seed>.
//
// Outcome on the unmodified worktree (C02_SEEDS=300 before the re-push phase
// was added, C02_SEEDS=200 with it; 24 target/compressor configurations,
// messages up to 65535 octets, ~300k successful and ~90k failed pushes, plus
// a re-push of every parsed message through all compressors): all pass, NO
// pre-existing violation found.  With mutation 1
// or mutation 3 applied the harness fails (see the notes there).

use domain::base::iana::{Class, OptionCode, Rtype};
use domain::base::message_builder::{
    AdditionalBuilder, AnswerBuilder, AuthorityBuilder, HashCompressor,
    QuestionBuilder, StaticCompressor, StreamTarget, TreeCompressor,
};
use domain::base::name::ToName;
use domain::base::opt::{ComposeOptData, UnknownOptData};
use std::sync::atomic::{AtomicUsize, Ordering};

static MAXLEN: AtomicUsize = AtomicUsize::new(0);
static FAILS: AtomicUsize = AtomicUsize::new(0);
static OKS: AtomicUsize = AtomicUsize::new(0);
static OVER4000: AtomicUsize = AtomicUsize::new(0);
use domain::base::rdata::UnknownRecordData;
use domain::base::wire::Composer;
use domain::base::{
    Message, MessageBuilder, Name, ParsedName, Question, Record, Serial, Ttl,
};
use domain::rdata::{
    A, Aaaa, AllRecordData, Cname, Dname, Minfo, Mx, Ns, Ptr, Rp, Soa, Srv,
    Txt,
};
use octseq::array::Array;

type N = Name<Vec<u8>>;
type D = AllRecordData<Vec<u8>, N>;
type Rec = Record<N, D>;

//------------ rng ------------------------------------------------------------

struct Rng(u64);
impl Rng {
    fn next(&mut self) -> u64 {
        let mut x = self.0;
        x ^= x << 13;
        x ^= x >> 7;
        x ^= x << 17;
        self.0 = x;
        x.wrapping_mul(0x2545F4914F6CDD1D)
    }
    fn below(&mut self, n: usize) -> usize {
        (self.next() >> 33) as usize % n
    }
    fn chance(&mut self, pct: usize) -> bool {
        self.below(100) < pct
    }
}

//------------ generators -----------------------------------------------------

fn pool() -> Vec<Vec<u8>> {
    let mut v: Vec<Vec<u8>> = [
        "a", "A", "b", "www", "WWW", "example", "EXAMPLE", "Example", "com",
        "COM", "net", "org", "ns1", "ns2", "mail", "_tcp", "*", "x-y",
    ]
    .iter()
    .map(|s| s.as_bytes().to_vec())
    .collect();
    v.push(vec![b'x'; 63]);
    v.push(vec![b'X'; 63]);
    v.push(vec![b'y'; 63]);
    v.push(vec![b'z'; 63]);
    v.push(vec![b'w'; 61]);
    v.push(vec![b'w'; 60]);
    v.push(vec![0xC0, 0x0C]); // a label that looks like a pointer
    v.push(vec![3, b'c', b'o', b'm', 0]); // a label that looks like a name
    v.push(vec![b'.', b'\\', 0xFF]);
    v
}

fn name_from_labels(labels: &[Vec<u8>]) -> Option<N> {
    let mut wire = Vec::new();
    for l in labels {
        wire.push(l.len() as u8);
        wire.extend_from_slice(l);
    }
    wire.push(0);
    Name::from_octets(wire).ok()
}

fn gen_name(rng: &mut Rng, pool: &[Vec<u8>]) -> N {
    loop {
        let labels: Vec<Vec<u8>> = match rng.below(20) {
            0 => vec![],
            1 => {
                // maximal length
                vec![
                    vec![b'x'; 63],
                    vec![b'y'; 63],
                    vec![b'z'; 63],
                    vec![b'w'; 61],
                ]
            }
            2 => vec![
                vec![if rng.chance(50) { b'x' } else { b'X' }; 63],
                vec![b'y'; 63],
                vec![b'z'; 63],
                vec![b'w'; 61],
            ],
            3 => vec![
                pool[rng.below(4)].clone(),
                vec![b'y'; 63],
                vec![b'z'; 63],
                vec![b'w'; 61],
            ],
            _ => {
                let depth = 1 + rng.below(6);
                let mut v = Vec::new();
                for i in 0..depth {
                    // prefer common suffixes at the right end
                    let idx = if i + 2 >= depth && rng.chance(70) {
                        5 + rng.below(7)
                    } else {
                        rng.below(pool.len())
                    };
                    v.push(pool[idx].clone());
                }
                v
            }
        };
        if let Some(n) = name_from_labels(&labels) {
            return n;
        }
    }
}

fn gen_data(rng: &mut Rng, pool: &[Vec<u8>], big: bool) -> D {
    let n = |rng: &mut Rng| gen_name(rng, pool);
    match rng.below(if big { 18 } else { 14 }) {
        0 => D::A(A::from_octets(192, 0, 2, rng.below(256) as u8)),
        1 => D::Aaaa(Aaaa::new((rng.next() as u128).into())),
        2 => D::Ns(Ns::new(n(rng))),
        3 => D::Cname(Cname::new(n(rng))),
        4 => D::Ptr(Ptr::new(n(rng))),
        5 => D::Mx(Mx::new(rng.below(65536) as u16, n(rng))),
        6 => D::Soa(Soa::new(
            n(rng),
            n(rng),
            Serial(rng.next() as u32),
            Ttl::from_secs(rng.next() as u32),
            Ttl::from_secs(3),
            Ttl::from_secs(4),
            Ttl::from_secs(5),
        )),
        7 => {
            let len = match rng.below(4) {
                0 => 0,
                1 => 255,
                2 => 256,
                _ => rng.below(700),
            };
            let text = vec![b'a' + rng.below(26) as u8; len];
            D::Txt(Txt::build_from_slice(&text).unwrap())
        }
        8 => D::Srv(Srv::new(1, 2, rng.below(65536) as u16, n(rng))),
        9 => D::Minfo(Minfo::new(n(rng), n(rng))),
        10 => D::Rp(Rp::new(n(rng), n(rng))),
        11 => D::Dname(Dname::new(n(rng))),
        12 | 13 => {
            let len = rng.below(40);
            let mut data = vec![0u8; len];
            for b in data.iter_mut() {
                // bytes that look like labels and pointers
                *b = [0xC0, 0x0C, 3, b'c', b'o', b'm', 0, 0xFF]
                    [rng.below(8)];
            }
            D::Unknown(
                UnknownRecordData::from_octets(Rtype::from_int(0xFF01), data)
                    .unwrap(),
            )
        }
        _ => {
            let len = 500 + rng.below(4000);
            D::Unknown(
                UnknownRecordData::from_octets(
                    Rtype::from_int(0xFF02),
                    vec![rng.below(256) as u8; len],
                )
                .unwrap(),
            )
        }
    }
}

fn gen_rec(rng: &mut Rng, pool: &[Vec<u8>], big: bool) -> Rec {
    let class = if rng.chance(90) { Class::IN } else { Class::CH };
    Record::new(
        gen_name(rng, pool),
        class,
        Ttl::from_secs(rng.next() as u32 & 0x7FFF_FFFF),
        gen_data(rng, pool, big),
    )
}

#[derive(Clone, Debug, PartialEq)]
struct OptItem {
    udp: u16,
    version: u8,
    dok: bool,
    opts: Vec<(u16, Vec<u8>)>,
}

#[derive(Clone, Debug)]
enum Item {
    Rec(Rec),
    Opt(OptItem),
}

//------------ targets --------------------------------------------------------

trait Tgt: Composer + Clone {
    fn make() -> Self;
    fn stream(&self) -> Option<&[u8]> {
        None
    }
    fn label() -> String;
}

impl Tgt for Vec<u8> {
    fn make() -> Self {
        // pre-existing garbage must not matter
        vec![0xC0; 7]
    }
    fn label() -> String {
        "Vec".into()
    }
}

#[cfg(feature = "bytes")]
impl Tgt for bytes::BytesMut {
    fn make() -> Self {
        bytes::BytesMut::from(&b"garbage"[..])
    }
    fn label() -> String {
        "BytesMut".into()
    }
}

impl<const SZ: usize> Tgt for Array<SZ> {
    fn make() -> Self {
        Array::new()
    }
    fn label() -> String {
        format!("Array<{SZ}>")
    }
}

impl Tgt for StreamTarget<Vec<u8>> {
    fn make() -> Self {
        StreamTarget::new(vec![1, 2, 3, 4, 5]).unwrap()
    }
    fn stream(&self) -> Option<&[u8]> {
        Some(self.as_stream_slice())
    }
    fn label() -> String {
        "Stream<Vec>".into()
    }
}

impl<const SZ: usize> Tgt for StreamTarget<Array<SZ>> {
    fn make() -> Self {
        StreamTarget::new(Array::new()).unwrap()
    }
    fn stream(&self) -> Option<&[u8]> {
        Some(self.as_stream_slice())
    }
    fn label() -> String {
        format!("Stream<Array<{SZ}>>")
    }
}

impl<T: Tgt> Tgt for StaticCompressor<T> {
    fn make() -> Self {
        StaticCompressor::new(T::make())
    }
    fn stream(&self) -> Option<&[u8]> {
        self.as_target().stream()
    }
    fn label() -> String {
        format!("Static<{}>", T::label())
    }
}

impl<T: Tgt> Tgt for TreeCompressor<T> {
    fn make() -> Self {
        TreeCompressor::new(T::make())
    }
    fn stream(&self) -> Option<&[u8]> {
        self.as_target().stream()
    }
    fn label() -> String {
        format!("Tree<{}>", T::label())
    }
}

impl<T: Tgt> Tgt for HashCompressor<T> {
    fn make() -> Self {
        HashCompressor::new(T::make())
    }
    fn stream(&self) -> Option<&[u8]> {
        self.as_target().stream()
    }
    fn label() -> String {
        format!("Hash<{}>", T::label())
    }
}

//------------ model ----------------------------------------------------------

enum Stage<T> {
    Q(QuestionBuilder<T>),
    An(AnswerBuilder<T>),
    Au(AuthorityBuilder<T>),
    Ad(AdditionalBuilder<T>),
    Gone,
}

struct Model {
    q: Vec<Question<N>>,
    sec: [Vec<Item>; 3],
    rcode_low: u8,
}

fn canon_rec<NN: ToName, DD>(rec: &Record<NN, DD>) -> Vec<u8>
where
    DD: domain::base::rdata::RecordData
        + domain::base::rdata::ComposeRecordData,
{
    let mut v = Vec::new();
    rec.compose_canonical(&mut v).unwrap();
    v
}

fn target_of<T: Tgt>(stage: &Stage<T>) -> &T {
    match stage {
        Stage::Q(b) => b.as_target(),
        Stage::An(b) => b.as_target(),
        Stage::Au(b) => b.as_target(),
        Stage::Ad(b) => b.as_target(),
        Stage::Gone => unreachable!(),
    }
}

fn verify<T: Tgt>(stage: &Stage<T>, model: &Model, ctx: &str) {
    let target = target_of(stage);
    let dgram: &[u8] = target.as_ref();
    if let Some(stream) = target.stream() {
        assert_eq!(&stream[2..], dgram, "{ctx}: stream/dgram");
        assert_eq!(
            usize::from(u16::from_be_bytes([stream[0], stream[1]])),
            dgram.len(),
            "{ctx}: stream prefix"
        );
    }
    let msg = Message::from_slice(dgram).expect("header");
    let c = msg.header_counts();
    assert_eq!(
        (
            c.qdcount() as usize,
            c.ancount() as usize,
            c.nscount() as usize,
            c.arcount() as usize
        ),
        (
            model.q.len(),
            model.sec[0].len(),
            model.sec[1].len(),
            model.sec[2].len()
        ),
        "{ctx}: counts"
    );
    assert_eq!(
        msg.header().rcode().to_int(),
        model.rcode_low,
        "{ctx}: header rcode"
    );
    let (qs, an, au, ad) =
        msg.sections().unwrap_or_else(|e| panic!("{ctx}: sections: {e}"));
    let got_q: Vec<_> = qs
        .map(|q| q.unwrap_or_else(|e| panic!("{ctx}: question: {e}")))
        .collect();
    assert_eq!(got_q.len(), model.q.len(), "{ctx}: qd len");
    for (g, w) in got_q.iter().zip(model.q.iter()) {
        assert!(g.qname().name_eq(w.qname()), "{ctx}: qname {g:?} {w:?}");
        assert_eq!(g.qtype(), w.qtype(), "{ctx}");
        assert_eq!(g.qclass(), w.qclass(), "{ctx}");
    }
    let mut end = 0;
    for (i, section) in [an, au, ad].into_iter().enumerate() {
        let want = &model.sec[i];
        let mut n = 0;
        let mut it = section;
        for rr in &mut it {
            let rr = rr.unwrap_or_else(|e| panic!("{ctx}: s{i} r{n}: {e}"));
            let w = want
                .get(n)
                .unwrap_or_else(|| panic!("{ctx}: s{i} extra record"));
            match w {
                Item::Rec(w) => {
                    let g = rr
                        .to_any_record::<AllRecordData<_, ParsedName<_>>>()
                        .unwrap_or_else(|e| {
                            panic!("{ctx}: s{i} r{n} rdata: {e}")
                        });
                    assert!(
                        g.owner().name_eq(w.owner()),
                        "{ctx}: s{i} r{n} owner {} vs {}",
                        g.owner(),
                        w.owner()
                    );
                    assert_eq!(g.class(), w.class(), "{ctx}: s{i} r{n}");
                    assert_eq!(g.ttl(), w.ttl(), "{ctx}: s{i} r{n}");
                    assert_eq!(
                        canon_rec(&g),
                        canon_rec(w),
                        "{ctx}: s{i} r{n} {:?}",
                        w
                    );
                }
                Item::Opt(w) => {
                    assert_eq!(rr.rtype(), Rtype::OPT, "{ctx}: s{i} r{n}");
                    assert!(rr.owner().is_root());
                    let rec = rr
                        .to_record::<domain::base::opt::Opt<_>>()
                        .unwrap()
                        .unwrap();
                    let rec = domain::base::opt::OptRecord::from(rec);
                    let got = OptItem {
                        udp: rec.udp_payload_size(),
                        version: rec.version(),
                        dok: rec.dnssec_ok(),
                        opts: rec
                            .opt()
                            .iter::<UnknownOptData<_>>()
                            .map(|o| {
                                let o = o.unwrap();
                                let mut d = Vec::new();
                                o.compose_option(&mut d).unwrap();
                                (o.code().to_int(), d)
                            })
                            .collect(),
                    };
                    assert_eq!(&got, w, "{ctx}: s{i} r{n} opt");
                }
            }
            n += 1;
        }
        assert_eq!(n, want.len(), "{ctx}: s{i} len");
        end = it.pos();
    }
    assert_eq!(end, dgram.len(), "{ctx}: trailing octets");
}

fn run<T: Tgt>(seed: u64, big: bool) {
    let pool = pool();
    let mut rng = Rng(seed.wrapping_mul(0x9E3779B97F4A7C15) | 1);
    let mut model = Model {
        q: vec![],
        sec: [vec![], vec![], vec![]],
        rcode_low: 0,
    };
    let builder = match MessageBuilder::from_target(T::make()) {
        Ok(b) => b,
        Err(_) => panic!("no room for header"),
    };
    let mut stage = Stage::Q(builder.question());
    let steps = 10 + rng.below(if big { 400 } else { 60 });
        let (lim_t, mov_t) = if big { (2, 7) } else { (8, 30) };
    let label = T::label();
    let mut log: Vec<String> = Vec::new();
    for step in 0..steps {
        let ctx = format!("{label} seed {seed} step {step} log {log:?}");
        let before: Vec<u8> = {
            let t = target_of(&stage);
            let s: &[u8] = t.as_ref();
            s.to_vec()
        };
        if before.len() > 60000 && T::make().stream().is_none() {
            break;
        }
        let op = rng.below(100);
        // --- limit handling
        if op < lim_t {
            let b: &mut MessageBuilder<T> = match &mut stage {
                Stage::Q(b) => b,
                Stage::An(b) => b,
                Stage::Au(b) => b,
                Stage::Ad(b) => b,
                Stage::Gone => unreachable!(),
            };
            if rng.chance(if big { 30 } else { 50 }) {
                let lim = before.len() + rng.below(120);
                b.set_push_limit(lim);
                log.push(format!("limit {lim}"));
            } else {
                b.clear_push_limit();
                log.push("nolimit".into());
            }
            continue;
        }
        // --- section movement
        if op < mov_t {
            let cur = std::mem::replace(&mut stage, Stage::Gone);
            let to = if big && rng.chance(85) { 2 + rng.below(3) } else { rng.below(6) };
            log.push(format!("goto {to}"));
            stage = match (cur, to) {
                (Stage::Q(b), 0) => {
                    model.q.clear();
                    Stage::Q(b.builder().question())
                }
                (Stage::Q(b), 1) => Stage::Q(b.question()),
                (Stage::Q(b), 2) => Stage::An(b.answer()),
                (Stage::Q(b), 3) => Stage::Au(b.authority()),
                (Stage::Q(b), 4) => Stage::Ad(b.additional()),
                (Stage::Q(mut b), _) => {
                    b.rewind();
                    model.q.clear();
                    Stage::Q(b)
                }
                (Stage::An(b), 0) => {
                    model.q.clear();
                    model.sec[0].clear();
                    Stage::Q(b.builder().question())
                }
                (Stage::An(b), 1) => {
                    model.sec[0].clear();
                    Stage::Q(b.question())
                }
                (Stage::An(b), 2) => Stage::An(b.answer()),
                (Stage::An(b), 3) => Stage::Au(b.authority()),
                (Stage::An(b), 4) => Stage::Ad(b.additional()),
                (Stage::An(mut b), _) => {
                    b.rewind();
                    model.sec[0].clear();
                    Stage::An(b)
                }
                (Stage::Au(b), 0) => {
                    model.q.clear();
                    model.sec[0].clear();
                    model.sec[1].clear();
                    Stage::Q(b.builder().question())
                }
                (Stage::Au(b), 1) => {
                    model.sec[0].clear();
                    model.sec[1].clear();
                    Stage::Q(b.question())
                }
                (Stage::Au(b), 2) => {
                    model.sec[1].clear();
                    Stage::An(b.answer())
                }
                (Stage::Au(b), 3) => Stage::Au(b.authority()),
                (Stage::Au(b), 4) => Stage::Ad(b.additional()),
                (Stage::Au(mut b), _) => {
                    b.rewind();
                    model.sec[1].clear();
                    Stage::Au(b)
                }
                (Stage::Ad(b), 0) => {
                    model.q.clear();
                    model.sec[0].clear();
                    model.sec[1].clear();
                    model.sec[2].clear();
                    Stage::Q(b.builder().question())
                }
                (Stage::Ad(b), 1) => {
                    model.sec[0].clear();
                    model.sec[1].clear();
                    model.sec[2].clear();
                    Stage::Q(b.question())
                }
                (Stage::Ad(b), 2) => {
                    model.sec[1].clear();
                    model.sec[2].clear();
                    Stage::An(b.answer())
                }
                (Stage::Ad(b), 3) => {
                    model.sec[2].clear();
                    Stage::Au(b.authority())
                }
                (Stage::Ad(b), 4) => Stage::Ad(b.additional()),
                (Stage::Ad(mut b), _) => {
                    b.rewind();
                    model.sec[2].clear();
                    Stage::Ad(b)
                }
                (Stage::Gone, _) => unreachable!(),
            };
            verify(&stage, &model, &ctx);
            continue;
        }
        // --- pushes
        let counts_before;
        let ok;
        match &mut stage {
            Stage::Q(b) => {
                counts_before = b.counts();
                let q = Question::new(
                    gen_name(&mut rng, &pool),
                    Rtype::from_int(rng.below(300) as u16),
                    if rng.chance(80) { Class::IN } else { Class::ANY },
                );
                log.push(format!("q {}", q.qname()));
                ok = match rng.below(3) {
                    0 => b.push(&q).is_ok(),
                    1 => b.push((q.qname(), q.qtype(), q.qclass())).is_ok(),
                    _ => b.push(q.clone()).is_ok(),
                };
                if ok {
                    model.q.push(q);
                }
            }
            Stage::An(b) => {
                counts_before = b.counts();
                let r = gen_rec(&mut rng, &pool, big);
                log.push(format!("an {} {}", r.owner(), r.rtype()));
                ok = match rng.below(3) {
                    0 => b.push(&r).is_ok(),
                    1 => b.push_ref(&r).is_ok(),
                    _ => {
                        // owner given as relative name chained to a suffix
                        let bounds: Vec<usize> = {
                            let mut v = vec![0usize];
                            let mut pos = 0usize;
                            for l in r.owner().iter() {
                                pos += l.len() + 1;
                                v.push(pos);
                            }
                            v.pop(); // behind the root label
                            v
                        };
                        let mid = bounds[rng.below(bounds.len())];
                        let (rel, suf) = r.owner().split(mid);
                        let owner = rel.chain(suf).unwrap();
                        b.push((owner, r.class(), r.ttl(), r.data())).is_ok()
                    }
                };
                if ok {
                    model.sec[0].push(Item::Rec(r));
                }
            }
            Stage::Au(b) => {
                counts_before = b.counts();
                let r = gen_rec(&mut rng, &pool, big);
                log.push(format!("au {} {}", r.owner(), r.rtype()));
                ok = b
                    .push((r.owner(), r.class(), r.ttl(), r.data()))
                    .is_ok();
                if ok {
                    model.sec[1].push(Item::Rec(r));
                }
            }
            Stage::Ad(b) => {
                counts_before = b.counts();
                if rng.chance(25) {
                    let mut item = OptItem {
                        udp: rng.below(65536) as u16,
                        version: if rng.chance(80) { 0 } else { 7 },
                        dok: rng.chance(50),
                        opts: vec![],
                    };
                    for _ in 0..rng.below(4) {
                        let len = [0, 0, 1, 4, 8, 40][rng.below(6)];
                        item.opts.push((
                            [3u16, 10, 12, 65001][rng.below(4)],
                            vec![rng.below(256) as u8; len],
                        ));
                    }
                    log.push(format!("opt {:?}", item));
                    // the closure sets an rcode; on failure it must be
                    // rolled back.
                    let set_rcode = rng.chance(30);
                    let fail_inside = rng.chance(10);
                    let res = b.opt(|o| {
                        o.set_udp_payload_size(item.udp);
                        o.set_version(item.version);
                        o.set_dnssec_ok(item.dok);
                        if set_rcode {
                            o.set_rcode(
                                domain::base::iana::OptRcode::NXDOMAIN,
                            );
                        }
                        for (code, data) in &item.opts {
                            o.push(
                                &UnknownOptData::new(
                                    OptionCode::from_int(*code),
                                    data,
                                )
                                .unwrap(),
                            )?;
                        }
                        if fail_inside {
                            // provoke an append error
                            let huge = vec![0u8; 70000];
                            o.push_raw_option(
                                OptionCode::from_int(65002),
                                0,
                                |t| t.append_slice(&huge),
                            )?;
                            if o.as_target().as_ref().len() > 65535 {
                                // only unlimited targets get here
                            }
                        }
                        Ok(())
                    });
                    ok = res.is_ok();
                    if ok && fail_inside {
                        // an unlimited target swallowed the huge option:
                        // beyond the 65535 domain, stop here.
                        return;
                    }
                    if ok {
                        if set_rcode {
                            model.rcode_low = 3;
                        }
                        model.sec[2].push(Item::Opt(item));
                    }
                } else {
                    let r = gen_rec(&mut rng, &pool, big);
                    log.push(format!("ad {} {}", r.owner(), r.rtype()));
                    ok = b.push(r.clone()).is_ok();
                    if ok {
                        model.sec[2].push(Item::Rec(r));
                    }
                }
            }
            Stage::Gone => unreachable!(),
        }
        let ctx = format!("{ctx} -> ok={ok}");
        {
            let t = target_of(&stage);
            let s: &[u8] = t.as_ref();
            MAXLEN.fetch_max(s.len(), Ordering::Relaxed);
            if ok { OKS.fetch_add(1, Ordering::Relaxed); } else { FAILS.fetch_add(1, Ordering::Relaxed); }
            if ok && s.len() > 0x4000 { OVER4000.fetch_add(1, Ordering::Relaxed); }
        }
        if !ok {
            let t = target_of(&stage);
            let s: &[u8] = t.as_ref();
            assert_eq!(s, &before[..], "{ctx}: failed push changed octets");
            let c = Message::from_slice(s).unwrap().header_counts();
            assert_eq!(c, counts_before, "{ctx}: failed push changed counts");
        }
        if !big || step % 4 == 0 || !ok {
            verify(&stage, &model, &ctx);
        }
    }
    let ctx = format!("{label} seed {seed} end log {log:?}");
    verify(&stage, &model, &ctx);
    let dgram: Vec<u8> = {
        let t = target_of(&stage);
        let s: &[u8] = t.as_ref();
        s.to_vec()
    };
    copy_check::<Vec<u8>>(&dgram, &model, &ctx);
    copy_check::<StaticCompressor<Vec<u8>>>(&dgram, &model, &ctx);
    copy_check::<TreeCompressor<Vec<u8>>>(&dgram, &model, &ctx);
    copy_check::<HashCompressor<StreamTarget<Vec<u8>>>>(&dgram, &model, &ctx);
}

/// Re-pushes everything parsed from `dgram` (so all names are `ParsedName`s,
/// many of them compressed) into a fresh builder and checks the result
/// against the same model.
fn copy_check<C: Tgt>(dgram: &[u8], model: &Model, ctx: &str) {
    let ctx = format!("copy to {} of {ctx}", C::label());
    let src = Message::from_slice(dgram).unwrap();
    let mut b = MessageBuilder::from_target(C::make())
        .ok()
        .unwrap()
        .question();
    b.header_mut().set_rcode(src.header().rcode());
    for q in src.question() {
        b.push(q.unwrap()).unwrap();
    }
    let mut b = b.answer();
    for rr in src.answer().unwrap() {
        let rr = rr
            .unwrap()
            .into_any_record::<AllRecordData<_, ParsedName<_>>>()
            .unwrap();
        b.push(rr).unwrap();
    }
    let mut b = b.authority();
    for rr in src.authority().unwrap() {
        let rr = rr
            .unwrap()
            .into_any_record::<AllRecordData<_, ParsedName<_>>>()
            .unwrap();
        b.push(&rr).unwrap();
    }
    let mut b = b.additional();
    for rr in src.additional().unwrap() {
        let rr = rr.unwrap();
        if rr.rtype() == Rtype::OPT {
            let rec = rr
                .to_record::<domain::base::opt::Opt<_>>()
                .unwrap()
                .unwrap();
            let rec = domain::base::opt::OptRecord::from(rec);
            b.opt(|o| {
                // something to be replaced
                o.set_udp_payload_size(1);
                o.push(
                    &UnknownOptData::new(OptionCode::from_int(9), b"zz")
                        .unwrap(),
                )?;
                o.clone_from(&rec)
            })
            .unwrap();
        } else {
            let rr = rr
                .into_any_record::<AllRecordData<_, ParsedName<_>>>()
                .unwrap();
            b.push(rr).unwrap();
        }
    }
    if b.as_slice().len() <= 65535 {
        verify(&Stage::Ad(b), model, &ctx);
    }
}

fn seeds() -> std::ops::Range<u64> {
    let n: u64 = std::env::var("C02_SEEDS")
        .ok()
        .and_then(|s| s.parse().ok())
        .unwrap_or(300);
    let s0: u64 = std::env::var("C02_SEED0")
        .ok()
        .and_then(|s| s.parse().ok())
        .unwrap_or(1);
    s0..s0 + n
}

macro_rules! fuzz {
    ($name:ident, $t:ty, $big:expr) => {
        #[test]
        fn $name() {
            for seed in seeds() {
                run::<$t>(seed, $big);
            }
            eprintln!("{}: maxlen {} ok {} failed {} ok-above-0x4000 {} (global)", stringify!($name), MAXLEN.load(Ordering::Relaxed), OKS.load(Ordering::Relaxed), FAILS.load(Ordering::Relaxed), OVER4000.load(Ordering::Relaxed));
        }
    };
}

fuzz!(vec_plain, Vec<u8>, false);
fuzz!(vec_static, StaticCompressor<Vec<u8>>, false);
fuzz!(vec_tree, TreeCompressor<Vec<u8>>, false);
fuzz!(vec_hash, HashCompressor<Vec<u8>>, false);
fuzz!(arr_plain, Array<600>, false);
fuzz!(arr_static, StaticCompressor<Array<600>>, false);
fuzz!(arr_tree, TreeCompressor<Array<600>>, false);
fuzz!(arr_hash, HashCompressor<Array<600>>, false);
fuzz!(stream_plain, StreamTarget<Vec<u8>>, false);
fuzz!(stream_static, StaticCompressor<StreamTarget<Vec<u8>>>, false);
fuzz!(stream_tree, TreeCompressor<StreamTarget<Vec<u8>>>, false);
fuzz!(stream_hash, HashCompressor<StreamTarget<Vec<u8>>>, false);
fuzz!(stream_arr_hash, HashCompressor<StreamTarget<Array<900>>>, false);
fuzz!(stream_arr_tree, TreeCompressor<StreamTarget<Array<900>>>, false);
#[cfg(feature = "bytes")]
fuzz!(bytes_plain, bytes::BytesMut, false);
#[cfg(feature = "bytes")]
fuzz!(bytes_hash, HashCompressor<bytes::BytesMut>, false);
#[cfg(feature = "bytes")]
fuzz!(bytes_tree, TreeCompressor<bytes::BytesMut>, false);

// Large messages: across 0x3FFF and up to 0xFFFF.
fuzz!(big_vec_static, StaticCompressor<Vec<u8>>, true);
fuzz!(big_vec_tree, TreeCompressor<Vec<u8>>, true);
fuzz!(big_vec_hash, HashCompressor<Vec<u8>>, true);
fuzz!(big_stream_plain, StreamTarget<Vec<u8>>, true);
fuzz!(big_stream_tree, TreeCompressor<StreamTarget<Vec<u8>>>, true);
fuzz!(big_stream_hash, HashCompressor<StreamTarget<Vec<u8>>>, true);
fuzz!(big_stream_static, StaticCompressor<StreamTarget<Vec<u8>>>, true);
