// scratch: cargo test --offline -j4 --features zonefile --test scratch_fuzz -- --nocapture
#![cfg(feature = "zonefile")]
use domain::zonefile::inplace::{Entry, Zonefile};
use std::panic;

struct Rng(u64);
impl Rng {
    fn next(&mut self) -> u64 {
        self.0 ^= self.0 << 13;
        self.0 ^= self.0 >> 7;
        self.0 ^= self.0 << 17;
        self.0
    }
    fn below(&mut self, n: usize) -> usize {
        (self.next() % n as u64) as usize
    }
}

const PIECES: &[&str] = &[
    " ", " ", "\t", "\n", "\n", "\r\n", "(", ")", ";", "\"", "\\", "\\.", "\\032",
    "\\\"", "@", "$ORIGIN", "$TTL", "$INCLUDE", "IN", "CH", "A", "AAAA", "TXT",
    "MX", "NS", "SOA", "CNAME", "SRV", "HTTPS", "SVCB", "NSEC", "NSEC3", "DS",
    "DNSKEY", "RRSIG", "TYPE65280", "CLASS1", "\\#", "0", "4", "10", "3600",
    "1.2.3.4", "::1", "01020304", "example.com.", "www", ".", "a.b", "abc",
    "AQID", "=", "alpn=h2", "key1=", "ipv4hint=1.2.3.4", "port=53", "-", "é",
    "\u{0}", "\u{c}", "\\0", "\\25", "\\256", "aaaaaaaaaaaaaaaaaaaaaaaaaaaaaaaaaaaaaaaaaaaaaaaaaaaaaaaaaaaaaaa",
    "CAA", "issue", "LOC", "N", "E", "m", "HINFO", "NAPTR", "TLSA", "SSHFP",
    "CDS", "ZONEMD", "OPENPGPKEY", "NSEC3PARAM", "DNAME", "PTR", "MB", "MINFO",
    "WKS", "NULL", "foo.", "20240101000000",
];


const TEMPLATES: &[&str] = &[
    "A 1.2.3.4", "AAAA ::1", "TXT abc \"d e f\" gh", "MX 10 mail.example.com.", "NS ns",
    "SOA ns admin ( 1 2 3 4 5 )", "CNAME www", "SRV 1 2 3 target.", "HTTPS 1 . alpn=h2 port=53",
    "SVCB 1 foo. key1=\"quoted value\" ipv4hint=1.2.3.4", "NSEC next. A AAAA TYPE65280",
    "NSEC3 1 0 10 AABB 2T7B4G4VSA5SMI47K61MV5BV1A22BOJR A RRSIG", "DS 1 8 2 01020304 0506",
    "DNSKEY 256 3 8 AQID AQID", "RRSIG A 8 2 3600 20240101000000 20230101000000 1 example.com. AQID AQID",
    "TYPE65280 \\# 4 01020304", "A \\# 4 01020304", "TYPE65280 \\# 0", "CAA 0 issue \"ca.example\"",
    "HINFO cpu \"os x\"", "NAPTR 1 2 \"u\" \"E2U+sip\" \"!^.*$!sip:a@b!\" .", "TLSA 1 1 1 0102", "SSHFP 1 1 0102",
    "ZONEMD 1 1 1 0102", "OPENPGPKEY AQID", "NSEC3PARAM 1 0 10 -", "DNAME foo.", "PTR @", "MINFO a b",
    "NULL \\# 1 00", "CDS 0 0 0 00", "CDNSKEY 0 3 0 AA==", "RP a b", "IPSECKEY 1 1 1 1.2.3.4 AQID", "IPSECKEY 1 3 1 gw. AQID", "IPSECKEY 1 0 0 .",
];

fn gen_input(rng: &mut Rng) -> Vec<u8> {
    let lines = 1 + rng.below(4);
    let mut out: Vec<u8> = Vec::new();
    for _ in 0..lines {
        match rng.below(12) {
            0 => { out.extend_from_slice(b"$ORIGIN "); out.extend_from_slice(PIECES[rng.below(PIECES.len())].as_bytes()); out.push(b'\n'); continue }
            1 => { out.extend_from_slice(b"$TTL "); out.extend_from_slice(PIECES[rng.below(PIECES.len())].as_bytes()); out.push(b'\n'); continue }
            _ => {}
        }
        let owners = ["www", "@", "", "a.b.", "\"q\"", "x\\.y", "*", "."];
        let mut toks: Vec<String> = vec![owners[rng.below(owners.len())].to_string()];
        match rng.below(6) { 0 => toks.push("IN".into()), 1 => toks.push("3600".into()), 2 => { toks.push("IN".into()); toks.push("60".into()) }, 3 => { toks.push("60".into()); toks.push("IN".into()) }, _ => {} }
        for t in TEMPLATES[rng.below(TEMPLATES.len())].split(' ') { toks.push(t.to_string()); }
        // mutate tokens
        let muts = [0,0,1,1,1,2,3][rng.below(7)];
        for _ in 0..muts {
            let i = rng.below(toks.len());
            match rng.below(9) {
                0 => { toks.remove(i); if toks.is_empty() { toks.push(String::new()) } }
                1 => { let p = PIECES[rng.below(PIECES.len())].to_string(); toks.insert(i, p) }
                2 => { toks[i] = PIECES[rng.below(PIECES.len())].to_string() }
                3 => { toks[i] = format!("\"{}\"", toks[i]) }
                4 => { let p = PIECES[rng.below(PIECES.len())]; toks[i].push_str(p) }
                5 => { if !toks[i].is_empty() { let k = rng.below(toks[i].len()); if toks[i].is_char_boundary(k) { toks[i].insert(k, '\\') } } }
                6 => { if !toks[i].is_empty() { let k = rng.below(toks[i].len()); if toks[i].is_char_boundary(k) { toks[i].truncate(k) } } }
                7 => { toks[i] = toks[i].repeat(1 + rng.below(70)) }
                _ => { let p = PIECES[rng.below(PIECES.len())]; toks[i] = format!("{}{}", p, toks[i]) }
            }
        }
        for (n, t) in toks.iter().enumerate() {
            if n > 0 {
                match rng.below(30) {
                    0 => out.extend_from_slice(b"  "), 1 => out.extend_from_slice(b"\t"), 2 => out.extend_from_slice(b" ( "),
                    3 => out.extend_from_slice(b" ) "), 4 => out.extend_from_slice(b" ; c\n "), 5 => out.extend_from_slice(b"\n"),
                    6 => out.extend_from_slice(b""), 7 => out.extend_from_slice(b"("), 8 => out.extend_from_slice(b")"),
                    _ => out.push(b' '),
                }
            }
            out.extend_from_slice(t.as_bytes());
        }
        if rng.below(10) != 0 { out.push(b'\n'); }
    }
    out
}

fn run(data: &[u8], load: bool) -> usize {
    let mut zone = if load {
        let mut r = data;
        Zonefile::load(&mut r).unwrap()
    } else {
        Zonefile::from(data)
    };
    if data.len() % 5 != 0 {
        zone.set_origin("example.org.".parse().unwrap());
    }
    if data.len() % 7 != 0 {
        zone.set_default_class(domain::base::iana::Class::IN);
    }
    let mut n = 0;
    loop {
        match zone.next_entry() {
            Ok(Some(Entry::Record(r))) => {
                let _ = format!("{}", r);
                n += 1
            }
            Ok(Some(_)) => n += 1,
            Ok(None) => break,
            Err(e) => {
                let _ = format!("{}", e);
                break;
            }
        }
        if n > 10000 {
            panic!("does not terminate");
        }
    }
    n
}

#[test]
fn fuzz_total() {
    let iters: u64 = std::env::var("FUZZ_ITERS").ok().and_then(|s| s.parse().ok()).unwrap_or(300000);
    let seed: u64 = std::env::var("FUZZ_SEED").ok().and_then(|s| s.parse().ok()).unwrap_or(0x1234_5678_9abc_def1);
    let mut rng = Rng(seed);
    panic::set_hook(Box::new(|_| {}));
    let mut found = 0;
    let mut recs = 0;
    for _ in 0..iters {
        let data = gen_input(&mut rng);
        for load in [true, false] {
            let d = data.clone();
            let res = panic::catch_unwind(move || run(&d, load));
            match res {
                Ok(n) => recs += n,
                Err(e) => {
                    let msg = e.downcast_ref::<String>().cloned().or_else(|| e.downcast_ref::<&str>().map(|s| s.to_string())).unwrap_or_default();
                    eprintln!("PANIC load={} input={:?} msg={}", load, String::from_utf8_lossy(&data), msg);
                    found += 1;
                    break;
                }
            }
        }
        if found >= 15 { break; }
    }
    let _ = panic::take_hook();
    eprintln!("records read: {}, panics: {}", recs, found);
    assert_eq!(found, 0);
}

#[test]
fn templates_ok() {
    for t in TEMPLATES {
        let s = format!("www 60 IN {}\n", t);
        let mut zone = Zonefile::from(s.as_str());
        zone.set_origin("example.org.".parse().unwrap());
        match zone.next_entry() {
            Ok(Some(Entry::Record(r))) => eprintln!("OK   {:40} => {}", t, r),
            Ok(_) => eprintln!("??   {}", t),
            Err(e) => eprintln!("ERR  {:40} => {}", t, e),
        }
    }
}

#[test]
fn err_hist() {
    let mut rng = Rng(0x1234_5678_9abc_def1);
    let mut hist = std::collections::HashMap::<String, (usize, String)>::new();
    for _ in 0..20000 {
        let data = gen_input(&mut rng);
        let mut zone = Zonefile::from(&data[..]);
        zone.set_origin("example.org.".parse().unwrap());
        zone.set_default_class(domain::base::iana::Class::IN);
        loop {
            match zone.next_entry() {
                Ok(Some(_)) => { hist.entry("ok".into()).or_default().0 += 1; }
                Ok(None) => break,
                Err(e) => {
                    let m = format!("{}", e);
                    let m = m.splitn(3, ':').nth(2).unwrap().to_string();
                    let ent = hist.entry(m).or_default();
                    ent.0 += 1; ent.1 = String::from_utf8_lossy(&data).to_string();
                    break;
                }
            }
        }
    }
    let mut v: Vec<_> = hist.into_iter().collect();
    v.sort_by_key(|x| std::cmp::Reverse(x.1.0));
    for (k, (n, ex)) in v { eprintln!("{:6} {:50} {:?}", n, k, ex); }
}

// ---- metamorphic ----
// '~' prefix: token may be escaped; all tokens may be quoted unless prefixed with '!'
const MTEMPLATES: &[&str] = &[
    "A 1.2.3.4", "AAAA ::1", "TXT ~abc ~def ~gh", "MX 10 ~mail.example.com.", "NS ~ns",
    "SOA ~ns ~admin 1 2 3 4 5", "CNAME ~www", "SRV 1 2 3 ~target.", "HTTPS 1 ~. !alpn=h2 !port=53",
    "SVCB 1 ~foo. !ipv4hint=1.2.3.4", "NSEC ~next. A AAAA TYPE65280",
    "NSEC3 1 0 10 AABB 2T7B4G4VSA5SMI47K61MV5BV1A22BOJR A RRSIG", "DS 1 8 2 01020304 0506",
    "DNSKEY 256 3 8 AQID AQID", "RRSIG A 8 2 3600 20240101000000 20230101000000 1 ~example.com. AQID AQID",
    "TYPE65280 !\\# 4 01020304", "A !\\# 4 01020304", "TYPE65280 !\\# 0", "CAA 0 issue ~ca.example",
    "HINFO ~cpu ~os", "NAPTR 1 2 ~u ~E2U+sip ~!^.*$!sip:a@b! ~.", "TLSA 1 1 1 0102", "SSHFP 1 1 0102",
    "ZONEMD 1 1 1 0102", "OPENPGPKEY AQID", "NSEC3PARAM 1 0 10 -", "DNAME ~foo.", "PTR ~@", "MINFO ~a ~b",
    "NULL !\\# 1 00", "CDS 0 0 0 00", "CDNSKEY 0 3 0 AA==", "RP ~a ~b", "IPSECKEY 1 1 1 1.2.3.4 AQID", "IPSECKEY 1 3 1 ~gw. AQID",
    "TXT ~aaaaaaaaaaaaaaaaaaaaaaaaaaaaaaaaaaaaaaaaaaaaaaaaaaaaaaaaaaaaaaaaaaaaaaaaaaaaaaaaaaaaaaaaaaaaaaaaaaaaaaaaaaaaaaaaaaaaaaaaaaaaaaaaaaaaaaaaaaaaaaaaaaaaaaaaaaaaaaaaaaaaaaaaaaaaaaaaaaaaaaaaaaaaaaaaaaaaaaaaaaaaaaaaaaaaaaaaaaaaaaaaaaaaaaaaaaaaaaaaaaaaaaaaaaaaaaa ~b",
    "MX 10 ~aaaaaaaaaaaaaaaaaaaaaaaaaaaaaaaaaaaaaaaaaaaaaaaaaaaaaaaaaaaaaaa.bbbbbbbbbbbbbbbbbbbbbbbbbbbbbbbbbbbbbbbbbbbbbbbbbbbbbbbbbbbbbbb.ccccccccccccccccccccccccccccccccccccccccccccccccccccccccccccccc.ddddddddddddddddddddddddddddddddddddddddddddddddd",
];

fn esc(rng: &mut Rng, t: &str) -> String {
    let mut out = String::new();
    for c in t.chars() {
        if c == '.' || c == '@' { out.push(c); continue; }
        match rng.below(8) {
            0 => out.push_str(&format!("\\{:03}", c as u32)),
            1 if !c.is_ascii_digit() => { out.push('\\'); out.push(c) }
            _ => out.push(c),
        }
    }
    out
}

fn render(rng: &mut Rng, recs: &[Vec<String>], fancy: bool) -> String {
    let mut out = String::new();
    let mut last_owner: Option<String> = None;
    for toks in recs {
        let mut open = 0;
        if fancy && rng.below(6) == 0 { out.push_str("; a comment line\n"); }
        if fancy && rng.below(6) == 0 { out.push_str("\n"); }
        if fancy && rng.below(8) == 0 { out.push_str("   \t ; indented comment\n"); }
        for (n, t) in toks.iter().enumerate() {
            let (escapable, quotable, t) = if let Some(t) = t.strip_prefix('~') { (true, true, t) } else if let Some(t) = t.strip_prefix('!') { (false, false, t) } else { (false, true, t.as_str()) };
            if n == 0 && fancy && last_owner.as_deref() == Some(t) && rng.below(2) == 0 {
                // inherited owner
                out.push_str(if rng.below(2) == 0 { " " } else { "\t" });
                continue;
            }
            if n == 0 { last_owner = Some(t.to_string()); }
            if n > 0 && !(n == 1 && out.ends_with(|c| c == ' ' || c == '\t')) {
                if !fancy { out.push(' ') } else {
                    match rng.below(12) {
                        0 => out.push_str("  "), 1 => out.push('\t'),
                        2 => { out.push_str(" ( "); open += 1 }
                        3 => { out.push_str("("); open += 1 }
                        4 if open > 0 => out.push_str(" ; c ) \" (\n "),
                        5 if open > 0 => out.push_str("\n"),
                        6 if open > 0 => out.push_str(" \r\n\t"),
                        7 if open > 0 => { out.push_str(" ) "); open -= 1 }
                        8 if open > 0 => { out.push_str(")"); open -= 1 }
                        _ => out.push(' '),
                    }
                }
            }
            let mut s = t.to_string();
            if fancy && escapable && rng.below(3) == 0 { s = esc(rng, t); }
            if fancy && quotable && s != "@" && rng.below(4) == 0 { s = format!("\"{}\"", s); }
            out.push_str(&s);
        }
        while open > 0 { out.push_str(if rng.below(2) == 0 { " )" } else { ")" }); open -= 1; }
        if fancy { match rng.below(6) { 0 => out.push_str(" ; trailing"), 1 => out.push_str("  "), 2 => out.push_str("\r"), _ => {} } }
        out.push('\n');
    }
    out
}

fn read_all(s: &str) -> Result<Vec<String>, String> {
    let mut zone = Zonefile::from(s);
    zone.set_origin("example.org.".parse().unwrap());
    zone.set_default_class(domain::base::iana::Class::IN);
    let mut res = Vec::new();
    loop {
        match zone.next_entry() {
            Ok(Some(Entry::Record(r))) => res.push(format!("{} | {:?}", r, r)),
            Ok(Some(_)) => res.push("include".into()),
            Ok(None) => return Ok(res),
            Err(e) => return Err(format!("{}", e).splitn(3, ':').nth(2).unwrap().to_string()),
        }
    }
}

#[test]
fn fuzz_meta() {
    let iters: u64 = std::env::var("FUZZ_ITERS").ok().and_then(|s| s.parse().ok()).unwrap_or(100000);
    let seed: u64 = std::env::var("FUZZ_SEED").ok().and_then(|s| s.parse().ok()).unwrap_or(0x1234_5678_9abc_def1);
    let mut rng = Rng(seed);
    let mut found = 0;
    let mut seen = std::collections::HashSet::new();
    for _ in 0..iters {
        let n = 1 + rng.below(3);
        let mut recs = Vec::new();
        for _ in 0..n {
            let owners = ["~www", "@", "~a.b.", "~x.y", "~*", "~."];
            let mut toks: Vec<String> = vec![owners[rng.below(owners.len())].to_string()];
            match rng.below(6) { 0 => toks.push("IN".into()), 1 => toks.push("3600".into()), 2 => { toks.push("IN".into()); toks.push("60".into()) }, 3 => { toks.push("60".into()); toks.push("IN".into()) }, _ => {} }
            for t in MTEMPLATES[rng.below(MTEMPLATES.len())].split(' ') { toks.push(t.to_string()); }
            recs.push(toks);
        }
        let a = render(&mut rng, &recs, false);
        let b = render(&mut rng, &recs, true);
        let ra = read_all(&a);
        let rb = read_all(&b);
        if ra != rb {
            let key = format!("{:?}", rb.as_ref().err());
            if seen.insert(key) {
                eprintln!("MISMATCH\n--- A: {:?}\n{:?}\n--- B: {:?}\n{:?}\n", a, ra, b, rb);
                found += 1;
            }
        }
        if found >= 12 { break; }
    }
    assert_eq!(found, 0);
}
