// Pre-existing violations of property C03 in the UNMODIFIED library
// (default features).
//
// Place as tests/pre_c03_default.rs and run
//
//     cargo test --offline --test pre_c03_default --no-fail-fast
//
// Every test below asserts what the property demands.  A test that FAILS on
// the unmodified library is a confirmed pre-existing violation (the failure
// message shows the observed value).

use core::str::FromStr;
use domain::base::name::{
    Name, NameBuilder, ParsedName, PushError, RelativeName, ToLabelIter,
    ToRelativeName, UncertainName,
};
use domain::dep::octseq::parse::Parser;

/// 25 labels of 9 octets: 250 octets of relative name.
fn rel250() -> RelativeName<Vec<u8>> {
    let mut builder = NameBuilder::new_vec();
    for _ in 0..25 {
        builder.append_label(b"123456789").unwrap();
    }
    let res = builder.finish();
    assert_eq!(res.len(), 250);
    res
}

//--- P1: NameBuilder::append_slice / append_label starting a NEW label
//        forget to count the length octet (known: asserted by the pinned
//        test builder::test::name_limit).

#[test]
fn p1_append_label_keeps_relative_name_within_254() {
    let mut builder = rel250().into_builder();
    // 250 + 1 + 4 = 255 > 254: must be refused.
    let res = builder.append_label(b"1234");
    let name = builder.clone().finish();
    assert!(
        name.len() <= 254,
        "append_label returned {:?}; finish() gives a relative name of {} \
         octets; into_name() gives an absolute name of {} octets",
        res,
        name.len(),
        builder.into_name().unwrap().len()
    );
}

#[test]
fn p1_append_slice_keeps_relative_name_within_254() {
    let mut builder = rel250().into_builder();
    let res = builder.append_slice(b"1234");
    let name = builder.into_name().unwrap();
    assert!(
        Name::from_slice(name.as_slice()).is_ok(),
        "append_slice returned {:?}; into_name() gives {} octets",
        res,
        name.len()
    );
}

//--- P2: Chain::new allows relative + relative = 255 octets, i.e. a
//        relative name (ToRelativeName) of 255 octets (asserted by the
//        pinned test chain::test::name_limit).  Flattening it gives a
//        RelativeName of 255 and then an absolute name of 256 octets.

#[test]
fn p2_relative_chain_is_at_most_254() {
    let five = RelativeName::from_octets(b"\x041234".to_vec()).unwrap();
    match rel250().chain(five) {
        Err(_) => {}
        Ok(chain) => {
            let flat: RelativeName<Vec<u8>> = chain.to_relative_name();
            let abs = flat.clone().into_absolute().map(|n| n.len());
            assert!(
                flat.len() <= 254
                    && RelativeName::from_slice(flat.as_slice()).is_ok(),
                "relative chain of {} octets accepted; to_relative_name() \
                 gives {} octets; into_absolute() gives {:?}",
                chain.compose_len(),
                flat.len(),
                abs
            );
        }
    }
}

//--- P3: UncertainName::from_octets checks 255 for both variants, so a
//        relative name of 255 octets is accepted.

#[test]
fn p3_uncertain_from_octets_relative_is_at_most_254() {
    let mut octets = rel250().into_octets();
    octets.extend_from_slice(b"\x041234"); // 255 octets, no root label
    assert_eq!(octets.len(), 255);
    assert!(RelativeName::from_octets(octets.clone()).is_err());
    match UncertainName::from_octets(octets) {
        Err(_) => {}
        Ok(name) => {
            let rel = name.as_relative().map(|n| n.len());
            let abs = name.into_absolute().map(|n| n.len());
            panic!(
                "accepted; relative variant has {:?} octets, \
                 into_absolute() gives {:?}",
                rel, abs
            );
        }
    }
}

//--- P4: UncertainName: the root name does not survive a text round trip
//        (Display prints "..", FromStr refuses both "." and "..").

#[test]
fn p4_uncertain_root_text_round_trip() {
    let root = UncertainName::<Vec<u8>>::root();
    let text = root.to_string();
    let back = UncertainName::<Vec<u8>>::from_str(&text);
    assert!(
        matches!(back, Ok(ref name) if *name == root),
        "Display gives {:?}, reading it back gives {:?}; from_str(\".\") \
         gives {:?}",
        text,
        back,
        UncertainName::<Vec<u8>>::from_str(".")
    );
}

//--- P5: ParsedName: Display of the root name is the empty string, which
//        cannot be read back (Name prints ".").

#[test]
fn p5_parsed_root_text_round_trip() {
    let mut parser = Parser::from_static(b"\0");
    let parsed = ParsedName::parse(&mut parser).unwrap();
    assert!(parsed.is_root());
    let text = parsed.to_string();
    let back = Name::<Vec<u8>>::from_str(&text);
    assert!(
        matches!(back, Ok(ref name) if *name == parsed),
        "Display gives {:?}, reading it back gives {:?}",
        text,
        back
    );
}

//--- P6: UncertainName: the empty relative name does not survive a wire
//        round trip (from_octets(b"") is an error although
//        UncertainName::empty() exists and RelativeName::from_octets(b"")
//        is fine).

#[test]
fn p6_uncertain_empty_wire_round_trip() {
    let empty = UncertainName::<Vec<u8>>::empty();
    let back = UncertainName::from_octets(empty.as_slice().to_vec());
    assert!(
        matches!(back, Ok(ref name) if *name == empty),
        "from_octets(b\"\") gives {:?}",
        back
    );
}

//--- P7: failed construction steps are not neutral: append_dec_u8_label
//        that runs into the name limit leaves the digits pushed so far as an
//        open label (and ends a label that was open before).

#[test]
fn p7_failed_append_dec_u8_label_is_neutral() {
    // 251 octets: "123" needs 4 more -> 255 > 254 -> must fail.
    let mut builder = rel250().into_builder();
    builder.append_label(b"").ok(); // no-op
    builder.push(b'x').unwrap(); // 252, label open
    builder.end_label();
    let before = builder.clone().finish();
    assert_eq!(before.len(), 252);

    assert_eq!(builder.append_dec_u8_label(123), Err(PushError::LongName));
    let after_in_label = builder.in_label();
    let after = builder.finish();
    assert!(
        !after_in_label && after.as_slice() == before.as_slice(),
        "failed step left in_label = {}, name grew from {} to {} octets \
         (tail {:?})",
        after_in_label,
        before.len(),
        after.len(),
        &after.as_slice()[before.len()..]
    );
}

#[test]
fn p7_failed_append_hex_digit_label_keeps_label_open() {
    let mut builder = rel250().into_builder();
    builder.append_slice(b"ab").unwrap(); // 253, label open
    assert!(builder.in_label());
    // a new one-digit label needs 2 octets -> 255 > 254 -> fails
    assert_eq!(builder.append_hex_digit_label(7), Err(PushError::LongName));
    assert!(
        builder.in_label(),
        "failed append_hex_digit_label ended the label under construction"
    );
}
