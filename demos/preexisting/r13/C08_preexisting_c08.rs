#![cfg(feature = "unstable-zonetree")]
#![allow(dead_code, unused_imports)]
// Pre-existing violations of property C08 in the UNMODIFIED library.
//
// Place this file in tests/ of the repository and run
//
//   RUST_BACKTRACE=0 cargo test --offline --features unstable-zonetree --test preexisting_c08
//
// Every test states the property (the zone reached through a history answers
// like a zone built directly from the same records) and FAILS on the
// unmodified library; the panic message shows the differing answers.
use core::str::FromStr;

use bytes::Bytes;
use domain::base::iana::{Class, Rtype};
use domain::base::{Message, MessageBuilder, Name, ParsedName, Serial, Ttl};
use domain::rdata::{A, Cname, Ds, Ns, Soa, Txt, ZoneRecordData};
use domain::zonetree::types::ZoneUpdate;
use domain::zonetree::update::ZoneUpdater;
use domain::zonetree::{
    Rrset, SharedRrset, StoredName, StoredRecord, Zone, ZoneBuilder, parsed,
};

fn n(s: &str) -> StoredName {
    Name::from_str(s).unwrap()
}

fn rec(owner: &str, ttl: u32, data: ZoneRecordData<Bytes, StoredName>) -> StoredRecord {
    StoredRecord::new(n(owner), Class::IN, Ttl::from_secs(ttl), data)
}

fn a(owner: &str, ip: &str) -> StoredRecord {
    rec(owner, 300, ZoneRecordData::A(A::from_str(ip).unwrap()))
}

fn txt(owner: &str, t: &str) -> StoredRecord {
    rec(
        owner,
        300,
        ZoneRecordData::Txt(Txt::build_from_slice(t.as_bytes()).unwrap()),
    )
}

fn cname(owner: &str, target: &str) -> StoredRecord {
    rec(owner, 300, ZoneRecordData::Cname(Cname::new(n(target))))
}

fn ns(owner: &str, target: &str) -> StoredRecord {
    rec(owner, 300, ZoneRecordData::Ns(Ns::new(n(target))))
}

fn ds(owner: &str, tag: u16) -> StoredRecord {
    rec(
        owner,
        300,
        ZoneRecordData::Ds(
            Ds::new(
                tag,
                domain::base::iana::SecurityAlgorithm::ED25519,
                domain::base::iana::DigestAlgorithm::SHA256,
                Bytes::from_static(&[1, 2, 3, 4]),
            )
            .unwrap(),
        ),
    )
}

fn soa(serial: u32) -> StoredRecord {
    rec(
        "example.",
        3600,
        ZoneRecordData::Soa(Soa::new(
            n("ns.example."),
            n("admin.example."),
            Serial(serial),
            Ttl::from_secs(10),
            Ttl::from_secs(10),
            Ttl::from_secs(10),
            Ttl::from_secs(60),
        )),
    )
}

/// Build directly from the records.
fn fresh(records: &[StoredRecord]) -> Zone {
    let mut zf = parsed::Zonefile::new(n("example."), Class::IN);
    for r in records {
        zf.insert(r.clone()).unwrap();
    }
    Zone::from(ZoneBuilder::try_from(zf).map_err(|_| "builder").unwrap())
}

fn empty() -> Zone {
    ZoneBuilder::new(n("example."), Class::IN).build()
}

/// Canonical text rendering of an answer.
fn ask(zone: &Zone, qname: &str, qtype: Rtype) -> String {
    let qname = n(qname);
    let mut q = MessageBuilder::new_vec().question();
    q.push((qname.clone(), qtype)).unwrap();
    let req: Message<Vec<u8>> = q.into();
    let answer = zone.read().query(qname, qtype).unwrap();
    let msg: Message<Bytes> = answer
        .to_message(&req, MessageBuilder::new_bytes())
        .into_message();
    let mut out = format!(
        "{} aa={}",
        msg.header().rcode(),
        msg.header().aa()
    );
    let sections = [
        ("AN", msg.answer().unwrap()),
        ("AU", msg.authority().unwrap()),
        ("AD", msg.additional().unwrap()),
    ];
    for (tag, sec) in sections {
        let mut lines = Vec::new();
        for r in sec.limit_to::<ZoneRecordData<_, ParsedName<_>>>() {
            let r = r.unwrap();
            lines.push(format!(
                "{} {} {} {}",
                r.owner(),
                r.ttl().as_secs(),
                r.rtype(),
                r.data()
            ));
        }
        lines.sort();
        out.push_str(&format!(" | {tag}: {}", lines.join("; ")));
    }
    out
}

type Upd = ZoneUpdate<StoredRecord>;

async fn apply(zone: &Zone, ups: Vec<Upd>) {
    let mut u = ZoneUpdater::<StoredName>::new(zone.clone()).await.unwrap();
    for up in ups {
        u.apply(up).await.unwrap();
    }
}

fn rrset_of(recs: &[StoredRecord]) -> SharedRrset {
    let mut rr = Rrset::new(recs[0].rtype(), recs[0].ttl());
    for r in recs {
        rr.push_data(r.data().clone());
    }
    rr.into_shared()
}

fn label(s: &str) -> domain::base::name::OwnedLabel {
    domain::base::name::OwnedLabel::from_str(s).unwrap()
}

/// Compares the answers of `got` with those of the directly built zone
/// `want` and returns the differences.
fn diff(got: &Zone, want: &Zone, queries: &[(&str, Rtype)]) -> Vec<String> {
    let mut out = Vec::new();
    for (q, t) in queries {
        let g = ask(got, q, *t);
        let w = ask(want, q, *t);
        if g != w {
            out.push(format!("{q} {t}:\n   history: {g}\n   fresh:   {w}"));
        }
    }
    out
}

fn check(tag: &str, d: Vec<String>) {
    assert!(d.is_empty(), "{tag}: answers differ from a zone built directly from the same records:\n{}", d.join("\n"));
}

// P1: full replacement (DeleteAllRecords + re-add of a subset): a name that
// is not part of the new content keeps answering NOERROR/NODATA instead of
// NXDOMAIN, and it hides the wildcard that now covers it.
#[tokio::test]
async fn p1_full_replacement_leaves_nodata_ghosts() {
    let z = fresh(&[
        soa(1),
        a("old.example.", "1.1.1.1"),
        a("keep.example.", "2.2.2.2"),
    ]);
    apply(
        &z,
        vec![
            Upd::DeleteAllRecords,
            Upd::AddRecord(a("keep.example.", "2.2.2.2")),
            Upd::AddRecord(a("*.example.", "4.4.4.4")),
            Upd::Finished(soa(2)),
        ],
    )
    .await;
    let f = fresh(&[
        soa(2),
        a("keep.example.", "2.2.2.2"),
        a("*.example.", "4.4.4.4"),
    ]);
    check(
        "P1",
        diff(
            &z,
            &f,
            &[
                ("keep.example.", Rtype::A),
                ("other.example.", Rtype::A),
                ("old.example.", Rtype::A),
                ("old.example.", Rtype::TXT),
            ],
        ),
    );
}

// P1b: same without a wildcard: plain NXDOMAIN expected.
#[tokio::test]
async fn p1b_full_replacement_nxdomain() {
    let z = fresh(&[soa(1), a("old.example.", "1.1.1.1")]);
    apply(&z, vec![Upd::DeleteAllRecords, Upd::Finished(soa(2))]).await;
    let f = fresh(&[soa(2)]);
    check("P1b", diff(&z, &f, &[("old.example.", Rtype::A)]));
}

// P2: an empty non-terminal created through the updater answers NXDOMAIN
// instead of NODATA (known, listed in the property text).
#[tokio::test]
async fn p2_ent_by_update_is_nxdomain() {
    let z = fresh(&[soa(1)]);
    apply(
        &z,
        vec![
            Upd::AddRecord(a("a.b.example.", "2.2.2.2")),
            Upd::Finished(soa(2)),
        ],
    )
    .await;
    let f = fresh(&[soa(2), a("a.b.example.", "2.2.2.2")]);
    check("P2", diff(&z, &f, &[("b.example.", Rtype::A)]));
}

// P3: deleting a record that never existed creates a node that carries the
// NXDOMAIN marker: a no-op deletion changes the answer from the wildcard
// synthesis to NXDOMAIN.
#[tokio::test]
async fn p3_noop_delete_shadows_wildcard() {
    let z = fresh(&[soa(1), a("*.example.", "4.4.4.4")]);
    apply(
        &z,
        vec![
            Upd::DeleteRecord(a("x.example.", "7.7.7.7")),
            Upd::Finished(soa(2)),
        ],
    )
    .await;
    let f = fresh(&[soa(2), a("*.example.", "4.4.4.4")]);
    check("P3", diff(&z, &f, &[("x.example.", Rtype::A), ("y.example.", Rtype::A)]));
}

// P4: the glue of a delegation is a snapshot taken when the zone was built;
// changing the address of the name server through the updater leaves the
// old address in the referral.
#[tokio::test]
async fn p4_stale_glue_after_update() {
    let z = fresh(&[
        soa(1),
        ns("sub.example.", "ns.example."),
        a("ns.example.", "9.9.9.9"),
    ]);
    apply(
        &z,
        vec![
            Upd::DeleteRecord(a("ns.example.", "9.9.9.9")),
            Upd::AddRecord(a("ns.example.", "8.8.8.8")),
            Upd::Finished(soa(2)),
        ],
    )
    .await;
    let f = fresh(&[
        soa(2),
        ns("sub.example.", "ns.example."),
        a("ns.example.", "8.8.8.8"),
    ]);
    check(
        "P4",
        diff(
            &z,
            &f,
            &[
                ("ns.example.", Rtype::A),
                ("sub.example.", Rtype::A),
                ("x.sub.example.", Rtype::A),
            ],
        ),
    );
}

// P5: the TTL of an RRset assembled by the updater is the TTL of the record
// added last: the same set of records gives different answers depending on
// the order of the additions.
#[tokio::test]
async fn p5_ttl_depends_on_order_of_additions() {
    let r1 = rec("t.example.", 300, ZoneRecordData::A(A::from_str("1.1.1.1").unwrap()));
    let r2 = rec("t.example.", 100, ZoneRecordData::A(A::from_str("2.2.2.2").unwrap()));
    let z1 = fresh(&[soa(1)]);
    apply(&z1, vec![Upd::AddRecord(r1.clone()), Upd::AddRecord(r2.clone()), Upd::Finished(soa(2))]).await;
    let z2 = fresh(&[soa(1)]);
    apply(&z2, vec![Upd::AddRecord(r2.clone()), Upd::AddRecord(r1.clone()), Upd::Finished(soa(2))]).await;
    check("P5 (order 1 vs order 2)", diff(&z1, &z2, &[("t.example.", Rtype::A)]));
}

// P7: deleting the records of a name that still has descendants makes it an
// empty non-terminal; it answers NXDOMAIN instead of NODATA.
#[tokio::test]
async fn p7_delete_makes_ent_nxdomain() {
    let z = fresh(&[soa(1), a("b.example.", "1.1.1.1"), a("a.b.example.", "2.2.2.2")]);
    apply(
        &z,
        vec![Upd::DeleteRecord(a("b.example.", "1.1.1.1")), Upd::Finished(soa(2))],
    )
    .await;
    let f = fresh(&[soa(2), a("a.b.example.", "2.2.2.2")]);
    check("P7", diff(&z, &f, &[("a.b.example.", Rtype::A), ("b.example.", Rtype::A)]));
}

// P8: deleting the only name below an empty non-terminal of a zone built
// with the ZoneBuilder leaves the empty non-terminal behind (NODATA instead
// of NXDOMAIN, wildcard not applied).
#[tokio::test]
async fn p8_ent_outlives_its_last_descendant() {
    let z = fresh(&[soa(1), a("a.b.example.", "2.2.2.2"), a("*.example.", "4.4.4.4")]);
    apply(
        &z,
        vec![Upd::DeleteRecord(a("a.b.example.", "2.2.2.2")), Upd::Finished(soa(2))],
    )
    .await;
    let f = fresh(&[soa(2), a("*.example.", "4.4.4.4")]);
    check("P8", diff(&z, &f, &[("b.example.", Rtype::A), ("a.b.example.", Rtype::A)]));
}

// P9: a rolled back addition leaves its tree node behind. The node has lost
// its NXDOMAIN marker with the rollback, so the name answers NODATA
// (NOERROR) instead of NXDOMAIN and hides the wildcard.
#[tokio::test]
async fn p9_rollback_leaves_nodata_node() {
    let z = fresh(&[soa(1), a("keep.example.", "2.2.2.2")]);
    {
        let mut u = ZoneUpdater::<StoredName>::new(z.clone()).await.unwrap();
        u.apply(Upd::AddRecord(a("ghost.example.", "6.6.6.6"))).await.unwrap();
        // dropped without Finished: rolled back
    }
    let f = fresh(&[soa(1), a("keep.example.", "2.2.2.2")]);
    check("P9", diff(&z, &f, &[("keep.example.", Rtype::A), ("ghost.example.", Rtype::A)]));
}

// P10: WritableZoneNode::make_cname() documents that regular data at the
// node is lost, but the RRsets stay in the node and come back when the node
// is made regular again.
#[tokio::test]
async fn p10_make_cname_then_regular_resurrects_rrsets() {
    let z = fresh(&[soa(1), a("c.example.", "1.1.1.1")]);
    let cn = cname("c.example.", "keep.example.");
    {
        let mut w = z.write().await;
        let root = w.open(false).await.unwrap();
        let c = root.update_child(&label("c")).await.unwrap();
        c.make_cname(domain::zonetree::SharedRr::from(cn.clone())).await.unwrap();
        drop(c);
        drop(root);
        w.commit(false).await.unwrap();
    }
    let f = fresh(&[soa(1), cn.clone()]);
    check("P10 step 1", diff(&z, &f, &[("c.example.", Rtype::A)]));
    {
        let mut w = z.write().await;
        let root = w.open(false).await.unwrap();
        let c = root.update_child(&label("c")).await.unwrap();
        c.make_regular().await.unwrap();
        drop(c);
        drop(root);
        w.commit(false).await.unwrap();
    }
    let f = fresh(&[soa(1)]);
    check("P10 step 2", diff(&z, &f, &[("c.example.", Rtype::A)]));
}

// P6: CNAME and NS records added through the updater are stored as plain
// RRsets and not honoured (known, listed in the property text).
#[tokio::test]
async fn p6_cname_and_cut_by_update_not_honoured() {
    let z = fresh(&[soa(1), a("keep.example.", "2.2.2.2")]);
    apply(
        &z,
        vec![
            Upd::AddRecord(cname("c.example.", "keep.example.")),
            Upd::AddRecord(ns("sub.example.", "keep.example.")),
            Upd::Finished(soa(2)),
        ],
    )
    .await;
    let f = fresh(&[
        soa(2),
        a("keep.example.", "2.2.2.2"),
        cname("c.example.", "keep.example."),
        ns("sub.example.", "keep.example."),
    ]);
    check(
        "P6",
        diff(&z, &f, &[("c.example.", Rtype::A), ("sub.example.", Rtype::A), ("x.sub.example.", Rtype::A)]),
    );
}
