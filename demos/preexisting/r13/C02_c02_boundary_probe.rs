// Scratch probe of the UNMODIFIED library around the 0x3FFF/0x4000
// compression-pointer boundary and the 255/256 record-count boundary.
//
// Place as tests/c02_boundary_probe.rs and run:
//     cargo test --offline -j4 --test c02_boundary_probe
//
// Outcome on the unmodified worktree: passes (no violation found).

use domain::base::iana::{Class, Rtype};
use domain::base::message_builder::{
    HashCompressor, StaticCompressor, StreamTarget, TreeCompressor,
};
use domain::base::name::ToName;
use domain::base::rdata::UnknownRecordData;
use domain::base::wire::Composer;
use domain::base::{Message, MessageBuilder, Name, ParsedName, Ttl};
use domain::rdata::{AllRecordData, Mx, Ns};
use std::str::FromStr;

type N = Name<Vec<u8>>;

fn probe<T: Composer>(target: T, first_name_at: usize, what: &str) {
    let mut msg = MessageBuilder::from_target(target)
        .ok()
        .unwrap()
        .answer();
    // pad with root-owned opaque records so that the next record starts at
    // `first_name_at`.
    loop {
        let cur = msg.as_slice().len();
        if cur == first_name_at {
            break;
        }
        let left = first_name_at - cur;
        let size = if left > 3000 { 1500 } else { left };
        assert!(size >= 11, "{what}: cannot pad {left}");
        msg.push((
            Name::root_slice(),
            Class::IN,
            Ttl::from_secs(0),
            UnknownRecordData::from_octets(
                Rtype::from_int(0xFF01),
                vec![0xC0; size - 11],
            )
            .unwrap(),
        ))
        .unwrap();
    }
    let pads = msg.counts().ancount();
    let names: Vec<N> = [
        "target.Example.org",
        "sub.target.example.org",
        "TARGET.example.ORG",
        "other.example.org",
        "a.sub.target.example.org",
        "org",
        "example.org",
        "zzz.a.sub.target.example.org",
    ]
    .iter()
    .map(|s| N::from_str(s).unwrap())
    .collect();
    let mut want: Vec<(N, N)> = Vec::new();
    for (i, owner) in names.iter().enumerate() {
        let data = &names[(i * 3 + 1) % names.len()];
        if i % 2 == 0 {
            msg.push((owner, 5, Ns::new(data))).unwrap();
        } else {
            msg.push((owner, 5, Mx::new(i as u16, data))).unwrap();
        }
        want.push((owner.clone(), data.clone()));
    }
    // rewind by going to authority and back, then push again
    let mut msg = msg.authority();
    for owner in names.iter().rev() {
        msg.push((owner, 5, Ns::new(owner))).unwrap();
    }
    let mut msg = msg.answer();
    for owner in names.iter().rev() {
        msg.push((owner, 5, Ns::new(&names[0]))).unwrap();
        want.push((owner.clone(), names[0].clone()));
    }

    let octets = msg.as_slice().to_vec();
    let parsed = Message::from_slice(&octets).unwrap();
    assert_eq!(
        usize::from(parsed.header_counts().ancount()),
        usize::from(pads) + want.len()
    );
    let mut it = parsed.answer().unwrap();
    for _ in 0..pads {
        it.next().unwrap().unwrap();
    }
    for (i, (owner, data)) in want.iter().enumerate() {
        let rr = it
            .next()
            .unwrap()
            .unwrap_or_else(|e| panic!("{what}@{first_name_at:#x} r{i}: {e}"))
            .into_any_record::<AllRecordData<_, ParsedName<_>>>()
            .unwrap_or_else(|e| panic!("{what}@{first_name_at:#x} r{i}: {e}"));
        assert!(
            rr.owner().name_eq(owner),
            "{what}@{first_name_at:#x} r{i}: owner {} != {}",
            rr.owner(),
            owner
        );
        let got = match rr.data() {
            AllRecordData::Ns(ns) => ns.nsdname().to_name::<Vec<u8>>(),
            AllRecordData::Mx(mx) => mx.exchange().to_name::<Vec<u8>>(),
            _ => panic!("unexpected type"),
        };
        assert!(
            got.name_eq(data),
            "{what}@{first_name_at:#x} r{i}: data {} != {}",
            got,
            data
        );
    }
    assert!(it.next().is_none());
    assert_eq!(it.next_section().unwrap().unwrap().pos(), octets.len());
}

#[test]
fn names_first_written_around_0x4000() {
    for at in 0x3FE0..0x4030 {
        probe(Vec::new(), at, "Vec");
        probe(StaticCompressor::new(Vec::new()), at, "Static");
        probe(TreeCompressor::new(Vec::new()), at, "Tree");
        probe(HashCompressor::new(Vec::new()), at, "Hash");
        probe(
            HashCompressor::new(StreamTarget::new_vec()),
            at,
            "Hash<Stream>",
        );
        probe(
            TreeCompressor::new(StreamTarget::new_vec()),
            at,
            "Tree<Stream>",
        );
        probe(
            StaticCompressor::new(StreamTarget::new_vec()),
            at,
            "Static<Stream>",
        );
    }
}

#[test]
fn more_than_255_items_per_section() {
    let name = N::from_str("example.com").unwrap();
    let mut msg =
        MessageBuilder::from_target(HashCompressor::new(Vec::new()))
            .unwrap()
            .question();
    for i in 0..300u16 {
        msg.push((&name, Rtype::from_int(i))).unwrap();
    }
    let mut msg = msg.answer();
    for _ in 0..257 {
        msg.push((&name, 1, Ns::new(&name))).unwrap();
    }
    let mut msg = msg.additional();
    for _ in 0..513 {
        msg.push((&name, 1, Ns::new(&name))).unwrap();
    }
    let c = msg.counts();
    assert_eq!(
        (c.qdcount(), c.ancount(), c.nscount(), c.arcount()),
        (300, 257, 0, 513)
    );
    let parsed = msg.into_message();
    assert_eq!(parsed.question().count(), 300);
    let (_, an, ns, ar) = parsed.sections().unwrap();
    assert_eq!(an.count(), 257);
    assert_eq!(ns.count(), 0);
    assert_eq!(ar.map(|r| r.unwrap()).count(), 513);
}
