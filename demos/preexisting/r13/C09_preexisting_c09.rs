// Scratch tests that show behaviour of the UNMODIFIED library violating
// property C09 (snapshot isolation of zone readers).
//
// Place in tests/ of the repository and run with:
//
//   cargo test --offline -j4 --features unstable-zonetree --test preexisting_c09
//
// Every test asserts the EXPECTED (property conforming) behaviour, so every
// test in this file FAILS on the unmodified library.

#![cfg(feature = "unstable-zonetree")]

use std::collections::BTreeSet;
use std::str::FromStr;
use std::sync::{Arc, Mutex};

use domain::base::iana::{Class, Rcode};
use domain::base::name::Label;
use domain::base::{Name, Rtype, Ttl};
use domain::rdata::{A, Cname, Ns, ZoneRecordData};
use domain::zonetree::types::ZoneCut;
use domain::zonetree::{
    AnswerContent, ReadableZone, Rrset, SharedRr, SharedRrset, StoredName,
    WritableZoneNode, Zone, ZoneBuilder,
};

//------------ helpers --------------------------------------------------------

fn name(s: &str) -> StoredName {
    Name::from_str(s).unwrap()
}

fn a_rrset(ips: &[&str]) -> SharedRrset {
    let mut r = Rrset::new(Rtype::A, Ttl::from_secs(60));
    for ip in ips {
        r.push_data(ZoneRecordData::A(A::from_str(ip).unwrap()));
    }
    SharedRrset::new(r)
}

fn label(s: &str) -> &Label {
    Label::from_slice(s.as_bytes()).unwrap()
}

/// Descends from the apex write node; labels are given top-down.
async fn child(
    root: &dyn WritableZoneNode,
    labels: &[&str],
) -> Box<dyn WritableZoneNode> {
    let mut node = root.update_child(label(labels[0])).await.unwrap();
    for l in &labels[1..] {
        node = node.update_child(label(l)).await.unwrap();
    }
    node
}

/// All records seen by a walk as "owner TYPE rdata" strings.
fn walk(reader: &dyn ReadableZone) -> BTreeSet<String> {
    let out = Arc::new(Mutex::new(BTreeSet::new()));
    let out2 = out.clone();
    reader.walk(Box::new(move |owner, rrset, _cut| {
        for data in rrset.data() {
            out2.lock().unwrap().insert(format!(
                "{} {} {}",
                owner,
                rrset.rtype(),
                data
            ));
        }
    }));
    let res = out.lock().unwrap().clone();
    res
}

/// The answer to a query as (rcode, sorted "TYPE rdata" strings).
fn query(
    reader: &dyn ReadableZone,
    qname: &str,
    qtype: Rtype,
) -> (Rcode, Vec<String>) {
    let answer = reader.query(name(qname), qtype).unwrap();
    let mut recs = Vec::new();
    match answer.content() {
        AnswerContent::Data(rrset) => {
            for data in rrset.data() {
                recs.push(format!("{} {}", rrset.rtype(), data));
            }
        }
        AnswerContent::Cname(rr) => {
            recs.push(format!("CNAME {}", rr.data()));
        }
        AnswerContent::NoData => {}
    }
    recs.sort();
    (answer.rcode(), recs)
}

/// example.com with a wildcard A record and a www A record.
fn base_zone() -> Zone {
    let mut b = ZoneBuilder::new(name("example.com"), Class::IN);
    b.insert_rrset(&name("www.example.com"), a_rrset(&["192.0.2.1"]))
        .unwrap();
    b.insert_rrset(&name("*.example.com"), a_rrset(&["192.0.2.99"]))
        .unwrap();
    b.build()
}

//------------ P1 -------------------------------------------------------------

/// A held reader's answer changes while the writer merely *creates a node*
/// (uncommitted): nodes are inserted into the shared tree unversioned, and
/// an existing node shadows the wildcard at every version.
#[tokio::test]
async fn p1_uncommitted_node_creation_hides_wildcard_from_held_reader() {
    let zone = base_zone();
    let reader = zone.read();

    let before = query(&*reader, "new.example.com", Rtype::A);
    assert_eq!(before, (Rcode::NOERROR, vec!["A 192.0.2.99".to_string()]));

    let writer = zone.write().await;
    let root = writer.open(false).await.unwrap();
    let node = child(&*root, &["new"]).await;
    node.update_rrset(a_rrset(&["198.51.100.7"])).await.unwrap();

    // Nothing has been committed, and the reader was taken before the
    // writer even existed.
    let during = query(&*reader, "new.example.com", Rtype::A);
    assert_eq!(
        before, during,
        "held reader sees a different answer while the writer is editing"
    );
}

//------------ P2 -------------------------------------------------------------

/// ... and the same after the writer ABANDONED its changes: the node stays in
/// the tree for ever, so every later reader gets NODATA instead of the
/// wildcard answer although no change was ever committed.
#[tokio::test]
async fn p2_abandoned_node_creation_hides_wildcard_for_ever() {
    let zone = base_zone();
    let before = query(&*zone.read(), "new.example.com", Rtype::A);

    {
        let writer = zone.write().await;
        let root = writer.open(false).await.unwrap();
        let node = child(&*root, &["new"]).await;
        node.update_rrset(a_rrset(&["198.51.100.7"])).await.unwrap();
        drop(node);
        drop(root);
        drop(writer); // abandon
    }

    let after = query(&*zone.read(), "new.example.com", Rtype::A);
    assert_eq!(
        before, after,
        "an abandoned change altered the answer new readers get"
    );
}

//------------ P3 -------------------------------------------------------------

/// Same mechanism without a wildcard: NXDOMAIN turns into NOERROR/NODATA for
/// a held reader as soon as the writer creates the node (and stays so after
/// an abort).
#[tokio::test]
async fn p3_uncommitted_node_creation_turns_nxdomain_into_nodata() {
    let mut b = ZoneBuilder::new(name("example.com"), Class::IN);
    b.insert_rrset(&name("www.example.com"), a_rrset(&["192.0.2.1"]))
        .unwrap();
    let zone = b.build();
    let reader = zone.read();
    let before = query(&*reader, "new.example.com", Rtype::A);
    assert_eq!(before.0, Rcode::NXDOMAIN);

    let writer = zone.write().await;
    let root = writer.open(false).await.unwrap();
    let node = child(&*root, &["new"]).await;
    node.update_rrset(a_rrset(&["198.51.100.7"])).await.unwrap();

    let during = query(&*reader, "new.example.com", Rtype::A);
    assert_eq!(before, during, "held reader: rcode changed before commit");
}

//------------ P4 -------------------------------------------------------------

/// A write node obtained from open() keeps the version number it was created
/// with. Used after commit() it edits the *published* version in place: a
/// reader taken after the commit sees its records change while it is held,
/// and without any further commit.
#[tokio::test]
async fn p4_stale_write_node_edits_published_version_in_place() {
    let zone = base_zone();
    let mut writer = zone.write().await;
    let root = writer.open(false).await.unwrap();
    let www = child(&*root, &["www"]).await;
    www.update_rrset(a_rrset(&["192.0.2.2"])).await.unwrap();
    writer.commit(false).await.unwrap();

    let reader = zone.read();
    let before = walk(&*reader);

    // No open() since the commit: `www` still carries the committed version.
    www.update_rrset(a_rrset(&["203.0.113.66"])).await.unwrap();

    let after = walk(&*reader);
    assert_eq!(before, after, "held reader's records changed");
}

//------------ P5 -------------------------------------------------------------

/// A write node outlives its writer *and the update lock*: after writer 1 was
/// dropped (changes rolled back, lock released) its node still writes into
/// the version number that writer 2 is now preparing, so abandoned writer 1
/// gets data published by writer 2's commit. Writers are not serialised and
/// an abandoned writer's change becomes visible.
#[tokio::test]
async fn p5_node_of_dropped_writer_writes_into_next_writers_version() {
    let zone = base_zone();

    let w1 = zone.write().await;
    let root1 = w1.open(false).await.unwrap();
    let www1 = child(&*root1, &["www"]).await;
    drop(root1);
    drop(w1); // abandoned, lock released

    let mut w2 = zone.write().await;
    let root2 = w2.open(false).await.unwrap();
    let mail = child(&*root2, &["mail"]).await;
    mail.update_rrset(a_rrset(&["192.0.2.25"])).await.unwrap();

    // writer 1's left-over node, used while writer 2 holds the lock
    www1.update_rrset(a_rrset(&["203.0.113.66"])).await.unwrap();

    w2.commit(false).await.unwrap();

    let got = query(&*zone.read(), "www.example.com", Rtype::A);
    assert_eq!(
        got,
        (Rcode::NOERROR, vec!["A 192.0.2.1".to_string()]),
        "a record written through the abandoned writer got published"
    );
}

//------------ P6 -------------------------------------------------------------

/// make_zone_cut() ("Any regular or CNAME data at this node will be lost")
/// does not mask the node's RRsets in the new version: queries of the new
/// version answer with a referral, but a walk of the same reader still
/// enumerates the old A record, which is not part of that version any more.
#[tokio::test]
async fn p6_walk_enumerates_records_hidden_by_a_new_zone_cut() {
    let zone = base_zone();
    let mut writer = zone.write().await;
    let root = writer.open(false).await.unwrap();
    let www = child(&*root, &["www"]).await;
    let mut ns = Rrset::new(Rtype::NS, Ttl::from_secs(60));
    ns.push_data(ZoneRecordData::Ns(Ns::new(name("ns.example.net"))));
    www.make_zone_cut(ZoneCut {
        name: name("www.example.com"),
        ns: SharedRrset::new(ns),
        ds: None,
        glue: vec![],
    })
    .await
    .unwrap();
    writer.commit(false).await.unwrap();

    let reader = zone.read();
    // The query side: www is delegated, no A record is served.
    let q = query(&*reader, "www.example.com", Rtype::A);
    assert_eq!(q.1, Vec::<String>::new());

    let walked = walk(&*reader);
    assert!(
        !walked.contains("www.example.com A 192.0.2.1"),
        "walk enumerates a record that queries of the same version do \
         not have: {walked:#?}"
    );
}

/// The same for make_cname().
#[tokio::test]
async fn p7_walk_enumerates_records_hidden_by_a_new_cname() {
    let zone = base_zone();
    let mut writer = zone.write().await;
    let root = writer.open(false).await.unwrap();
    let www = child(&*root, &["www"]).await;
    www.make_cname(SharedRr::new(
        Ttl::from_secs(60),
        ZoneRecordData::Cname(Cname::new(name("host.example.net"))),
    ))
    .await
    .unwrap();
    writer.commit(false).await.unwrap();

    let reader = zone.read();
    let q = query(&*reader, "www.example.com", Rtype::A);
    assert_eq!(q.1, vec!["CNAME host.example.net.".to_string()]);

    let walked = walk(&*reader);
    assert!(
        !walked.contains("www.example.com A 192.0.2.1"),
        "walk enumerates a record that queries of the same version do \
         not have: {walked:#?}"
    );
}
