// Pre-existing violations of property C03 in the UNMODIFIED library that
// need the `serde` feature.
//
// Place as tests/pre_c03_serde.rs and run
//
//     cargo test --offline --features serde --test pre_c03_serde --no-fail-fast
//
// Every test asserts what the property demands; a test that FAILS on the
// unmodified library is a confirmed pre-existing violation.
#![cfg(feature = "serde")]

use domain::base::name::{Chain, Name, RelativeName, ToLabelIter, ToName};

type TestChain = Chain<RelativeName<Vec<u8>>, Name<Vec<u8>>>;

/// `Chain` derives `Deserialize`, so the length check of `Chain::new` is
/// bypassed: two valid names chain into an "absolute name" of 509 octets.
#[test]
fn s1_deserialized_chain_is_at_most_255() {
    let mut text = String::new();
    for _ in 0..50 {
        text.push_str("four.");
    }
    let left = format!("{}com", text); // 254 octets, relative
    let right = format!("{}com.", text); // 255 octets, absolute
    let json = format!(r#"{{"left":"{}","right":"{}"}}"#, left, right);

    // The checked constructor refuses this combination.
    let l: RelativeName<Vec<u8>> = left.parse().unwrap();
    let r: Name<Vec<u8>> = right.parse().unwrap();
    assert_eq!((l.len(), r.len()), (254, 255));
    assert!(l.chain(r).is_err());

    match serde_json::from_str::<TestChain>(&json) {
        Err(_) => {}
        Ok(chain) => {
            let len = chain.compose_len();
            let flat: Name<Vec<u8>> = chain.to_name();
            panic!(
                "deserialized a chain of {} octets; to_name() gives a Name \
                 of {} octets (from_slice says {:?})",
                len,
                flat.len(),
                Name::from_slice(flat.as_slice()).map(|_| ())
            );
        }
    }
}

/// The human readable form of a relative name is refused by `FromStr` when
/// it ends in a dot, but `Deserialize` silently drops the dot.
#[test]
fn s2_relative_name_deserialize_agrees_with_from_str() {
    assert!("www.example.com.".parse::<RelativeName<Vec<u8>>>().is_err());
    let res = serde_json::from_str::<RelativeName<Vec<u8>>>(
        r#""www.example.com.""#,
    );
    assert!(
        res.is_err(),
        "deserialized absolute text into relative name {:?}",
        res
    );
}
