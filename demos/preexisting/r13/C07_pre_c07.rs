// Pre-existing (unmodified library) deviations from property C07.
//
//   cargo test --offline --features zonefile --test pre_c07 -- --nocapture
//
// Every test below FAILS on the unmodified library (worktree HEAD c8fa939);
// each failure message shows observed vs expected.
#![cfg(feature = "zonefile")]

use domain::base::iana::Class;
use domain::zonefile::inplace::{Entry, Zonefile};

fn drain(mut zone: Zonefile) -> Result<Vec<String>, String> {
    zone.set_origin("example.org.".parse().unwrap());
    zone.set_default_class(Class::IN);
    let mut res = Vec::new();
    loop {
        match zone.next_entry() {
            Ok(Some(Entry::Record(record))) => {
                res.push(format!("{}", record))
            }
            Ok(Some(Entry::Include { .. })) => res.push("$INCLUDE".into()),
            Ok(None) => return Ok(res),
            Err(err) => return Err(format!("{}", err)),
        }
    }
}

fn read(src: &str) -> Result<Vec<String>, String> {
    let mut input = src.as_bytes();
    drain(Zonefile::load(&mut input).unwrap())
}

/// 1. Txt::scan / EntryScanner::scan_charstr_entry: no check of the total
///    length. The reader returns a TXT record with more than 65535 octets of
///    record data (Txt::from_octets refuses such data); composing that
///    record panics ("long TXT rdata: TryFromIntError").
#[test]
fn txt_longer_than_65535_octets() {
    let mut src = String::from("foo IN TXT");
    for _ in 0..300 {
        src.push(' ');
        src.push_str(&"a".repeat(255));
    }
    src.push('\n');
    let mut input = src.as_bytes();
    let mut zone = Zonefile::load(&mut input).unwrap();
    zone.set_origin("example.org.".parse().unwrap());
    match zone.next_entry() {
        Err(_) => {} // expected: an error ("record data too long")
        Ok(Some(Entry::Record(record))) => {
            let res = std::panic::catch_unwind(move || {
                let mut buf = Vec::new();
                record.compose(&mut buf).is_ok()
            });
            panic!(
                "reader accepted 76800 octets of TXT data; \
                 composing the record: {:?}",
                res.map_err(|_| "PANIC")
            );
        }
        Ok(_) => panic!("no entry"),
    }
}

/// 2. SourceBuf::next_item / EntryScanner::_scan_entry: white space behind
///    an opening parenthesis at the start of an entry is taken for
///    indentation, so the owner is read as "inherited".
#[test]
fn space_behind_leading_paren() {
    let tight = read("bar A 192.0.2.1\n(foo A 192.0.2.2 )\n");
    let spaced = read("bar A 192.0.2.1\n( foo A 192.0.2.2 )\n");
    let broken = read("bar A 192.0.2.1\n(\nfoo A 192.0.2.2 )\n");
    assert_eq!(tight.as_ref().map(|r| r.len()), Ok(2));
    assert_eq!(spaced, tight);
    assert_eq!(broken, tight);
}

/// 3. Zonefile::from(&str / &[u8]) does not get the fix Zonefile::load got:
///    without a final line feed the last entry is an error.
#[test]
fn from_str_without_final_newline() {
    let with = drain(Zonefile::from("foo A 192.0.2.1\nbar A 192.0.2.2\n"));
    let without = drain(Zonefile::from("foo A 192.0.2.1\nbar A 192.0.2.2"));
    assert_eq!(with.as_ref().map(|r| r.len()), Ok(2));
    assert_eq!(without, with);
}

/// 4. Escaped spellings of digits: accepted in the TTL field of a record
///    (scan_ctr goes through scan_ascii_str), refused in $TTL and in integer
///    record data fields (impl_scan_unsigned uses Symbol::into_digit which
///    refuses every escape).
#[test]
fn escaped_digits() {
    let plain = read("$TTL 30\nfoo 30 IN MX 10 mail\n");
    assert_eq!(plain.as_ref().map(|r| r.len()), Ok(1));
    assert_eq!(read("$TTL 30\nfoo \\051\\048 IN MX 10 mail\n"), plain);
    assert_eq!(read("$TTL 30\nfoo 30 IN MX \\049\\048 mail\n"), plain);
    assert_eq!(read("$TTL \\051\\048\nfoo 30 IN MX 10 mail\n"), plain);
}

/// 5. The same for Base 16/Base 64 data and the NSEC3 salt: `\c` is
///    accepted, `\DDD` of the same character is refused
///    (Symbol::into_char refuses decimal escapes).
#[test]
fn decimal_escapes_in_encoded_data() {
    let plain = read("foo DNSKEY 256 3 8 AQID\nfoo NSEC3PARAM 1 0 10 -\n");
    assert_eq!(plain.as_ref().map(|r| r.len()), Ok(2));
    assert_eq!(
        read("foo DNSKEY 256 3 8 \\AQID\nfoo NSEC3PARAM 1 0 10 \\-\n"),
        plain
    );
    assert_eq!(
        read("foo DNSKEY 256 3 8 \\065QID\nfoo NSEC3PARAM 1 0 10 -\n"),
        plain
    );
    assert_eq!(
        read("foo DNSKEY 256 3 8 AQID\nfoo NSEC3PARAM 1 0 10 \\045\n"),
        plain
    );
}

/// 6. SourceBuf::next_item: a carriage return counts as white space *and*
///    as indentation (the dedicated "ignore CR" arm behind it is dead code),
///    so a stray CR in front of an owner makes the owner "inherited".
#[test]
fn carriage_return_in_front_of_owner() {
    let plain = read("bar A 192.0.2.1\nfoo A 192.0.2.2\n");
    assert_eq!(plain.as_ref().map(|r| r.len()), Ok(2));
    assert_eq!(read("bar A 192.0.2.1\n\rfoo A 192.0.2.2\n"), plain);
}

/// 7. An empty quoted token reads as the number 0 (impl_scan_unsigned never
///    sees a digit and returns its initial value).
#[test]
fn empty_token_is_zero() {
    assert!(read("foo MX \"\" mail\n").is_err(), "{:?}", read("foo MX \"\" mail\n"));
    assert!(read("$TTL \"\"\nfoo A 192.0.2.1\n").is_err());
}
