// Pre-existing violations of property C16 in the UNMODIFIED library.
//
// Every test below states what the property demands and therefore FAILS on
// the unmodified library (each failure is one confirmed violation).
//
// Place this file in `tests/c16_preexisting.rs` of the repository and run:
//
//   cargo test --offline -j4 --features unstable-server-transport,unstable-client-transport --test c16_preexisting -- --test-threads=1
//
// No network is used: servers are driven through in-memory listeners/sockets.
#![cfg(all(
    feature = "unstable-server-transport",
    feature = "unstable-client-transport"
))]

use std::collections::VecDeque;
use std::future::{Future, Ready, ready};
use std::io;
use std::net::SocketAddr;
use std::pin::Pin;
use std::sync::{Arc, Mutex};
use std::task::{Context, Poll};
use std::time::Duration;

use futures_util::StreamExt;
use futures_util::stream::{Once, once};
use tokio::io::{AsyncReadExt, AsyncWriteExt, DuplexStream, ReadBuf};
use tokio::sync::{Barrier, Notify, mpsc};

use domain::base::iana::{Class, OptionCode, Rcode};
use domain::base::message_builder::TreeCompressor;
use domain::base::name::Name;
use domain::base::{Message, MessageBuilder, Rtype, Ttl};
use domain::dep::octseq::OctetsBuilder;
use domain::net::server::ConnectionConfig;
use domain::net::server::buf::VecBufSource;
use domain::net::server::dgram::{self, DgramServer};
use domain::net::server::message::{Request, UdpTransportContext};
use domain::net::server::middleware::cookies::CookiesMiddlewareSvc;
use domain::net::server::middleware::edns::EdnsMiddlewareSvc;
use domain::net::server::middleware::mandatory::MandatoryMiddlewareSvc;
use domain::net::server::service::{CallResult, Service, ServiceResult};
use domain::net::server::single_service::{ComposeReply, ReplyMessage};
use domain::net::server::sock::{AsyncAccept, AsyncDgramSock};
use domain::net::server::stream::{self, StreamServer};
use domain::net::server::util::{mk_builder_for_target, service_fn};
use domain::rdata::{Ns, Txt};

//------------ In-memory listener --------------------------------------------

struct MemListener {
    rx: Mutex<mpsc::UnboundedReceiver<io::Result<DuplexStream>>>,
}

impl AsyncAccept for MemListener {
    type Error = io::Error;
    type StreamType = DuplexStream;
    type Future = Ready<io::Result<DuplexStream>>;

    fn poll_accept(
        &self,
        cx: &mut Context<'_>,
    ) -> Poll<io::Result<(Self::Future, SocketAddr)>> {
        match self.rx.lock().unwrap().poll_recv(cx) {
            Poll::Ready(Some(res)) => Poll::Ready(Ok((
                ready(res),
                "192.0.2.1:4711".parse().unwrap(),
            ))),
            _ => Poll::Pending,
        }
    }
}

//------------ In-memory datagram socket -------------------------------------

struct MemSock {
    inbound: Mutex<VecDeque<(Vec<u8>, SocketAddr)>>,
    notify: Notify,
    outbound: mpsc::UnboundedSender<(Vec<u8>, SocketAddr)>,
}

impl MemSock {
    fn deliver(&self, dgram: Vec<u8>, from: SocketAddr) {
        self.inbound.lock().unwrap().push_back((dgram, from));
        self.notify.notify_one();
    }
}

impl AsyncDgramSock for MemSock {
    fn poll_send_to(
        &self,
        _cx: &mut Context<'_>,
        data: &[u8],
        dest: &SocketAddr,
    ) -> Poll<io::Result<usize>> {
        let _ = self.outbound.send((data.to_vec(), *dest));
        Poll::Ready(Ok(data.len()))
    }

    fn readable(
        &self,
    ) -> Pin<Box<dyn Future<Output = io::Result<()>> + '_ + Send>> {
        Box::pin(async move {
            loop {
                if !self.inbound.lock().unwrap().is_empty() {
                    return Ok(());
                }
                self.notify.notified().await;
            }
        })
    }

    fn try_recv_buf_from(
        &self,
        buf: &mut ReadBuf<'_>,
    ) -> io::Result<(usize, SocketAddr)> {
        match self.inbound.lock().unwrap().pop_front() {
            Some((dgram, from)) => {
                let n = dgram.len().min(buf.remaining());
                buf.put_slice(&dgram[..n]);
                Ok((n, from))
            }
            None => Err(io::ErrorKind::WouldBlock.into()),
        }
    }
}

//------------ Services ------------------------------------------------------

/// Answers with an empty NOERROR response, optionally after all `n`
/// concurrent calls have arrived.
#[derive(Clone)]
struct BarrierSvc(Option<Arc<Barrier>>);

impl Service<Vec<u8>, ()> for BarrierSvc {
    type Target = Vec<u8>;
    type Stream = Once<Ready<ServiceResult<Vec<u8>>>>;
    type Future = Pin<Box<dyn Future<Output = Self::Stream> + Send>>;

    fn call(&self, request: Request<Vec<u8>, ()>) -> Self::Future {
        let barrier = self.0.clone();
        Box::pin(async move {
            if let Some(barrier) = barrier {
                barrier.wait().await;
            }
            let answer = mk_builder_for_target()
                .start_answer(request.message(), Rcode::NOERROR)
                .unwrap();
            once(ready(Ok(CallResult::new(answer.additional()))))
        })
    }
}

/// Answers with five TXT records, about 1000 octets.
fn big_answer(req: Request<Vec<u8>, ()>, _: ()) -> ServiceResult<Vec<u8>> {
    let mut answer = mk_builder_for_target()
        .start_answer(req.message(), Rcode::NOERROR)?;
    let owner = req.message().sole_question().unwrap().into_qname();
    for i in 0..5u8 {
        let txt = Txt::<Vec<u8>>::build_from_slice(&[b'a' + i; 180]).unwrap();
        answer.push((&owner, Class::IN, Ttl::from_secs(60), txt))?;
    }
    Ok(CallResult::new(answer.additional()))
}

fn empty_answer(req: Request<Vec<u8>, ()>, _: ()) -> ServiceResult<Vec<u8>> {
    let answer = mk_builder_for_target()
        .start_answer(req.message(), Rcode::NOERROR)?;
    Ok(CallResult::new(answer.additional()))
}

//------------ Helpers -------------------------------------------------------

fn example_com() -> Name<Vec<u8>> {
    Name::from_chars("example.com".chars()).unwrap()
}

fn stream_query(id: u16) -> Vec<u8> {
    let mut msg = MessageBuilder::new_stream_vec();
    msg.header_mut().set_id(id);
    let mut msg = msg.question();
    msg.push((example_com(), Rtype::A)).unwrap();
    msg.finish().as_stream_slice().to_vec()
}

fn edns_query(id: u16, edns_size: u16) -> Vec<u8> {
    let mut msg = MessageBuilder::new_vec();
    msg.header_mut().set_id(id);
    let mut msg = msg.question();
    msg.push((example_com(), Rtype::TXT)).unwrap();
    let mut msg = msg.additional();
    msg.opt(|opt| {
        opt.set_udp_payload_size(edns_size);
        Ok(())
    })
    .unwrap();
    msg.finish()
}

async fn read_response(
    client: &mut DuplexStream,
) -> io::Result<Message<Vec<u8>>> {
    let mut len = [0u8; 2];
    client.read_exact(&mut len).await?;
    let mut buf = vec![0u8; u16::from_be_bytes(len) as usize];
    client.read_exact(&mut buf).await?;
    Ok(Message::from_octets(buf).unwrap())
}

type StreamSrv<S> = Arc<StreamServer<MemListener, VecBufSource, S>>;

fn start_stream_server<S>(
    svc: S,
    config: stream::Config,
) -> (
    StreamSrv<S>,
    mpsc::UnboundedSender<io::Result<DuplexStream>>,
)
where
    S: Service<Vec<u8>, ()> + Clone,
    S::Stream: Send,
    S::Future: Send,
{
    let (conn_tx, conn_rx) = mpsc::unbounded_channel();
    let listener = MemListener {
        rx: Mutex::new(conn_rx),
    };
    let srv = Arc::new(StreamServer::with_config(
        listener,
        VecBufSource,
        svc,
        config,
    ));
    let run_srv = srv.clone();
    tokio::spawn(async move { run_srv.run().await });
    (srv, conn_tx)
}

type DgramSrv<S> = Arc<DgramServer<MemSock, VecBufSource, S>>;

fn start_dgram_server<S>(
    svc: S,
) -> (DgramSrv<S>, mpsc::UnboundedReceiver<(Vec<u8>, SocketAddr)>)
where
    S: Service<Vec<u8>, ()> + Clone,
    S::Stream: Send,
    S::Future: Send,
    S::Target: 'static,
{
    let (out_tx, out_rx) = mpsc::unbounded_channel();
    let sock = MemSock {
        inbound: Mutex::new(VecDeque::new()),
        notify: Notify::new(),
        outbound: out_tx,
    };
    let srv = Arc::new(DgramServer::with_config(
        sock,
        VecBufSource,
        svc,
        dgram::Config::new(),
    ));
    let run_srv = srv.clone();
    tokio::spawn(async move { run_srv.run().await });
    (srv, out_rx)
}

fn client_addr() -> SocketAddr {
    "192.0.2.1:4711".parse().unwrap()
}

//============ P1 ============================================================
//
// "over UDP never larger than ... 512 without EDNS": a request without EDNS
// that has three questions is answered (FORMERR, RFC 9619) with a datagram
// of almost 800 octets. `mk_error_response()` echoes all questions and
// `MandatoryMiddlewareSvc::truncate()` cannot go below header + questions
// (+ the OPT record `mk_error_response()` adds although the request had
// none).
#[tokio::test(flavor = "multi_thread", worker_threads = 2)]
async fn p1_udp_formerr_for_multi_question_request_exceeds_512() {
    let svc = service_fn(empty_answer, ());
    let svc = EdnsMiddlewareSvc::new(svc);
    let svc = MandatoryMiddlewareSvc::new(svc);
    let (srv, mut out_rx) = start_dgram_server(svc);

    // Hand made request: QUERY, QDCOUNT=3, three 251 octet names.
    let mut req = vec![0x12, 0x34, 0x00, 0x00, 0, 3, 0, 0, 0, 0, 0, 0];
    for c in [b'a', b'b', b'c'] {
        for len in [63usize, 63, 63, 57] {
            req.push(len as u8);
            req.extend(std::iter::repeat(c).take(len));
        }
        req.push(0);
        req.extend_from_slice(&[0, 1, 0, 1]);
    }
    assert!(req.len() < 1024);

    srv.source().deliver(req, client_addr());
    let (dgram, _) = tokio::time::timeout(Duration::from_secs(5), out_rx.recv())
        .await
        .expect("no response")
        .unwrap();
    let response = Message::from_octets(dgram).unwrap();
    assert_eq!(response.header().id(), 0x1234);
    assert!(
        response.as_slice().len() <= 512,
        "response to a request without EDNS has {} octets (TC={}, OPT present={})",
        response.as_slice().len(),
        response.header().tc(),
        response.opt().is_some(),
    );
}

//============ P2 ============================================================
//
// "pipelined ... requests on one stream connection": each is answered exactly
// once. A client pipelines 30 requests and reads slowly. When more than
// `max_queued_responses` (10) responses are ready while the connection is
// busy writing, `ServiceResponseHandler::do_enqueue_response()` logs "queue
// is full" and drops the response.
#[tokio::test(flavor = "multi_thread", worker_threads = 2)]
async fn p2_pipelined_responses_dropped_when_write_queue_full() {
    const N: usize = 30;
    let svc = BarrierSvc(Some(Arc::new(Barrier::new(N))));
    let svc = MandatoryMiddlewareSvc::new(svc);
    let (_srv, conn_tx) = start_stream_server(svc, stream::Config::new());

    // A small pipe: the server's writes block until the client reads.
    let (mut client, server_side) = tokio::io::duplex(64);
    conn_tx.send(Ok(server_side)).unwrap();

    for id in 0..N {
        client.write_all(&stream_query(id as u16)).await.unwrap();
    }

    // Only start reading once all responses had time to be produced.
    tokio::time::sleep(Duration::from_millis(500)).await;

    let mut seen = Vec::new();
    while let Ok(Ok(response)) = tokio::time::timeout(
        Duration::from_secs(1),
        read_response(&mut client),
    )
    .await
    {
        seen.push(response.header().id());
    }
    seen.sort();
    assert_eq!(
        seen.len(),
        N,
        "only {} of {N} pipelined requests were answered: {seen:?}",
        seen.len()
    );
}

//============ P3 ============================================================
//
// "hostile input on one ... connection never prevents other requests from
// being answered": with `accept_connections_at_max == false` the accept loop
// of `StreamServer::run_until_error()` disables its accept branch while at
// the limit and then only waits for a server command. Nothing wakes it when a
// connection ends, so once the limit has been seen no client is ever served
// again.
#[tokio::test(flavor = "multi_thread", worker_threads = 2)]
async fn p3_server_never_accepts_again_after_reaching_connection_limit() {
    let mut config = stream::Config::new();
    config.set_max_concurrent_connections(1);
    config.set_accept_connections_at_max(false);
    let svc = MandatoryMiddlewareSvc::new(BarrierSvc(None));
    let (_srv, conn_tx) = start_stream_server(svc, config);

    // Client A is served.
    let (mut a, server_side) = tokio::io::duplex(4096);
    conn_tx.send(Ok(server_side)).unwrap();
    a.write_all(&stream_query(1)).await.unwrap();
    assert_eq!(read_response(&mut a).await.unwrap().header().id(), 1);

    // Client C connects while A is still connected: refusing it is fine.
    let (mut c, server_side) = tokio::io::duplex(4096);
    conn_tx.send(Ok(server_side)).unwrap();
    c.write_all(&stream_query(2)).await.unwrap();
    tokio::time::sleep(Duration::from_millis(200)).await;

    // Both go away. No connection is open any more.
    drop(a);
    drop(c);
    tokio::time::sleep(Duration::from_millis(300)).await;

    // Client B has to be served.
    let (mut b, server_side) = tokio::io::duplex(4096);
    conn_tx.send(Ok(server_side)).unwrap();
    b.write_all(&stream_query(3)).await.unwrap();
    let response =
        tokio::time::timeout(Duration::from_secs(3), read_response(&mut b))
            .await
            .expect("client B got no answer within 3s although no other connection is open");
    assert_eq!(response.unwrap().header().id(), 3);
}

//============ P4 ============================================================
//
// "sent back to the requester with the request's ID and question": the
// FORMERR that `CookiesMiddlewareSvc::preprocess()` produces for a malformed
// COOKIE option is built from an empty builder. `MandatoryMiddlewareSvc`
// repairs the ID, but the question is missing.
#[tokio::test]
async fn p4_formerr_for_malformed_cookie_lacks_the_question() {
    let svc = service_fn(empty_answer, ());
    let svc = CookiesMiddlewareSvc::new(svc, [7u8; 16]);
    let svc = EdnsMiddlewareSvc::new(svc);
    let svc = MandatoryMiddlewareSvc::new(svc);

    let mut msg = MessageBuilder::new_vec();
    msg.header_mut().set_id(0x4242);
    let mut msg = msg.question();
    msg.push((example_com(), Rtype::A)).unwrap();
    let mut msg = msg.additional();
    msg.opt(|opt| {
        // A COOKIE option of four octets: too short for a client cookie.
        opt.push_raw_option(OptionCode::COOKIE, 4, |target| {
            target.append_slice(&[1, 2, 3, 4])
        })
    })
    .unwrap();
    let request = Request::new(
        client_addr(),
        tokio::time::Instant::now(),
        msg.into_message(),
        UdpTransportContext::new(Some(1232)).into(),
        (),
    );

    let mut stream = svc.call(request).await;
    let (response, _) = stream.next().await.unwrap().unwrap().into_inner();
    let response = response.unwrap().finish();
    let response =
        Message::from_octets(response.as_dgram_slice().to_vec()).unwrap();

    assert_eq!(response.header().id(), 0x4242);
    assert_eq!(response.header().rcode(), Rcode::FORMERR);
    assert_eq!(
        response.header_counts().qdcount(),
        1,
        "the error response does not repeat the question of the request"
    );
}

//============ P5 ============================================================
//
// "never panics the server": `connection::Config::set_max_queued_responses`
// documents that "The value has to be between zero and 1,024", but with zero
// `Connection::with_config()` calls `mpsc::channel(0)`, which panics. The
// panic kills the task of every accepted connection; no client is served.
#[tokio::test(flavor = "multi_thread", worker_threads = 2)]
async fn p5_zero_queued_responses_panics_every_connection() {
    let mut conn_config = ConnectionConfig::new();
    conn_config.set_max_queued_responses(0);
    let mut config = stream::Config::new();
    config.set_connection_config(conn_config);
    let svc = MandatoryMiddlewareSvc::new(BarrierSvc(None));
    let (_srv, conn_tx) = start_stream_server(svc, config);

    let (mut client, server_side) = tokio::io::duplex(4096);
    conn_tx.send(Ok(server_side)).unwrap();
    client.write_all(&stream_query(1)).await.unwrap();
    let response =
        tokio::time::timeout(Duration::from_secs(3), read_response(&mut client))
            .await
            .expect("no response");
    assert_eq!(
        response
            .expect("connection task died (panic in mpsc::channel(0))")
            .header()
            .id(),
        1
    );
}

//============ P6 ============================================================
//
// "over UDP never larger than the smaller of the client's advertised EDNS
// size ... and the configured limit": `MandatoryMiddlewareSvc::truncate()`
// documents that it honours the client's size, but it only looks at the
// transport's hint. Unless `EdnsMiddlewareSvc` is also part of the chain (it
// is not in examples/query-routing.rs nor in the unit tests) a client that
// advertises 512 gets up to 1232 octets.
#[tokio::test(flavor = "multi_thread", worker_threads = 2)]
async fn p6_mandatory_alone_ignores_the_clients_edns_size() {
    let svc = service_fn(big_answer, ());
    let svc = MandatoryMiddlewareSvc::new(svc);
    let (srv, mut out_rx) = start_dgram_server(svc);

    srv.source().deliver(edns_query(9, 512), client_addr());
    let (dgram, _) = tokio::time::timeout(Duration::from_secs(5), out_rx.recv())
        .await
        .expect("no response")
        .unwrap();
    let response = Message::from_octets(dgram).unwrap();
    assert_eq!(response.header().id(), 9);
    assert!(
        response.as_slice().len() <= 512,
        "client advertised 512 octets, response has {}",
        response.as_slice().len()
    );
}

//============ P7 ============================================================
//
// "all response sizes ... never panics": `ReplyMessage` (the `ComposeReply`
// used by the proxying adapters and the qname router) re-composes the
// upstream's answer without name compression and `expect()`s every push to
// succeed. A well-formed 4 kB upstream answer that uses compression grows
// beyond 65535 octets and panics the task handling the request: the client
// never gets an answer (not even SERVFAIL).
#[test]
fn p7_reply_message_panics_on_compressed_upstream_answer() {
    fn long_name(c: u8) -> Name<Vec<u8>> {
        let mut wire = Vec::new();
        for len in [63usize, 63, 63, 57] {
            wire.push(len as u8);
            wire.extend(std::iter::repeat(c).take(len));
        }
        wire.push(0);
        Name::from_octets(wire).unwrap()
    }

    let owner = long_name(b'o');
    let target = long_name(b't');
    let mut msg =
        MessageBuilder::from_target(TreeCompressor::new(Vec::new())).unwrap();
    msg.header_mut().set_qr(true);
    let mut msg = msg.question();
    msg.push((&owner, Rtype::NS)).unwrap();
    let mut msg = msg.answer();
    for _ in 0..200 {
        msg.push((&owner, Class::IN, Ttl::from_secs(60), Ns::new(&target)))
            .unwrap();
    }
    let upstream = msg.finish().into_target();
    assert!(upstream.len() < 4096, "{}", upstream.len());
    let upstream = Message::from_octets(upstream).unwrap();

    let res = std::panic::catch_unwind(|| {
        let reply = ReplyMessage::from_message(&upstream).unwrap();
        reply.additional_builder_stream_target().is_ok()
    });
    assert!(
        res.is_ok(),
        "additional_builder_stream_target() panicked instead of returning an error"
    );
}
