// Behaviour of the UNMODIFIED library that already violates property C11.
//
// Place this file into tests/ of the repository and run:
//
//   cargo test --offline --features tsig --test c11_preexisting -- --test-threads=1
//
// Every test asserts what RFC 8945 / the property asks for, so every test
// that FAILS on the unmodified library documents a pre-existing violation.
// (See the summary for which ones fail and what they print.)
#![cfg(feature = "tsig")]

use core::str::FromStr;
use domain::base::iana::{Class, Rcode, Rtype, TsigRcode};
use domain::base::message::Message;
use domain::base::message_builder::{AdditionalBuilder, MessageBuilder};
use domain::base::name::{Name, ToLabelIter};
use domain::base::record::Ttl;
use domain::rdata::tsig::{Time48, Tsig};
use domain::rdata::A;
use domain::tsig::{
    Algorithm, ClientSequence, ClientTransaction, Key, KeyName,
    ServerSequence, ServerTransaction, ValidationError,
};

const NOW: u64 = 1_700_000_000;

fn key() -> Key {
    Key::new(
        Algorithm::Sha256,
        b"0123456789abcdef0123456789abcdef",
        KeyName::from_str("test.key.").unwrap(),
        None,
        None,
    )
    .unwrap()
}

fn request() -> AdditionalBuilder<Vec<u8>> {
    let mut b = MessageBuilder::new_vec();
    b.header_mut().set_id(0x1234);
    b.header_mut().set_rd(true);
    let mut q = b.question();
    q.push((Name::<Vec<u8>>::from_str("example.com.").unwrap(), Rtype::A))
        .unwrap();
    q.additional()
}

fn answer(req: &Message<Vec<u8>>, n: u8) -> AdditionalBuilder<Vec<u8>> {
    let b = MessageBuilder::new_vec();
    let mut a = b.start_answer(req, Rcode::NOERROR).unwrap();
    for i in 0..n {
        a.push((
            Name::<Vec<u8>>::from_str("example.com.").unwrap(),
            Class::IN,
            Ttl::from_secs(300),
            A::from_octets(192, 0, 2, i),
        ))
        .unwrap();
    }
    a.additional()
}

fn some_tsig() -> Tsig<&'static [u8], Name<&'static [u8]>> {
    Tsig::new(
        Algorithm::Sha256.to_name(),
        Time48::from_u64(NOW),
        300,
        &[0u8; 32][..],
        0x1234,
        TsigRcode::NOERROR,
        &b""[..],
    )
    .unwrap()
}

//------------ 1: misplaced TSIG, server side --------------------------------

/// RFC 8945, 5.2: "If multiple TSIG records are detected or a TSIG record is
/// present in any other position, the DNS message is dropped and a response
/// with RCODE 1 (FORMERR) MUST be returned."
///
/// `MessageTsig::from_message` only ever looks at the additional section. A
/// request whose TSIG record sits in the authority (or answer) section is
/// reported as `Ok(None)`, i.e., as a plain unsigned request.
#[test]
fn pre1_request_with_tsig_in_authority_section_is_formerr() {
    let key = key();
    let mut b = MessageBuilder::new_vec();
    b.header_mut().set_id(0x1234);
    let mut q = b.question();
    q.push((Name::<Vec<u8>>::from_str("example.com.").unwrap(), Rtype::A))
        .unwrap();
    let mut auth = q.authority();
    auth.push((key.name().clone(), Class::ANY, 0, some_tsig()))
        .unwrap();
    let mut msg = Message::from_octets(auth.finish()).unwrap();
    match ServerTransaction::request(&key, &mut msg, Time48::from_u64(NOW)) {
        Err(err) => assert_eq!(err.error(), TsigRcode::FORMERR),
        Ok(tran) => panic!(
            "misplaced TSIG not rejected: Ok({})",
            if tran.is_some() { "Some" } else { "None" }
        ),
    }
}

//------------ 2: misplaced TSIG, client sequence ----------------------------

/// The same at the client: inside a sequence, a message with a TSIG record in
/// the answer section is accepted as one of the permitted *unsigned*
/// messages.
#[test]
fn pre2_sequence_message_with_tsig_in_answer_section_is_rejected() {
    let key = key();
    let now = Time48::from_u64(NOW);
    let mut req = request();
    let mut client = ClientSequence::request(&key, &mut req, now).unwrap();
    let mut req = Message::from_octets(req.finish()).unwrap();
    let mut server = ServerSequence::request(&key, &mut req, now)
        .unwrap()
        .unwrap();
    let mut ans = answer(&req, 1);
    server.answer(&mut ans, now).unwrap();
    let mut ans = Message::from_octets(ans.finish()).unwrap();
    client.answer(&mut ans, now).unwrap();

    let b = MessageBuilder::new_vec();
    let mut a = b.start_answer(&req, Rcode::NOERROR).unwrap();
    a.push((key.name().clone(), Class::ANY, 0, some_tsig()))
        .unwrap();
    let mut msg = Message::from_octets(a.finish()).unwrap();
    let res = client.answer(&mut msg, now);
    assert!(
        matches!(res, Err(ValidationError::FormErr)),
        "misplaced TSIG in a sequence: expected Err(FormErr), got {res:?}"
    );
}

//------------ 3: ServerSequence::answer is not failure-atomic ---------------

/// `ServerSequence::answer` documents that, if the TSIG record does not fit,
/// it "returns the unchanged builder as an error". The builder is unchanged,
/// but the sequence is not: `first` has been cleared and the signing context
/// has been replaced by one primed with the MAC of the message that was
/// never sent. When the server retries with a smaller message (the normal
/// reaction when packing an AXFR), the answer is signed as a *subsequent*
/// message over a MAC the client has never seen, and the honest client
/// rejects it with BadSig.
#[test]
fn pre3_retry_after_push_error_still_verifies() {
    let key = key();
    let now = Time48::from_u64(NOW);
    let mut req = request();
    let mut client = ClientSequence::request(&key, &mut req, now).unwrap();
    let mut req = Message::from_octets(req.finish()).unwrap();
    let mut server = ServerSequence::request(&key, &mut req, now)
        .unwrap()
        .unwrap();

    // First attempt: the message is so full that the TSIG does not fit.
    let mut ans = answer(&req, 3);
    let len = ans.as_slice().len();
    ans.as_builder_mut().set_push_limit(len + 10);
    assert!(server.answer(&mut ans, now).is_err());

    // Retry with fewer records.
    let mut ans = answer(&req, 1);
    server.answer(&mut ans, now).unwrap();
    let mut ans = Message::from_octets(ans.finish()).unwrap();
    let res = client.answer(&mut ans, now);
    assert!(
        res.is_ok(),
        "honest answer after a failed signing attempt: got {res:?}"
    );
}

//------------ 4: error codes for impossible MAC sizes -----------------------

/// Replaces the MAC of the TSIG record at the end of a signed request.
fn with_mac(wire: &[u8], tsig_start: usize, key: &Key, mac: &[u8]) -> Vec<u8> {
    // owner | TYPE CLASS TTL RDLENGTH | alg name | time(6) fudge(2) macsize(2)
    let rdlen_pos = tsig_start + usize::from(key.name().compose_len()) + 8;
    let alg_len = usize::from(key.algorithm().to_name().compose_len());
    let macsize_pos = rdlen_pos + 2 + alg_len + 8;
    let old_len = usize::from(u16::from_be_bytes([
        wire[macsize_pos],
        wire[macsize_pos + 1],
    ]));
    let mut res = wire[..macsize_pos].to_vec();
    res.extend_from_slice(&(mac.len() as u16).to_be_bytes());
    res.extend_from_slice(mac);
    res.extend_from_slice(&wire[macsize_pos + 2 + old_len..]);
    let rdlen = usize::from(u16::from_be_bytes([
        wire[rdlen_pos],
        wire[rdlen_pos + 1],
    ]));
    let rdlen = (rdlen - old_len + mac.len()) as u16;
    res[rdlen_pos..rdlen_pos + 2].copy_from_slice(&rdlen.to_be_bytes());
    res
}

/// RFC 8945, 5.2.2.1: a MAC size larger than the hash output, or smaller
/// than max(10, half the hash output), "MUST cause the DNS message to be
/// dropped and RCODE 1 (FORMERR) to be returned". BADTRUNC is reserved for
/// truncation that is legal but below local policy.
///
/// `Key::compare_signatures` answers BADTRUNC for everything shorter than
/// `min_mac_len` and BADSIG for everything longer than the native length.
#[test]
fn pre4_impossible_mac_sizes_are_formerr() {
    let key = key();
    let now = Time48::from_u64(NOW);
    let mut req = request();
    let tsig_start = req.as_slice().len();
    let _ = ClientTransaction::request(&key, &mut req, now).unwrap();
    let wire = req.finish();

    // Sanity: putting the MAC back in place verifies.
    let mac = wire[wire.len() - 6 - 32..wire.len() - 6].to_vec();
    let mut same =
        Message::from_octets(with_mac(&wire, tsig_start, &key, &mac))
            .unwrap();
    assert!(
        ServerTransaction::request(&key, &mut same, now)
            .unwrap()
            .is_some()
    );

    let mut wrong = Vec::new();
    // SHA-256: native 32, so legal truncation is 16..=32.
    for len in [1usize, 9, 15, 33, 64] {
        let mut msg = Message::from_octets(with_mac(
            &wire,
            tsig_start,
            &key,
            &vec![0xAA; len],
        ))
        .unwrap();
        let err = ServerTransaction::request(&key, &mut msg, now)
            .err()
            .expect("bogus MAC accepted")
            .error();
        if err != TsigRcode::FORMERR {
            wrong.push((len, err));
        }
    }
    // A legal truncation below local policy *is* BADTRUNC.
    let mut msg = Message::from_octets(with_mac(
        &wire,
        tsig_start,
        &key,
        &mac[..16],
    ))
    .unwrap();
    assert_eq!(
        ServerTransaction::request(&key, &mut msg, now)
            .err()
            .unwrap()
            .error(),
        TsigRcode::BADTRUNC
    );
    assert!(
        wrong.is_empty(),
        "(MAC size, error) pairs that should have been FORMERR: {wrong:?}"
    );
}

//------------ 5: octets after verification -----------------------------------

/// "Successful verification returns the message to its pre-signing octets":
/// `remove_tsig` only restores the ID and decrements ARCOUNT
/// (`Message::remove_last_additional` "does not change the underlying octet
/// sequence"), so `as_slice()` of the verified message still ends with the
/// complete TSIG record. The pre-signing octets are only a prefix.
#[test]
fn pre5_verified_message_has_pre_signing_octets() {
    let key = key();
    let now = Time48::from_u64(NOW);
    let mut req = request();
    let plain = req.as_slice().to_vec();
    let _ = ClientTransaction::request(&key, &mut req, now).unwrap();
    let mut msg = Message::from_octets(req.finish()).unwrap();
    ServerTransaction::request(&key, &mut msg, now)
        .unwrap()
        .unwrap();
    assert_eq!(&msg.as_slice()[..plain.len()], &plain[..], "prefix");
    assert_eq!(
        msg.as_slice().len(),
        plain.len(),
        "verified message is longer than the pre-signing message"
    );
}

//------------ 6: a rejected forgery kills the sequence ----------------------

/// `ClientSequence::answer_first`/`answer_subsequent` consume the signing
/// context (`first_answer`/`signed_subsequent` swap in a fresh one) *before*
/// the MAC has been compared. After a forged message that carries a TSIG
/// record has been rejected with BadSig, the genuine answer of the honest
/// server no longer verifies. (`ClientTransaction` explicitly promises the
/// opposite: "you can drop it and try with the next answer received".)
#[test]
fn pre6_genuine_answer_verifies_after_rejected_forgery() {
    let key = key();
    let now = Time48::from_u64(NOW);
    let mut req = request();
    let mut client = ClientSequence::request(&key, &mut req, now).unwrap();
    let mut req = Message::from_octets(req.finish()).unwrap();
    let mut server = ServerSequence::request(&key, &mut req, now)
        .unwrap()
        .unwrap();

    // The forgery: an answer with a made-up MAC.
    let mut forged = answer(&req, 2);
    forged
        .push((key.name().clone(), Class::ANY, 0, some_tsig()))
        .unwrap();
    let mut forged = Message::from_octets(forged.finish()).unwrap();
    assert!(matches!(
        client.answer(&mut forged, now),
        Err(ValidationError::BadSig)
    ));

    // The genuine answer.
    let mut ans = answer(&req, 1);
    server.answer(&mut ans, now).unwrap();
    let mut ans = Message::from_octets(ans.finish()).unwrap();
    let res = client.answer(&mut ans, now);
    assert!(
        res.is_ok(),
        "genuine answer after a rejected forgery: got {res:?}"
    );
}

//------------ 7: octets behind the TSIG record -------------------------------

/// Octets appended behind the TSIG record are not covered by the digest
/// (`..tsig.start` is digested, nothing checks that the record ends the
/// message), so a message that was changed in transit verifies.
#[test]
fn pre7_octets_appended_behind_the_tsig_are_rejected() {
    let key = key();
    let now = Time48::from_u64(NOW);
    let mut req = request();
    let _ = ClientTransaction::request(&key, &mut req, now).unwrap();
    let mut wire = req.finish();
    wire.extend_from_slice(b"appended in transit");
    let mut msg = Message::from_octets(wire).unwrap();
    let res = ServerTransaction::request(&key, &mut msg, now);
    assert!(
        res.is_err(),
        "request with appended octets accepted: Ok({})",
        res.unwrap().is_some()
    );
}
