// Pre-existing violation of property C16 in the UNMODIFIED library (needs the
// `tsig` feature, hence a file of its own).
//
// Place this file in `tests/c16_preexisting_tsig.rs` of the repository and
// run:
//
//   cargo test --offline -j4 --features unstable-server-transport,unstable-client-transport,tsig --test c16_preexisting_tsig
//
// The test states what the property demands and FAILS on the unmodified
// library.
//
// P8: "over UDP never larger than ... 512 without EDNS". The documentation of
// `TsigMiddlewareSvc` asks for it to be "the first layer above the network
// server" (the server's own integration tests build
// Tsig(Mandatory(...(Edns(Cookies(service)))))). `MandatoryMiddlewareSvc`
// then truncates to the UDP limit *before* the TSIG record is added, it
// ignores `Request::num_reserved_bytes()`, and `TsigMiddlewareSvc::
// postprocess()` clears the push limit before signing. A response that just
// fits into 512 octets leaves the server about 100 octets larger than
// allowed, TC clear.
#![cfg(all(
    feature = "unstable-server-transport",
    feature = "unstable-client-transport",
    feature = "tsig"
))]

use std::sync::Arc;

use futures_util::StreamExt;

use domain::base::iana::{Class, Rcode};
use domain::base::name::Name;
use domain::dep::octseq::OctetsInto;
use domain::base::{Message, MessageBuilder, Rtype, Ttl};
use domain::net::server::message::{Request, UdpTransportContext};
use domain::net::server::middleware::edns::EdnsMiddlewareSvc;
use domain::net::server::middleware::mandatory::MandatoryMiddlewareSvc;
use domain::net::server::middleware::tsig::TsigMiddlewareSvc;
use domain::net::server::service::{CallResult, Service, ServiceResult};
use domain::net::server::util::{mk_builder_for_target, service_fn};
use domain::rdata::Txt;
use domain::rdata::tsig::Time48;
use domain::tsig::{Algorithm, ClientTransaction, Key};

type Meta = Option<Arc<Key>>;

/// Fills the response up to (at most) 512 octets.
fn full_answer(req: Request<Vec<u8>, Meta>, _: ()) -> ServiceResult<Vec<u8>> {
    let owner = req.message().sole_question().unwrap().into_qname();
    let mut answer = mk_builder_for_target::<Vec<u8>>()
        .start_answer(req.message(), Rcode::NOERROR)?;
    loop {
        let txt = Txt::<Vec<u8>>::build_from_slice(&[b'x'; 20]).unwrap();
        answer.push((&owner, Class::IN, Ttl::from_secs(60), txt))?;
        if answer.as_slice().len() > 512 {
            break;
        }
    }
    // Rebuild with exactly as many records as fit.
    let count = answer.counts().ancount() - 1;
    let mut answer = mk_builder_for_target::<Vec<u8>>()
        .start_answer(req.message(), Rcode::NOERROR)?;
    for _ in 0..count {
        let txt = Txt::<Vec<u8>>::build_from_slice(&[b'x'; 20]).unwrap();
        answer.push((&owner, Class::IN, Ttl::from_secs(60), txt))?;
    }
    assert!(answer.as_slice().len() <= 512);
    Ok(CallResult::new(answer.additional()))
}

#[tokio::test]
async fn p8_tsig_signed_udp_response_exceeds_512() {
    let key_name: Name<Vec<u8>> =
        Name::from_chars("transfer-key.example.com".chars()).unwrap();
    let key = Arc::new(
        Key::new(
            Algorithm::Sha256,
            &[0x17u8; 32],
            key_name.try_octets_into().unwrap(),
            None,
            None,
        )
        .unwrap(),
    );

    let svc = service_fn(full_answer, ());
    let svc = EdnsMiddlewareSvc::new(svc);
    let svc = MandatoryMiddlewareSvc::new(svc);
    let svc =
        TsigMiddlewareSvc::<Vec<u8>, _, _, ()>::new(svc, key.clone());

    // A signed request without EDNS.
    let mut msg = MessageBuilder::new_vec();
    msg.header_mut().set_id(0x7777);
    let mut msg = msg.question();
    msg.push((
        Name::<Vec<u8>>::from_chars("example.com".chars()).unwrap(),
        Rtype::TXT,
    ))
    .unwrap();
    let mut msg = msg.additional();
    let _client =
        ClientTransaction::request(key.clone(), &mut msg, Time48::now())
            .unwrap();

    let request = Request::new(
        "192.0.2.1:4711".parse().unwrap(),
        tokio::time::Instant::now(),
        msg.into_message(),
        UdpTransportContext::new(Some(1232)).into(),
        (),
    );

    let mut stream = svc.call(request).await;
    let (response, _) = stream.next().await.unwrap().unwrap().into_inner();
    let response = response.unwrap().finish();
    let response =
        Message::from_octets(response.as_dgram_slice().to_vec()).unwrap();

    assert_eq!(response.header().id(), 0x7777);
    assert!(
        response.as_slice().len() <= 512,
        "UDP response to a request without EDNS has {} octets (TC={})",
        response.as_slice().len(),
        response.header().tc()
    );
}
