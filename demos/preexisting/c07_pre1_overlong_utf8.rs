// PRE-EXISTING violation 1 (unmodified library): overlong UTF-8 encodings.
//
//   cargo test --offline --features zonefile --test c07_pre1_overlong_utf8
//
// `Symbol::from_slice_index` (src/base/scan.rs) decodes multi-byte UTF-8 by
// hand and accepts overlong encodings: C0 A0 -> ' ', C0 8A -> '\n',
// C1 81 -> 'A', E0 80 A0 -> ' ' ...
//
// (a) Non-termination. An overlong delimiter (space, LF, parens, `;`, `"`)
//     in an unquoted token makes `SourceBuf::_next_symbol` end the token
//     (`!sym.is_word_char()`) without consuming anything, while
//     `SourceBuf::next_item` looks at the raw byte 0xC0, finds no delimiter and
//     starts a new unquoted token at the same place. `convert_entry` (hex and
//     Base 64 data) then loops forever with no progress.
// (b) `scan_string` keeps the raw octets of characters it accepted as
//     `Symbol::Char` and wraps them with `Str::from_utf8_unchecked`: an
//     `$INCLUDE` path containing C1 81 comes back as a `Str<Bytes>` that is not
//     valid UTF-8 (undefined behaviour for any `&str` user).
//
// Both tests FAIL on the unmodified library.
#![cfg(feature = "zonefile")]

use domain::base::iana::Class;
use domain::base::name::Name;
use domain::zonefile::inplace::{Entry, Zonefile};
use std::str::FromStr;
use std::sync::mpsc;
use std::time::Duration;

fn zonefile(input: &[u8]) -> Zonefile {
    let mut zf = Zonefile::new();
    zf.extend_from_slice(input);
    zf.set_origin(Name::from_str("example.com.").unwrap());
    zf.set_default_class(Class::IN);
    zf
}

fn read(input: &[u8]) -> Result<usize, String> {
    let mut zf = zonefile(input);
    let mut n = 0;
    loop {
        match zf.next_entry() {
            Ok(Some(_)) => n += 1,
            Ok(None) => return Ok(n),
            Err(err) => return Err(format!("{err}")),
        }
    }
}

fn read_with_watchdog(input: &[u8]) -> Option<Result<usize, String>> {
    let input = input.to_vec();
    let (tx, rx) = mpsc::channel();
    std::thread::spawn(move || {
        let _ = tx.send(read(&input));
    });
    rx.recv_timeout(Duration::from_secs(3)).ok()
}

#[test]
fn reader_terminates_on_overlong_delimiters() {
    let inputs: [&[u8]; 6] = [
        b"a DS 1 8 2 AB\xC0\xA0CD\n",               // overlong space, hex
        b"a DNSKEY 256 3 8 AAAA\xC0\xA0\n",          // overlong space, base64
        b"a TYPE99 \\# 2 ab\xC0\x8Acd\n",            // overlong LF, generic data
        b"a ZONEMD \t\xC0\xA0ACNAME\na\n",           // found by random search
        b"a OPENPGPKEY \xE0\x80\xA0AAAA\n",          // 3-byte overlong space
        b"a SSHFP 1 1 AB\xC0\xBBCD\n",               // overlong ';'
    ];
    let mut hung = Vec::new();
    for input in inputs {
        // Observed on the unmodified library: None (still running after 3 s)
        // for every one of the inputs.
        if read_with_watchdog(input).is_none() {
            hung.push(String::from_utf8_lossy(input).into_owned());
        }
    }
    assert!(hung.is_empty(), "reader did not terminate on {hung:#?}");
}

#[test]
fn include_path_is_valid_utf8() {
    let mut zf = zonefile(b"$INCLUDE \xC1\x81file\n");
    match zf.next_entry() {
        // Expected: an error (bad UTF-8) with a position.
        Err(_) => {}
        Ok(Some(Entry::Include { path, .. })) => {
            // Observed: Ok, and the `Str` holds C1 81 66 69 6C 65.
            assert!(
                std::str::from_utf8(path.as_slice()).is_ok(),
                "Str<Bytes> with invalid UTF-8: {:x?}",
                path.as_slice()
            );
        }
        other => panic!("unexpected {other:?}"),
    }
}
