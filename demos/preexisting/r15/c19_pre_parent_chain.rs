// PRE-EXISTING violation (unmodified library): NameCompressor::compress_name follows the
// parent chain after only PARTIALLY matching an entry, so "a.c." is emitted as a pointer to "a.b.c.".
// Place as tests/c19_pre.rs and run:
//   cargo test --offline --features unstable-new --test c19_pre
#![cfg(feature = "unstable-new")]

use domain::base::Message as OldMessage;
use domain::new::base::build::{MessageBuilder, NameCompressor};
use domain::new::base::name::NameBuf;
use domain::new::base::parse::MessageParser;
use domain::new::base::wire::{AsBytes, U16};
use domain::new::base::{
    HeaderFlags, MessageItem, QClass, QType, Question, RClass, RType, Record,
    TTL,
};
use domain::new::rdata::{RecordData, A};

fn build(names: &[&str]) -> Vec<u8> {
    let mut buffer = vec![0u8; 512];
    let mut compressor = NameCompressor::default();
    let mut b = MessageBuilder::new(
        &mut buffer,
        &mut compressor,
        U16::new(1),
        HeaderFlags::default(),
    );
    let bufs: Vec<NameBuf> =
        names.iter().map(|n| n.parse::<NameBuf>().unwrap()).collect();
    b.push_question(&Question {
        qname: &*bufs[0],
        qtype: QType::A,
        qclass: QClass::IN,
    })
    .unwrap();
    for n in &bufs {
        b.push_answer(&Record {
            rname: &**n,
            rtype: RType::A,
            rclass: RClass::IN,
            ttl: TTL::from(60),
            rdata: RecordData::<()>::A(A {
                octets: [192, 0, 2, 1],
            }),
        })
        .unwrap();
    }
    b.finish().as_bytes().to_vec()
}

/// Owner names as the established reader sees them.
fn old_owners(msg: &[u8]) -> Vec<String> {
    let m = OldMessage::from_octets(msg).unwrap();
    let mut res = vec![m
        .first_question()
        .expect("question readable")
        .qname()
        .to_string()];
    for rec in m.answer().expect("answer section readable") {
        let rec = rec.expect("record readable by the established codec");
        res.push(rec.owner().to_string());
    }
    res
}

/// Owner names as the new reader sees them.
fn new_owners(msg: &[u8]) -> Vec<String> {
    MessageParser::new(msg)
        .unwrap()
        .map(|item| match item.expect("item readable by the new codec") {
            MessageItem::Question(q) => format!("{}", q.qname.to_name()),
            MessageItem::Answer(r) => format!("{}", r.rname.to_name()),
            _ => unreachable!(),
        })
        .collect()
}

fn check(names: &[&str]) {
    let msg = build(names);
    let mut expected: Vec<String> = vec![names[0].trim_end_matches('.').into()];
    expected.extend(names.iter().map(|n| n.trim_end_matches('.').to_string()));
    let old: Vec<String> = old_owners(&msg)
        .into_iter()
        .map(|n| n.trim_end_matches('.').to_string())
        .collect();
    assert_eq!(old, expected, "established reader, message {msg:?}");
    let new: Vec<String> = new_owners(&msg)
        .into_iter()
        .map(|n| n.trim_end_matches('.').to_string())
        .collect();
    assert_eq!(new, expected, "new reader, message {msg:?}");
}

#[test]
fn ordinary_names_compress_correctly() {
    check(&["www.example.org.", "mail.example.org.", "example.org."]);
}

#[test]
fn partially_matched_parent_then_child() {
    // The first differing labels end in the same characters ("tic"), so the
    // byte-wise common suffix ends in the middle of a label.
    check(&["b.c.", "a.b.c.", "a.c."]);
}
