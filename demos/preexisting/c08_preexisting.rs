// Pre-existing violations of property C08 in the UNMODIFIED library.
//
// Put this file into tests/ of the repository and run
//
//   cargo test --offline --features unstable-zonetree --test c08_preexisting
//
// Every test states what RFC 1034 / the property demands and therefore
// FAILS on the unmodified library (see README.md next to this file for the
// observed output).
#![cfg(feature = "unstable-zonetree")]

use std::str::FromStr;

use bytes::Bytes;
use domain::base::iana::{Class, Rtype};
use domain::base::net::Ipv4Addr;
use domain::base::{
    Message, MessageBuilder, Name, ParsedName, Record, Serial, Ttl,
};
use domain::rdata::{A, Ns, Soa, ZoneRecordData};
use domain::zonetree::{Rrset, SharedRrset, Zone, ZoneBuilder};

//------------ helpers --------------------------------------------------------

#[allow(dead_code)]
type Rec =
    Record<ParsedName<Bytes>, ZoneRecordData<Bytes, ParsedName<Bytes>>>;

fn name(s: &str) -> Name<Bytes> {
    Name::from_str(s).unwrap()
}

#[allow(dead_code)]
fn pname(s: &str) -> ParsedName<Bytes> {
    ParsedName::from(name(s))
}

fn soa_rrset(serial: u32) -> SharedRrset {
    let mut rrset = Rrset::new(Rtype::SOA, Ttl::from_secs(3600));
    rrset.push_data(ZoneRecordData::Soa(Soa::new(
        name("ns.example."),
        name("host.example."),
        Serial(serial),
        Ttl::from_secs(3600),
        Ttl::from_secs(600),
        Ttl::from_secs(86400),
        Ttl::from_secs(300),
    )));
    SharedRrset::new(rrset)
}

#[allow(dead_code)]
fn soa_rec(serial: u32) -> Rec {
    Record::new(
        pname("example."),
        Class::IN,
        Ttl::from_secs(3600),
        ZoneRecordData::Soa(Soa::new(
            pname("ns.example."),
            pname("host.example."),
            Serial(serial),
            Ttl::from_secs(3600),
            Ttl::from_secs(600),
            Ttl::from_secs(86400),
            Ttl::from_secs(300),
        )),
    )
}

#[allow(dead_code)]
fn a_rec(owner: &str, last: u8) -> Rec {
    Record::new(
        pname(owner),
        Class::IN,
        Ttl::from_secs(300),
        ZoneRecordData::A(A::new(Ipv4Addr::new(192, 0, 2, last))),
    )
}

#[allow(dead_code)]
fn ns_rec(owner: &str, target: &str) -> Rec {
    Record::new(
        pname(owner),
        Class::IN,
        Ttl::from_secs(300),
        ZoneRecordData::Ns(Ns::new(pname(target))),
    )
}

fn a_rrset(last: &[u8]) -> SharedRrset {
    let mut rrset = Rrset::new(Rtype::A, Ttl::from_secs(300));
    for l in last {
        rrset.push_data(ZoneRecordData::A(A::new(Ipv4Addr::new(
            192, 0, 2, *l,
        ))));
    }
    SharedRrset::new(rrset)
}

fn ns_rrset(target: &str) -> SharedRrset {
    let mut rrset = Rrset::new(Rtype::NS, Ttl::from_secs(300));
    rrset.push_data(ZoneRecordData::Ns(Ns::new(name(target))));
    SharedRrset::new(rrset)
}

/// The apex of every test zone: SOA, NS and the address of the server.
fn base_builder() -> ZoneBuilder {
    let mut b = ZoneBuilder::new(name("example."), Class::IN);
    b.insert_rrset(&name("example."), soa_rrset(1)).unwrap();
    b.insert_rrset(&name("example."), ns_rrset("ns.example."))
        .unwrap();
    b.insert_rrset(&name("ns.example."), a_rrset(&[53])).unwrap();
    b
}

/// A comparable rendering of the response message made from an answer.
#[derive(Debug, PartialEq, Eq)]
struct Summary {
    rcode: String,
    aa: bool,
    answer: Vec<String>,
    authority: Vec<String>,
    additional: Vec<String>,
}

fn ask(zone: &Zone, qname: &str, qtype: Rtype) -> Summary {
    fn sect(
        s: domain::base::message::RecordSection<'_, Vec<u8>>,
    ) -> Vec<String> {
        let mut res: Vec<String> = s
            .limit_to::<ZoneRecordData<_, _>>()
            .map(|r| {
                let r = r.unwrap();
                format!(
                    "{}. {} {} {}",
                    r.owner(),
                    r.ttl().as_secs(),
                    r.rtype(),
                    r.data()
                )
            })
            .collect();
        res.sort();
        res
    }

    let qname = name(qname);
    let mut q = MessageBuilder::new_vec().question();
    q.push((qname.clone(), qtype)).unwrap();
    let req: Message<Vec<u8>> = q.into();
    let answer = zone.read().query(qname, qtype).unwrap();
    let msg: Message<Vec<u8>> = answer
        .to_message(&req, MessageBuilder::new_vec())
        .into_message();
    Summary {
        rcode: msg.header().rcode().to_string(),
        aa: msg.header().aa(),
        answer: sect(msg.answer().unwrap()),
        authority: sect(msg.authority().unwrap()),
        additional: sect(msg.additional().unwrap()),
    }
}

const SOA: &str = "example. 3600 SOA ns.example. host.example. 1 3600 600 86400 300";

#[allow(dead_code)]
fn data(rrs: &[&str]) -> Summary {
    Summary {
        rcode: "NOERROR".into(),
        aa: true,
        answer: rrs.iter().map(|s| s.to_string()).collect(),
        authority: vec![],
        additional: vec![],
    }
}

#[allow(dead_code)]
fn nodata() -> Summary {
    Summary {
        rcode: "NOERROR".into(),
        aa: true,
        answer: vec![],
        authority: vec![SOA.into()],
        additional: vec![],
    }
}

#[allow(dead_code)]
fn nxdomain() -> Summary {
    Summary {
        rcode: "NXDOMAIN".into(),
        aa: true,
        answer: vec![],
        authority: vec![SOA.into()],
        additional: vec![],
    }
}
use domain::rdata::Cname;
use domain::zonetree::parsed;
use domain::zonetree::types::ZoneUpdate;
use domain::zonetree::update::ZoneUpdater;
use domain::zonetree::StoredRecord;

//------------ more helpers ---------------------------------------------------

fn stored(rec: &Rec) -> StoredRecord {
    use domain::base::name::FlattenInto;
    use domain::base::ToName;
    Record::new(
        rec.owner().to_name(),
        rec.class(),
        rec.ttl(),
        rec.data().clone().flatten_into(),
    )
}

fn a_rec_ttl(owner: &str, last: u8, ttl: u32) -> Rec {
    Record::new(
        pname(owner),
        Class::IN,
        Ttl::from_secs(ttl),
        ZoneRecordData::A(A::new(Ipv4Addr::new(192, 0, 2, last))),
    )
}

fn cname_rec(owner: &str, target: &str) -> Rec {
    Record::new(
        pname(owner),
        Class::IN,
        Ttl::from_secs(300),
        ZoneRecordData::Cname(Cname::new(pname(target))),
    )
}

fn apex_recs() -> Vec<Rec> {
    vec![
        soa_rec(1),
        ns_rec("example.", "ns.example."),
        a_rec("ns.example.", 53),
    ]
}

/// Builds a zone directly from records, the way a zone file is loaded.
fn from_records(recs: &[Rec]) -> Zone {
    let mut zonefile = parsed::Zonefile::new(name("example."), Class::IN);
    for rec in apex_recs().iter().chain(recs) {
        zonefile.insert(stored(rec)).unwrap();
    }
    Zone::try_from(zonefile).unwrap()
}

/// Applies one incremental batch and commits it.
async fn update(zone: &Zone, del: &[Rec], add: &[Rec]) {
    let mut updater = ZoneUpdater::new(zone.clone()).await.unwrap();
    for rec in del {
        updater
            .apply(ZoneUpdate::DeleteRecord(rec.clone()))
            .await
            .unwrap();
    }
    for rec in add {
        updater
            .apply(ZoneUpdate::AddRecord(rec.clone()))
            .await
            .unwrap();
    }
    updater
        .apply(ZoneUpdate::Finished(soa_rec(1)))
        .await
        .unwrap();
}

//------------ 1. an uncommitted write is visible to current readers ----------

/// A record added by a writer that has not committed (and never will) must
/// not change what the current version answers.  It does: the node created
/// for the new owner is shared by all versions and has no marker in the old
/// version, so it reads as "exists, no data" and shadows the wildcard.
#[tokio::test]
async fn p1_uncommitted_and_rolled_back_write_changes_answers() {
    let content = [a_rec("*.example.", 1)];
    let zone = from_records(&content);
    let fresh = from_records(&content);
    let want = data(&["new.example. 300 A 192.0.2.1"]);
    assert_eq!(ask(&zone, "new.example.", Rtype::A), want);

    let mut updater = ZoneUpdater::new(zone.clone()).await.unwrap();
    updater
        .apply(ZoneUpdate::AddRecord(a_rec("new.example.", 9)))
        .await
        .unwrap();

    // Nothing was committed: readers are still on the old version.
    let during = ask(&zone, "new.example.", Rtype::A);

    // The writer goes away without ZoneUpdate::Finished: rollback.
    drop(updater);
    let after = ask(&zone, "new.example.", Rtype::A);

    assert_eq!(ask(&fresh, "new.example.", Rtype::A), want);
    assert_eq!(during, want, "while the write is in progress");
    assert_eq!(after, want, "after the rollback");
}

//------------ 2. a full replacement leaves the dropped names behind ----------

/// After DeleteAllRecords + new content, a name that is not part of the new
/// content does not exist: NXDOMAIN.  ZoneNode::remove_all() removes the
/// node's marker, so the node reads as a regular, empty node: NODATA.
#[tokio::test]
async fn p2_name_dropped_by_full_replacement_is_nodata() {
    let zone = from_records(&[a_rec("old.example.", 1)]);

    let mut updater = ZoneUpdater::new(zone.clone()).await.unwrap();
    updater.apply(ZoneUpdate::DeleteAllRecords).await.unwrap();
    for rec in [ns_rec("example.", "ns.example."), a_rec("ns.example.", 53)]
    {
        updater.apply(ZoneUpdate::AddRecord(rec)).await.unwrap();
    }
    updater
        .apply(ZoneUpdate::Finished(soa_rec(1)))
        .await
        .unwrap();

    let fresh = from_records(&[]);
    assert_eq!(ask(&fresh, "old.example.", Rtype::A), nxdomain());
    assert_eq!(ask(&zone, "old.example.", Rtype::A), nxdomain());
}

//------------ 3. an empty non-terminal outlives its descendants --------------

/// b.example only exists because a.b.example does.  Once a.b.example is
/// deleted, b.example does not exist either: NXDOMAIN, or the wildcard of
/// example if there is one.
#[tokio::test]
async fn p3_empty_non_terminal_outlives_its_descendants() {
    let zone = from_records(&[
        a_rec("a.b.example.", 1),
        a_rec("*.example.", 7),
    ]);
    assert_eq!(ask(&zone, "b.example.", Rtype::A), nodata());

    update(&zone, &[a_rec("a.b.example.", 1)], &[]).await;

    let fresh = from_records(&[a_rec("*.example.", 7)]);
    let want = data(&["b.example. 300 A 192.0.2.7"]);
    assert_eq!(ask(&fresh, "b.example.", Rtype::A), want);
    assert_eq!(ask(&zone, "b.example.", Rtype::A), want);
}

//------------ 4. a CNAME loaded from a zone file cannot be deleted -----------

/// The ZoneBuilder keeps a CNAME in the node's "special", the updater only
/// edits the node's RRsets.  Deleting (or changing) the CNAME through the
/// updater has no effect on the answers.
#[tokio::test]
async fn p4_deleted_cname_is_still_answered() {
    let zone = from_records(&[cname_rec("www.example.", "ns.example.")]);
    assert_eq!(
        ask(&zone, "www.example.", Rtype::A),
        data(&["www.example. 300 CNAME ns.example."])
    );

    update(&zone, &[cname_rec("www.example.", "ns.example.")], &[]).await;

    let fresh = from_records(&[]);
    assert_eq!(ask(&fresh, "www.example.", Rtype::A), nxdomain());
    assert_eq!(ask(&zone, "www.example.", Rtype::A), nxdomain());
}

#[tokio::test]
async fn p4b_changed_cname_still_points_to_the_old_target() {
    let zone = from_records(&[
        cname_rec("www.example.", "ns.example."),
        a_rec("web.example.", 80),
    ]);
    update(
        &zone,
        &[cname_rec("www.example.", "ns.example.")],
        &[cname_rec("www.example.", "web.example.")],
    )
    .await;

    let fresh = from_records(&[
        cname_rec("www.example.", "web.example."),
        a_rec("web.example.", 80),
    ]);
    let want = data(&["www.example. 300 CNAME web.example."]);
    assert_eq!(ask(&fresh, "www.example.", Rtype::A), want);
    assert_eq!(ask(&zone, "www.example.", Rtype::A), want);
}

//------------ 5. a delegation loaded from a zone file cannot be deleted ------

#[tokio::test]
async fn p5_deleted_delegation_still_refers() {
    let cut = [
        ns_rec("child.example.", "ns.child.example."),
        a_rec("ns.child.example.", 80),
    ];
    let zone = from_records(&cut);
    assert!(!ask(&zone, "www.child.example.", Rtype::A).aa);

    update(&zone, &cut, &[]).await;

    let fresh = from_records(&[]);
    assert_eq!(ask(&fresh, "www.child.example.", Rtype::A), nxdomain());
    assert_eq!(ask(&zone, "www.child.example.", Rtype::A), nxdomain());
}

//------------ 6. the glue of a referral is a snapshot ------------------------

/// The glue is copied into the ZoneCut when the zone is built.  Changing the
/// address record of the name server later changes the RRset stored at
/// ns.child.example, but the referral keeps the old address.
#[tokio::test]
async fn p6_referral_carries_stale_glue() {
    let zone = from_records(&[
        ns_rec("child.example.", "ns.child.example."),
        a_rec("ns.child.example.", 80),
    ]);
    update(
        &zone,
        &[a_rec("ns.child.example.", 80)],
        &[a_rec("ns.child.example.", 81)],
    )
    .await;

    let fresh = from_records(&[
        ns_rec("child.example.", "ns.child.example."),
        a_rec("ns.child.example.", 81),
    ]);
    let want = Summary {
        rcode: "NOERROR".into(),
        aa: false,
        answer: vec![],
        authority: vec!["child.example. 300 NS ns.child.example.".into()],
        additional: vec!["ns.child.example. 300 A 192.0.2.81".into()],
    };
    assert_eq!(ask(&fresh, "www.child.example.", Rtype::A), want);
    assert_eq!(ask(&zone, "www.child.example.", Rtype::A), want);
}

//------------ 7. the TTL of an RRset depends on the order of the updates -----

/// Two zones that received the same two records in a different order answer
/// with different TTLs (the updater takes the TTL of the record it was handed
/// last; the zone file loader takes the minimum).
#[tokio::test]
async fn p7_rrset_ttl_depends_on_update_order() {
    let r1 = a_rec_ttl("host.example.", 1, 300);
    let r2 = a_rec_ttl("host.example.", 2, 600);

    let zone12 = from_records(&[]);
    update(&zone12, &[], &[r1.clone(), r2.clone()]).await;
    let zone21 = from_records(&[]);
    update(&zone21, &[], &[r2.clone(), r1.clone()]).await;

    assert_eq!(
        ask(&zone12, "host.example.", Rtype::A),
        ask(&zone21, "host.example.", Rtype::A),
    );
}

/// Deleting one record of an RRset rewrites the TTL of the records that stay
/// with the TTL found in the delete request.
#[tokio::test]
async fn p7b_delete_rewrites_ttl_of_remaining_records() {
    let zone = from_records(&[
        a_rec_ttl("host.example.", 1, 300),
        a_rec_ttl("host.example.", 2, 300),
    ]);
    update(&zone, &[a_rec_ttl("host.example.", 1, 7200)], &[]).await;
    assert_eq!(
        ask(&zone, "host.example.", Rtype::A),
        data(&["host.example. 300 A 192.0.2.2"])
    );
}
