// Behaviour of the UNMODIFIED library that already violates property C10.
//
// Place this file in tests/ of the repository (tests/c10_preexisting.rs) and
// run:
//
//   cargo test --offline -j3 --all-features --test c10_preexisting -- --test-threads=1
//
// Every test asserts what C10 demands; every test FAILS on the unmodified
// library (see the notes next to each test and README.md in this directory).
#![cfg(all(
    feature = "unstable-zonetree",
    feature = "unstable-xfr",
    feature = "unstable-server-transport",
    feature = "zonefile"
))]

use std::collections::BTreeSet;
use std::future::{ready, Future, Ready};
use std::pin::Pin;
use std::str::FromStr;
use std::sync::{Arc, Mutex};

use bytes::Bytes;
use futures_util::stream::Once;
use futures_util::StreamExt;
use octseq::Octets;
use tokio::time::Instant;

use domain::base::iana::{Class, Rcode};
use domain::base::rdata::RecordData;
use domain::base::{
    Message, MessageBuilder, Name, ParsedName, Rtype, Serial, Ttl,
};
use domain::net::server::message::{
    NonUdpTransportContext, Request, TransportSpecificContext,
};
use domain::net::server::middleware::xfr::{
    XfrData, XfrDataProvider, XfrDataProviderError, XfrMiddlewareSvc,
};
use domain::net::server::service::{Service, ServiceResult};
use domain::net::xfr::protocol::{ParsedRecord, XfrResponseInterpreter};
use domain::rdata::{Cname, Ns, Soa, ZoneRecordData, A};
use domain::zonefile::inplace::Zonefile;
use domain::zonetree::types::{EmptyZoneDiff, ZoneUpdate};
use domain::zonetree::update::ZoneUpdater;
use domain::zonetree::{InMemoryZoneDiff, Zone, ZoneBuilder};

type Data = ZoneRecordData<Bytes, Name<Bytes>>;
type Rec = (Name<Bytes>, u32, Data);

fn n(s: &str) -> Name<Bytes> {
    Name::from_str(s).unwrap()
}

fn soa(serial: u32) -> Rec {
    (
        n("example.com"),
        3600,
        Soa::new(
            n("ns.example.com"),
            n("admin.example.com"),
            Serial(serial),
            Ttl::from_secs(10),
            Ttl::from_secs(20),
            Ttl::from_secs(30),
            Ttl::from_secs(40),
        )
        .into(),
    )
}

fn a(owner: &str, ttl: u32, addr: &str) -> Rec {
    (n(owner), ttl, A::new(addr.parse().unwrap()).into())
}

fn ns(owner: &str, ttl: u32, target: &str) -> Rec {
    (n(owner), ttl, Ns::new(n(target)).into())
}

fn mk_req(qtype: Rtype) -> Message<Bytes> {
    let mut req = MessageBuilder::new_bytes().question();
    req.push((n("example.com"), qtype)).unwrap();
    req.into_message()
}

fn mk_resp(req: &Message<Bytes>, recs: &[Rec]) -> Message<Bytes> {
    let mut answer = MessageBuilder::new_bytes()
        .start_answer(req, Rcode::NOERROR)
        .unwrap();
    for (o, t, d) in recs {
        answer
            .push((o, Class::IN, Ttl::from_secs(*t), d))
            .unwrap();
    }
    answer.into_message()
}

fn pr(recs: &[Rec]) -> Vec<ParsedRecord> {
    mk_resp(&mk_req(Rtype::AXFR), recs)
        .answer()
        .unwrap()
        .limit_to::<ZoneRecordData<Bytes, ParsedName<Bytes>>>()
        .map(|r| r.unwrap())
        .collect()
}

fn load_zone(text: &str) -> Zone {
    let mut bytes = std::io::BufReader::new(text.as_bytes());
    Zone::try_from(Zonefile::load(&mut bytes).unwrap()).unwrap()
}

fn line(owner: &Name<Bytes>, rtype: Rtype, ttl: u32, d: &Data) -> String {
    format!("{} {rtype} {ttl} {d}", owner.to_string().to_ascii_lowercase())
}

/// Every RR a reader of the zone sees (a Vec, so duplicates show up).
fn dump(zone: &Zone) -> Vec<String> {
    let out = Arc::new(Mutex::new(Vec::new()));
    let out2 = out.clone();
    zone.read().walk(Box::new(move |owner, rrset, _cut| {
        for d in rrset.data() {
            out2.lock().unwrap().push(line(
                &owner,
                rrset.rtype(),
                rrset.ttl().as_secs(),
                d,
            ));
        }
    }));
    let mut v = out.lock().unwrap().clone();
    v.sort();
    v
}

fn lines(recs: &[Rec]) -> Vec<String> {
    let mut v: Vec<String> = recs
        .iter()
        .map(|(o, t, d)| line(o, d.rtype(), *t, d))
        .collect();
    v.sort();
    v
}

/// Build a zone holding exactly `recs` (first must be the SOA).
async fn build(recs: &[Rec]) -> Zone {
    let zone = ZoneBuilder::new(n("example.com"), Class::IN).build();
    let mut up = ZoneUpdater::new(zone.clone()).await.unwrap();
    let p = pr(recs);
    for r in &p[1..] {
        up.apply(ZoneUpdate::AddRecord(r.clone())).await.unwrap();
    }
    up.apply(ZoneUpdate::Finished(p[0].clone())).await.unwrap();
    zone
}

/// Feed response messages through XfrResponseInterpreter + ZoneUpdater, the
/// way the crate documentation shows. On an error the updater is dropped.
async fn receive(
    zone: &Zone,
    msgs: Vec<Message<Bytes>>,
) -> Result<(bool, Vec<InMemoryZoneDiff>), String> {
    let mut up = ZoneUpdater::new(zone.clone()).await.unwrap();
    let mut interp = XfrResponseInterpreter::new();
    let mut diffs = vec![];
    for (i, m) in msgs.into_iter().enumerate() {
        let it = interp
            .interpret_response(m)
            .map_err(|e| format!("message {i}: {e}"))?;
        for u in it {
            let u = u.map_err(|e| format!("message {i}: {e:?}"))?;
            if let Some(d) = up
                .apply(u)
                .await
                .map_err(|e| format!("message {i}: {e}"))?
            {
                diffs.push(d);
            }
        }
    }
    Ok((interp.is_finished(), diffs))
}

fn rcode(zone: &Zone, name: &str, rtype: Rtype) -> Rcode {
    zone.read().query(n(name), rtype).unwrap().rcode()
}

/// Apply a reported diff to a content listing with set semantics: removed
/// RRs are matched by owner, type and data; added RRs carry the TTL of the
/// added RRset.
fn apply_diff(old: &[String], diff: &InMemoryZoneDiff) -> Vec<String> {
    let mut set: BTreeSet<String> = old.iter().cloned().collect();
    for ((owner, _), rrset) in diff.removed.iter() {
        for d in rrset.data() {
            let pre = format!(
                "{} {} ",
                owner.to_string().to_ascii_lowercase(),
                rrset.rtype()
            );
            let suf = format!(" {d}");
            set.retain(|s| !(s.starts_with(&pre) && s.ends_with(&suf)));
        }
    }
    for ((owner, _), rrset) in diff.added.iter() {
        for d in rrset.data() {
            set.insert(line(owner, rrset.rtype(), rrset.ttl().as_secs(), d));
        }
    }
    set.into_iter().collect()
}

//----------------------------------------------------------------------------
// 1. "any legal packaging into response messages"
//
// XfrZoneUpdateIterator::next() (src/net/xfr/protocol/iterator.rs): when the
// records of a message are exhausted and the transfer is IXFR and exactly one
// record has been seen so far, it reports SingleSoaIxfrTcpRetrySignal and
// marks the transfer finished. An IXFR response stream whose FIRST MESSAGE
// happens to contain only the opening SOA (perfectly legal batching over TCP,
// and exactly what this crate's own server emits for an IXFR query answered
// AXFR-style in "compatibility mode", one RR per message) is therefore
// refused, although the following messages carry a complete transfer.
//----------------------------------------------------------------------------

#[tokio::test]
async fn pre01_ixfr_whose_first_message_holds_only_the_soa() {
    let old = [soa(1), a("a.example.com", 60, "192.0.2.1")];
    let new = [soa(2), a("a.example.com", 60, "192.0.2.2")];
    let zone = build(&old).await;
    let req = mk_req(Rtype::IXFR);
    let msgs = vec![
        mk_resp(&req, &[soa(2)]),
        mk_resp(
            &req,
            &[
                soa(1),
                a("a.example.com", 60, "192.0.2.1"),
                soa(2),
                a("a.example.com", 60, "192.0.2.2"),
                soa(2),
            ],
        ),
    ];
    let res = receive(&zone, msgs).await.map(|r| r.0);
    assert_eq!(res, Ok(true), "legal two-message IXFR was not accepted");
    assert_eq!(dump(&zone), lines(&new));
}

// The same thing end to end with the crate's own server: XfrMiddlewareSvc in
// compatibility mode (XfrData::new(.., .., true)) answering an IXFR query for
// which it has no diffs.
#[derive(Clone)]
struct CompatPrimary(Zone);

impl XfrDataProvider<()> for CompatPrimary {
    type Diff = EmptyZoneDiff;

    fn request<Octs>(
        &self,
        _req: &Request<Octs, ()>,
        _diff_from: Option<Serial>,
    ) -> Pin<
        Box<
            dyn Future<
                    Output = Result<
                        XfrData<Self::Diff>,
                        XfrDataProviderError,
                    >,
                > + Sync
                + Send
                + '_,
        >,
    >
    where
        Octs: Octets + Send + Sync,
    {
        Box::pin(ready(Ok(XfrData::new(self.0.clone(), vec![], true))))
    }
}

#[derive(Clone)]
struct NoNextSvc;

impl Service<Vec<u8>, ()> for NoNextSvc {
    type Target = Vec<u8>;
    type Stream = Once<Ready<ServiceResult<Self::Target>>>;
    type Future = Ready<Self::Stream>;

    fn call(&self, _request: Request<Vec<u8>, ()>) -> Self::Future {
        unimplemented!()
    }
}

#[tokio::test(flavor = "multi_thread", worker_threads = 2)]
async fn pre01b_own_server_in_compat_mode_vs_own_receiver() {
    let new = [soa(2), a("a.example.com", 60, "192.0.2.2")];
    let primary = build(&new).await;
    let secondary =
        build(&[soa(1), a("a.example.com", 60, "192.0.2.1")]).await;

    let mut q = MessageBuilder::new_vec().question();
    q.push((n("example.com"), Rtype::IXFR)).unwrap();
    let mut q = q.authority();
    let (o, t, d) = soa(1);
    q.push((o, Class::IN, Ttl::from_secs(t), d)).unwrap();
    let req = Request::new(
        "127.0.0.1:12345".parse().unwrap(),
        Instant::now(),
        q.into_message(),
        TransportSpecificContext::NonUdp(NonUdpTransportContext::new(None)),
        (),
    );
    let svc =
        XfrMiddlewareSvc::<Vec<u8>, NoNextSvc, (), CompatPrimary>::new(
            NoNextSvc,
            CompatPrimary(primary.clone()),
            1,
        );
    let mut stream = svc.call(req).await;
    let mut msgs = vec![];
    while let Some(item) = stream.next().await {
        if let (Some(resp), _) = item.unwrap().into_inner() {
            msgs.push(
                Message::from_octets(Bytes::copy_from_slice(
                    resp.as_message().as_slice(),
                ))
                .unwrap(),
            );
        }
    }
    assert_eq!(msgs.len(), 3); // SOA / A / SOA, one RR per message
    let res = receive(&secondary, msgs).await.map(|r| r.0);
    assert_eq!(res, Ok(true));
    assert_eq!(dump(&secondary), dump(&primary));
}

//----------------------------------------------------------------------------
// 2. "AXFR-style fallbacks"
//
// RecordProcessor::process_record() (src/net/xfr/protocol/interpreter.rs)
// recognises the AXFR-style answer to an IXFR query by "second record is not
// a SOA". If the new version of the zone consists of the SOA only, the
// AXFR-style answer is "SOA SOA": the second record IS a SOA, equal to the
// first, so it is taken for the end of an (empty) incremental transfer. Only
// Finished(soa) is emitted, no DeleteAllRecords: the receiver keeps every
// old record under the new serial.
//----------------------------------------------------------------------------

#[tokio::test]
async fn pre02_ixfr_answered_axfr_style_for_a_zone_with_only_a_soa() {
    let old = [soa(1), a("a.example.com", 60, "192.0.2.1")];
    let new = [soa(2)];
    let zone = build(&old).await;
    let req = mk_req(Rtype::IXFR);
    let res = receive(&zone, vec![mk_resp(&req, &[soa(2), soa(2)])])
        .await
        .map(|r| r.0);
    assert_eq!(res, Ok(true));
    assert_eq!(dump(&zone), lines(&new), "stale records survived");
}

//----------------------------------------------------------------------------
// 3. "duplicate" faults / RFC 5936 2.2 "AXFR clients MUST ignore any
//    duplicate RRs received"
//
// The interpreter explicitly leaves this to its consumer, and
// ZoneUpdater::add_record_to_rrset() (src/zonetree/update.rs) pushes the new
// record data without looking whether it is already present. A stream with a
// duplicated RR (or a duplicated message) yields an RRset that holds the
// same RR twice; re-serving that zone sends the RR twice, and so on.
//----------------------------------------------------------------------------

#[tokio::test]
async fn pre03_axfr_with_a_duplicated_rr() {
    let sender = [soa(1), a("a.example.com", 60, "192.0.2.1")];
    let zone = ZoneBuilder::new(n("example.com"), Class::IN).build();
    let req = mk_req(Rtype::AXFR);
    let msgs = vec![mk_resp(
        &req,
        &[
            soa(1),
            a("a.example.com", 60, "192.0.2.1"),
            a("a.example.com", 60, "192.0.2.1"),
            soa(1),
        ],
    )];
    assert_eq!(receive(&zone, msgs).await.map(|r| r.0), Ok(true));
    assert_eq!(dump(&zone), lines(&sender));
}

//----------------------------------------------------------------------------
// 4. "the difference set a zone reports when a change is committed, applied
//    to the old content, also yields the new content" -- TTL change
//
// WriteNode::update_rrset() (src/zonetree/in_memory/write.rs) compares the
// new RRset with the published one record by record, ignoring the TTL. When
// an RRset is replaced by one with the same data and another TTL (IXFR:
// delete RRs with old TTL, add RRs with new TTL), the last call finds
// nothing removed and nothing added and does not touch the diff -- but the
// entries recorded by the earlier calls (remove_rrset() of the whole RRset,
// then "1.1.1.2 removed" when the first RR came back) are still there. The
// reported diff removes RRs that exist in the new version and never adds
// them back.
//----------------------------------------------------------------------------

#[tokio::test]
async fn pre04_diff_for_a_ttl_change() {
    let old = [
        soa(1),
        a("a.example.com", 3600, "192.0.2.1"),
        a("a.example.com", 3600, "192.0.2.2"),
    ];
    let zone = build(&old).await;
    let before = dump(&zone);
    let req = mk_req(Rtype::IXFR);
    let msgs = vec![mk_resp(
        &req,
        &[
            soa(2),
            soa(1),
            a("a.example.com", 3600, "192.0.2.1"),
            a("a.example.com", 3600, "192.0.2.2"),
            soa(2),
            a("a.example.com", 300, "192.0.2.1"),
            a("a.example.com", 300, "192.0.2.2"),
            soa(2),
        ],
    )];
    let (finished, diffs) = receive(&zone, msgs).await.unwrap();
    assert!(finished);
    let diff = diffs.last().expect("a diff for 1 -> 2");
    assert_eq!((diff.start_serial, diff.end_serial), (Serial(1), Serial(2)));
    assert_eq!(apply_diff(&before, diff), dump(&zone));
}

//----------------------------------------------------------------------------
// 5. same clause -- full replacement (AXFR into a populated zone)
//
// ZoneUpdate::DeleteAllRecords ends in ZoneApex/ZoneNode::remove_all()
// (src/zonetree/in_memory/nodes.rs), which masks every RRset in the new
// version but records nothing in the diff being built. The diff returned by
// the commit lacks every RRset that exists in the old version only (and lists
// every unchanged RRset as "added").
//----------------------------------------------------------------------------

#[tokio::test]
async fn pre05_diff_for_an_axfr_into_a_populated_zone() {
    let old = [
        soa(1),
        a("a.example.com", 60, "192.0.2.1"),
        a("gone.example.com", 60, "192.0.2.9"),
    ];
    let zone = build(&old).await;
    let before = dump(&zone);
    let req = mk_req(Rtype::AXFR);
    let msgs = vec![mk_resp(
        &req,
        &[
            soa(2),
            a("a.example.com", 60, "192.0.2.1"),
            a("new.example.com", 60, "192.0.2.2"),
            soa(2),
        ],
    )];
    let (finished, diffs) = receive(&zone, msgs).await.unwrap();
    assert!(finished);
    let diff = diffs.last().expect("a diff for 1 -> 2");
    assert_eq!((diff.start_serial, diff.end_serial), (Serial(1), Serial(2)));
    assert_eq!(apply_diff(&before, diff), dump(&zone));
}

//----------------------------------------------------------------------------
// 6. "never leave a partially applied version visible to readers"
//
// WriteNode::update_child() creates missing tree nodes in the shared
// NodeChildren map right away (NodeChildren::with_or_default). Rolling back
// (ZoneApex::rollback) pops the versioned values but the nodes stay. A node
// without any versioned "special" reads as a regular node without records,
// so names that were only mentioned by an ABORTED transfer change their
// answer from NXDOMAIN to NOERROR/NODATA for every reader.
//----------------------------------------------------------------------------

#[tokio::test]
async fn pre06_aborted_transfer_changes_answers() {
    let zone = build(&[soa(1), a("a.example.com", 60, "192.0.2.1")]).await;
    assert_eq!(rcode(&zone, "new.example.com", Rtype::A), Rcode::NXDOMAIN);
    let req = mk_req(Rtype::AXFR);
    // The closing SOA never arrives; the updater is dropped.
    let msgs = vec![mk_resp(
        &req,
        &[soa(2), a("new.example.com", 60, "192.0.2.2")],
    )];
    assert_eq!(receive(&zone, msgs).await.map(|r| r.0), Ok(false));
    assert_eq!(dump(&zone).len(), 2); // content rolled back all right...
    assert_eq!(rcode(&zone, "new.example.com", Rtype::A), Rcode::NXDOMAIN);
}

//----------------------------------------------------------------------------
// 7. "a full transfer reconstructs on the receiving side exactly the
//    sender's zone" -- names that disappear
//
// ZoneNode::remove_all() removes the node's "special" marker, and nothing
// puts Special::NxDomain back on nodes that receive no records in the new
// version. After an AXFR that drops a name the receiver answers
// NOERROR/NODATA for it, the sender NXDOMAIN.
//----------------------------------------------------------------------------

#[tokio::test]
async fn pre07_receiver_answers_differently_for_a_removed_name() {
    let old = [
        soa(1),
        a("a.example.com", 60, "192.0.2.1"),
        a("gone.example.com", 60, "192.0.2.9"),
    ];
    let new = [soa(2), a("a.example.com", 60, "192.0.2.1")];
    let receiver = build(&old).await;
    let sender = build(&new).await;
    let req = mk_req(Rtype::AXFR);
    let mut recs = new.to_vec();
    recs.push(soa(2));
    let (finished, _) =
        receive(&receiver, vec![mk_resp(&req, &recs)]).await.unwrap();
    assert!(finished);
    assert_eq!(dump(&sender), dump(&receiver));
    assert_eq!(
        rcode(&receiver, "gone.example.com", Rtype::A),
        rcode(&sender, "gone.example.com", Rtype::A),
    );
}

//----------------------------------------------------------------------------
// 8. "an incremental transfer applied to the old version yields exactly the
//    new version" -- old version loaded from a zone file
//
// Zone::try_from(Zonefile) stores delegations (NS, DS, glue) in
// Special::Cut and CNAMEs in Special::Cname. ZoneUpdater only ever looks at
// and edits the node's plain RRsets (get_rrset / update_rrset /
// remove_rrset). An IXFR that deletes a delegation, its glue or a CNAME from
// such a zone deletes nothing, and adding another type at the former CNAME
// owner leaves the CNAME next to it.
//----------------------------------------------------------------------------

#[tokio::test]
async fn pre08_ixfr_applied_to_a_zone_loaded_from_a_zone_file() {
    let text = r#"
example.com. 3600 IN SOA ns.example.com. admin.example.com. 1 10 20 30 40
example.com. 3600 IN NS ns.example.com.
ns.example.com. 3600 IN A 192.0.2.1
sub.example.com. 3600 IN NS ns1.sub.example.com.
ns1.sub.example.com. 3600 IN A 192.0.2.53
www.example.com. 3600 IN CNAME a.example.com.
a.example.com. 3600 IN A 192.0.2.2
"#;
    let zone = load_zone(text);
    let cname: Rec = (
        n("www.example.com"),
        3600,
        Cname::new(n("a.example.com")).into(),
    );
    let new = [
        soa(2),
        ns("example.com", 3600, "ns.example.com"),
        a("ns.example.com", 3600, "192.0.2.1"),
        a("a.example.com", 3600, "192.0.2.2"),
        a("www.example.com", 3600, "192.0.2.80"),
    ];
    let req = mk_req(Rtype::IXFR);
    let msgs = vec![mk_resp(
        &req,
        &[
            soa(2),
            soa(1),
            ns("sub.example.com", 3600, "ns1.sub.example.com"),
            a("ns1.sub.example.com", 3600, "192.0.2.53"),
            cname,
            soa(2),
            a("www.example.com", 3600, "192.0.2.80"),
            soa(2),
        ],
    )];
    assert_eq!(receive(&zone, msgs).await.map(|r| r.0), Ok(true));
    assert_eq!(dump(&zone), lines(&new));
}

//----------------------------------------------------------------------------
// 9. "missing or mismatched SOA framing ... rejected with an error"
//
// Neither the interpreter nor ZoneUpdater (BeginBatchDelete(_old_soa) ignores
// its argument) compares the "old" SOA that opens a difference sequence with
// the SOA of the zone the differences are applied to. An incremental
// transfer that starts from some other version is applied without complaint
// and produces a zone that never existed on the sender.
//----------------------------------------------------------------------------

#[tokio::test]
async fn pre09_ixfr_for_another_base_version_is_applied() {
    let old = [soa(5), a("a.example.com", 60, "192.0.2.1")];
    let zone = build(&old).await;
    let before = dump(&zone);
    let req = mk_req(Rtype::IXFR);
    let msgs = vec![mk_resp(
        &req,
        &[
            soa(9),
            soa(8), // we have 5
            a("zzz.example.com", 60, "192.0.2.7"),
            soa(9),
            a("b.example.com", 60, "192.0.2.2"),
            soa(9),
        ],
    )];
    let res = receive(&zone, msgs).await.map(|r| r.0);
    assert!(res.is_err(), "accepted: {res:?}, zone now {:#?}", dump(&zone));
    assert_eq!(dump(&zone), before);
}

//----------------------------------------------------------------------------
// 10. "never leave a partially applied version visible to readers"
//
// ZoneUpdater commits at every BeginBatchDelete (documented). A multi-step
// IXFR that turns out to be bad in its second difference sequence has by then
// already published the first step; dropping the updater rolls back only the
// open step. Readers see (and keep) serial 2 of a 1 -> 3 transfer that was
// rejected.
//----------------------------------------------------------------------------

#[tokio::test]
async fn pre10_rejected_multi_step_ixfr_leaves_an_intermediate_version() {
    let old = [soa(1), a("a.example.com", 60, "192.0.2.1")];
    let zone = build(&old).await;
    let before = dump(&zone);
    let req = mk_req(Rtype::IXFR);
    let msgs = vec![mk_resp(
        &req,
        &[
            soa(3),
            soa(1),
            a("a.example.com", 60, "192.0.2.1"),
            soa(2),
            a("a.example.com", 60, "192.0.2.2"),
            soa(2),
            a("a.example.com", 60, "192.0.2.2"),
            soa(3),
            a("a.example.org", 60, "192.0.2.3"), // out of zone -> error
            soa(3),
        ],
    )];
    let res = receive(&zone, msgs).await.map(|r| r.0);
    assert!(res.is_err());
    assert_eq!(dump(&zone), before, "rejected transfer changed the zone");
}

//----------------------------------------------------------------------------
// 11. "mismatched SOA framing ... rejected with an error"
//
// An AXFR whose closing SOA differs from the opening one (the zone changed on
// the sender in mid-transfer) is not an error for the interpreter: the SOA is
// handed out as AddRecord (to be added to the apex SOA RRset, which then
// holds two SOAs) and the transfer simply never finishes.
//----------------------------------------------------------------------------

#[tokio::test]
async fn pre11_axfr_with_a_different_closing_soa() {
    let zone = ZoneBuilder::new(n("example.com"), Class::IN).build();
    let req = mk_req(Rtype::AXFR);
    let msgs = vec![mk_resp(
        &req,
        &[soa(1), a("a.example.com", 60, "192.0.2.1"), soa(2)],
    )];
    let res = receive(&zone, msgs).await.map(|r| r.0);
    assert!(res.is_err(), "no error, result {res:?}");
}

//----------------------------------------------------------------------------
// 12. "reconstructs on the receiving side exactly the sender's zone" (RFC
//     5936 section 3: "... should be served subsequently by the AXFR client
//     in an identical manner")
//
// ZoneUpdater (src/zonetree/update.rs) stores every transferred record as a
// plain RRset; it never calls WritableZoneNode::make_zone_cut() or
// make_cname(). A zone received by AXFR lists the same records as the
// sender's zone (loaded from a zone file) but readers get different answers:
// names below a delegation are NXDOMAIN instead of a referral, glue is
// handed out as authoritative data, and a query for another type at a CNAME
// owner gets NODATA instead of the CNAME.
//----------------------------------------------------------------------------

#[tokio::test]
async fn pre12_received_zone_does_not_serve_delegations_and_cnames() {
    use domain::zonetree::{Answer, AnswerContent};

    let text = r#"
example.com. 3600 IN SOA ns.example.com. admin.example.com. 1 10 20 30 40
example.com. 3600 IN NS ns.example.com.
ns.example.com. 3600 IN A 192.0.2.1
sub.example.com. 3600 IN NS ns1.sub.example.com.
ns1.sub.example.com. 3600 IN A 192.0.2.53
www.example.com. 3600 IN CNAME a.example.com.
a.example.com. 3600 IN A 192.0.2.2
"#;
    let sender = load_zone(text);
    let receiver = ZoneBuilder::new(n("example.com"), Class::IN).build();
    let req = mk_req(Rtype::AXFR);
    let cname: Rec = (
        n("www.example.com"),
        3600,
        Cname::new(n("a.example.com")).into(),
    );
    let msgs = vec![mk_resp(
        &req,
        &[
            soa(1),
            ns("example.com", 3600, "ns.example.com"),
            a("ns.example.com", 3600, "192.0.2.1"),
            ns("sub.example.com", 3600, "ns1.sub.example.com"),
            a("ns1.sub.example.com", 3600, "192.0.2.53"),
            cname,
            a("a.example.com", 3600, "192.0.2.2"),
            soa(1),
        ],
    )];
    assert_eq!(receive(&receiver, msgs).await.map(|r| r.0), Ok(true));
    // Same records ...
    assert_eq!(dump(&sender), dump(&receiver));

    // ... but not the same answers.
    fn shape(a: &Answer) -> String {
        let content = match a.content() {
            AnswerContent::Data(_) => "data",
            AnswerContent::Cname(_) => "cname",
            AnswerContent::NoData => "nodata",
        };
        format!("{} {content}", a.rcode())
    }
    let mut differences = vec![];
    for (name, rtype) in [
        ("x.sub.example.com", Rtype::A),
        ("ns1.sub.example.com", Rtype::A),
        ("www.example.com", Rtype::A),
    ] {
        let s = shape(&sender.read().query(n(name), rtype).unwrap());
        let r = shape(&receiver.read().query(n(name), rtype).unwrap());
        if s != r {
            differences
                .push(format!("{name} {rtype}: sender {s}, receiver {r}"));
        }
    }
    assert!(differences.is_empty(), "{differences:#?}");
}
