// Behaviour of the UNMODIFIED library that contradicts property C11.
//
// Every test asserts what the property / RFC 8945 demands, so every test in
// this file FAILS on the unmodified library (that is the finding).
//
// Place as tests/c11_preexisting.rs and run with
//
//     cargo test --offline -j4 --features tsig --test c11_preexisting
//
#![cfg(feature = "tsig")]
#![allow(dead_code)]

use domain::base::iana::{Rcode, Rtype, TsigRcode};
use domain::base::message::Message;
use domain::base::message_builder::{AdditionalBuilder, MessageBuilder};
use domain::base::name::Name;
use domain::rdata::tsig::Time48;
use domain::rdata::A;
use domain::tsig::*;
use ring::hmac;
use std::str::FromStr;

const SECRET: &[u8] = b"0123456789abcdef0123456789abcdef";
const KEY_WIRE: &[u8] = b"\x08tsig-key\x07example\0";
const NOW: u64 = 1_700_000_000;

fn t(v: u64) -> Time48 {
    Time48::from_u64(v)
}

fn key(alg: Algorithm, min: Option<usize>, sign: Option<usize>) -> Key {
    Key::new(
        alg,
        SECRET,
        KeyName::from_str("tsig-key.example.").unwrap(),
        min,
        sign,
    )
    .unwrap()
}

fn query(id: u16) -> AdditionalBuilder<Vec<u8>> {
    let mut b = MessageBuilder::new_vec();
    b.header_mut().set_id(id);
    b.header_mut().set_rd(true);
    let mut q = b.question();
    q.push((
        Name::<Vec<u8>>::from_str("www.example.com.").unwrap(),
        Rtype::A,
    ))
    .unwrap();
    q.additional()
}

fn answer_to(req: &Message<Vec<u8>>, n: u8) -> AdditionalBuilder<Vec<u8>> {
    let b = MessageBuilder::new_vec();
    let mut a = b.start_answer(req, Rcode::NOERROR).unwrap();
    for i in 0..n {
        a.push((
            Name::<Vec<u8>>::from_str("www.example.com.").unwrap(),
            300,
            A::from_octets(192, 0, 2, i),
        ))
        .unwrap();
    }
    a.additional()
}

fn hmac_alg(alg: Algorithm) -> hmac::Algorithm {
    match alg {
        Algorithm::Sha1 => hmac::HMAC_SHA1_FOR_LEGACY_USE_ONLY,
        Algorithm::Sha256 => hmac::HMAC_SHA256,
        Algorithm::Sha384 => hmac::HMAC_SHA384,
        Algorithm::Sha512 => hmac::HMAC_SHA512,
    }
}

fn alg_wire(alg: Algorithm) -> &'static [u8] {
    match alg {
        Algorithm::Sha1 => b"\x09hmac-sha1\0",
        Algorithm::Sha256 => b"\x0bhmac-sha256\0",
        Algorithm::Sha384 => b"\x0bhmac-sha384\0",
        Algorithm::Sha512 => b"\x0bhmac-sha512\0",
    }
}

fn time6(t: u64) -> [u8; 6] {
    let b = t.to_be_bytes();
    [b[2], b[3], b[4], b[5], b[6], b[7]]
}

/// Independent RFC 8945 MAC over (prior MAC) | messages | TSIG variables.
fn rfc_mac(
    alg: Algorithm,
    prior: Option<&[u8]>,
    msgs: &[&[u8]],
    time: u64,
    fudge: u16,
) -> Vec<u8> {
    let k = hmac::Key::new(hmac_alg(alg), SECRET);
    let mut c = hmac::Context::with_key(&k);
    if let Some(p) = prior {
        c.update(&(p.len() as u16).to_be_bytes());
        c.update(p);
    }
    for m in msgs {
        c.update(m);
    }
    c.update(KEY_WIRE);
    c.update(&255u16.to_be_bytes()); // class ANY
    c.update(&0u32.to_be_bytes()); // TTL
    c.update(alg_wire(alg));
    c.update(&time6(time));
    c.update(&fudge.to_be_bytes());
    c.update(&0u16.to_be_bytes()); // error
    c.update(&0u16.to_be_bytes()); // other len
    c.sign().as_ref().to_vec()
}

/// Appends a raw TSIG RR to an unsigned message and bumps ARCOUNT.
fn append_tsig(
    msg: &[u8],
    alg: Algorithm,
    time: u64,
    fudge: u16,
    mac: &[u8],
    orig_id: u16,
) -> Vec<u8> {
    append_tsig_other(msg, alg, time, fudge, mac, orig_id, b"")
}

/// Same with explicit other data.
fn append_tsig_other(
    msg: &[u8],
    alg: Algorithm,
    time: u64,
    fudge: u16,
    mac: &[u8],
    orig_id: u16,
    other: &[u8],
) -> Vec<u8> {
    let mut v = msg.to_vec();
    let ar = u16::from_be_bytes([v[10], v[11]]) + 1;
    v[10..12].copy_from_slice(&ar.to_be_bytes());
    v.extend_from_slice(KEY_WIRE);
    v.extend_from_slice(&250u16.to_be_bytes());
    v.extend_from_slice(&255u16.to_be_bytes());
    v.extend_from_slice(&0u32.to_be_bytes());
    let mut rd = Vec::new();
    rd.extend_from_slice(alg_wire(alg));
    rd.extend_from_slice(&time6(time));
    rd.extend_from_slice(&fudge.to_be_bytes());
    rd.extend_from_slice(&(mac.len() as u16).to_be_bytes());
    rd.extend_from_slice(mac);
    rd.extend_from_slice(&orig_id.to_be_bytes());
    rd.extend_from_slice(&0u16.to_be_bytes());
    rd.extend_from_slice(&(other.len() as u16).to_be_bytes());
    rd.extend_from_slice(other);
    v.extend_from_slice(&(rd.len() as u16).to_be_bytes());
    v.extend_from_slice(&rd);
    v
}


/// P1. Other Len / Other Data are signed fields (RFC 8945, 4.3.3), but the
/// verifier only digests them if Other Len is exactly 6. Other data of any
/// other length can be added to a signed message without invalidating the
/// MAC (`MessageTsig::variables` -> `Tsig::other_time` -> `Variables::sign`).
#[test]
fn p1_added_other_data_is_rejected() {
    let alg = Algorithm::Sha256;
    let k = key(alg, None, None);
    let unsigned = query(0x1234).as_slice().to_vec();
    let mac = rfc_mac(alg, None, &[&unsigned], NOW, 300);
    let mut accepted = Vec::new();
    for other in [&b"x"[..], b"12345", b"1234567", b"0123456789abcdef"] {
        let bad = append_tsig_other(
            &unsigned, alg, NOW, 300, &mac, 0x1234, other,
        );
        let mut m = Message::from_octets(bad).unwrap();
        if let Ok(Some(_)) = ServerTransaction::request(&k, &mut m, t(NOW)) {
            accepted.push(other.len());
        }
    }
    assert!(
        accepted.is_empty(),
        "server accepted requests whose TSIG got other data of lengths \
         {accepted:?} added after signing"
    );
}

/// P1 on the client side.
#[test]
fn p1_added_other_data_is_rejected_by_client() {
    let alg = Algorithm::Sha256;
    let k = key(alg, None, None);
    let mut req = query(0x4321);
    let client = ClientTransaction::request(&k, &mut req, t(NOW)).unwrap();
    let mut reqm = req.into_message();
    let n = k.signing_len();
    let reqmac =
        reqm.as_slice()[reqm.as_slice().len() - 6 - n..][..n].to_vec();
    ServerTransaction::request(&k, &mut reqm, t(NOW))
        .unwrap()
        .unwrap();
    let unsigned = answer_to(&reqm, 2).as_slice().to_vec();
    let mac = rfc_mac(alg, Some(&reqmac), &[&unsigned], NOW, 300);
    let bad =
        append_tsig_other(&unsigned, alg, NOW, 300, &mac, 0x4321, b"evil");
    let mut m = Message::from_octets(bad).unwrap();
    let res = client.answer(&mut m, t(NOW));
    assert!(
        res.is_err(),
        "client accepted a response whose TSIG got 4 octets of other data \
         added after signing"
    );
}

/// P2. RFC 8945, 5.2: "If multiple TSIG records are detected or a TSIG
/// record is present in any other position, the DNS message is dropped and
/// a response with RCODE 1 (FORMERR) MUST be returned." A TSIG record in
/// the answer or authority section is not noticed at all
/// (`MessageTsig::from_message` only walks the additional section); the
/// server treats the request as unsigned (`Ok(None)`).
#[test]
fn p2_tsig_outside_additional_is_formerr() {
    let alg = Algorithm::Sha256;
    let k = key(alg, None, None);
    let unsigned = query(0x1234).as_slice().to_vec();
    let mac = rfc_mac(alg, None, &[&unsigned], NOW, 300);
    for (what, idx) in [("answer", 6usize), ("authority", 8)] {
        let mut v = append_tsig(&unsigned, alg, NOW, 300, &mac, 0x1234);
        v[10..12].copy_from_slice(&0u16.to_be_bytes());
        v[idx..idx + 2].copy_from_slice(&1u16.to_be_bytes());
        let mut m = Message::from_octets(v).unwrap();
        match ServerTransaction::request(&k, &mut m, t(NOW)) {
            Err(err) => assert_eq!(err.error(), TsigRcode::FORMERR),
            Ok(Some(_)) => panic!("TSIG in {what} section: accepted"),
            Ok(None) => panic!(
                "TSIG in {what} section: request treated as unsigned \
                 instead of FORMERR"
            ),
        }
    }
}

/// P3. RFC 8945, 5.2.2.1: a MAC longer than the algorithm's output and a
/// MAC shorter than max(10, output / 2) are format errors (FORMERR);
/// BADTRUNC is only for a MAC that is within these bounds but shorter than
/// local policy. `Key::compare_signatures` answers BADTRUNC for everything
/// below `min_mac_len` and BADSIG for an over-long MAC.
#[test]
fn p3_mac_size_out_of_rfc_bounds_is_formerr() {
    let alg = Algorithm::Sha256;
    // Local policy: at least 20 octets. RFC bounds: 16..=32.
    let k = key(alg, Some(20), None);
    let unsigned = query(0x1234).as_slice().to_vec();
    let mac = rfc_mac(alg, None, &[&unsigned], NOW, 300);
    let mut wrong = Vec::new();
    for (len, want) in [
        (5usize, Some(TsigRcode::FORMERR)),
        (15, Some(TsigRcode::FORMERR)),
        (16, Some(TsigRcode::BADTRUNC)),
        (19, Some(TsigRcode::BADTRUNC)),
        (20, None),
        (32, None),
        (33, Some(TsigRcode::FORMERR)),
        (40, Some(TsigRcode::FORMERR)),
    ] {
        let mut mm = mac.clone();
        mm.resize(len, 0xAA);
        let v = append_tsig(&unsigned, alg, NOW, 300, &mm, 0x1234);
        let mut m = Message::from_octets(v).unwrap();
        let got = match ServerTransaction::request(&k, &mut m, t(NOW)) {
            Ok(Some(_)) => None,
            Ok(None) => panic!("unsigned?"),
            Err(err) => Some(err.error()),
        };
        if got != want {
            wrong.push(format!("MAC size {len}: want {want:?}, got {got:?}"));
        }
    }
    assert!(wrong.is_empty(), "{}", wrong.join("; "));
}

/// P4. `ServerSequence::answer` advances the sequence state (first flag,
/// digest context, chained MAC) before it tries to append the TSIG record.
/// If the record does not fit (`PushError`), the documentation promises an
/// unchanged builder, but the sequence has silently moved on: the retried,
/// smaller message is signed over a MAC the client never saw and the honest
/// exchange no longer verifies.
#[test]
fn p4_sequence_survives_failed_push() {
    let k = key(Algorithm::Sha256, None, None);
    let mut req = query(0x1234);
    let mut cseq = ClientSequence::request(&k, &mut req, t(NOW)).unwrap();
    let mut reqm = req.into_message();
    let mut sseq = ServerSequence::request(&k, &mut reqm, t(NOW))
        .unwrap()
        .unwrap();
    let mut a1 = answer_to(&reqm, 1);
    sseq.answer(&mut a1, t(NOW)).unwrap();
    cseq.answer(&mut a1.into_message(), t(NOW)).unwrap();

    // Second answer: the builder has no room left for the TSIG record.
    let mut big = answer_to(&reqm, 20);
    let len = big.as_slice().len();
    big.set_push_limit(len + 10);
    assert!(sseq.answer(&mut big, t(NOW)).is_err());
    assert_eq!(big.as_slice().len(), len);

    // So the server sends fewer records instead.
    let mut a2 = answer_to(&reqm, 2);
    sseq.answer(&mut a2, t(NOW)).unwrap();
    let res = cseq.answer(&mut a2.into_message(), t(NOW));
    assert!(
        res.is_ok(),
        "answer signed after a failed attempt does not verify: {res:?}"
    );
}

/// P5. "Successful verification returns the message to its pre-signing
/// octets": only ARCOUNT and the ID are restored, the octets of the TSIG
/// record stay at the end of the message (`Message::remove_last_additional`
/// merely decrements ARCOUNT), so `as_slice()`/`into_octets()` differ from
/// what was signed.
#[test]
fn p5_verified_message_has_presigning_octets() {
    let k = key(Algorithm::Sha256, None, None);
    let mut req = query(0x1234);
    let before = req.as_slice().to_vec();
    let _c = ClientTransaction::request(&k, &mut req, t(NOW)).unwrap();
    let mut reqm = req.into_message();
    ServerTransaction::request(&k, &mut reqm, t(NOW))
        .unwrap()
        .unwrap();
    assert_eq!(&reqm.as_slice()[..before.len()], &before[..]);
    assert_eq!(
        reqm.as_slice().len(),
        before.len(),
        "verified message still carries the octets of the TSIG record"
    );
}

/// P6. `ClientSequence::answer` replaces its digest context before the MAC
/// comparison (`first_answer` / `signed_subsequent`), so one message that
/// fails verification (e.g. a spoofed datagram) destroys the sequence: the
/// genuine answer arriving afterwards is refused. `ClientTransaction`
/// documents and implements the opposite ("The transaction will remain
/// valid").
#[test]
fn p6_sequence_survives_a_forged_message() {
    let k = key(Algorithm::Sha256, None, None);
    let mut req = query(0x1234);
    let mut cseq = ClientSequence::request(&k, &mut req, t(NOW)).unwrap();
    let mut reqm = req.into_message();
    let mut sseq = ServerSequence::request(&k, &mut reqm, t(NOW))
        .unwrap()
        .unwrap();
    let mut a1 = answer_to(&reqm, 1);
    sseq.answer(&mut a1, t(NOW)).unwrap();
    let good = a1.into_message().into_octets();
    let mut bad = good.clone();
    let n = bad.len();
    bad[n - 10] ^= 1; // inside the MAC
    let mut badm = Message::from_octets(bad).unwrap();
    assert!(cseq.answer(&mut badm, t(NOW)).is_err());
    let mut goodm = Message::from_octets(good).unwrap();
    let res = cseq.answer(&mut goodm, t(NOW));
    assert!(
        res.is_ok(),
        "genuine first answer refused after a forged one: {res:?}"
    );
}
