// Pre-existing behaviour of the UNMODIFIED library: a single 64 KiB message
// keeps `Message::canonical_name` busy for a very long time.
//
//     cargo test --offline -j4 --test c01_pre_cname_blowup -- --nocapture
//     cargo test --offline -j4 --release --test c01_pre_cname_blowup -- --nocapture
//
// The message holds a chain of ~8000 label-free compression pointers (each
// pointing to the one before, all perfectly legal: strictly backwards) inside
// the record data of a leading record of unknown type, followed by ~2240
// CNAME records whose owner and target are `<2 octet label> + pointer to the
// top of the pointer chain`.  The CNAME records form one alias chain but are
// stored in reverse order, so that every step of `canonical_name` has to walk
// (almost) the whole answer section, and every record it looks at costs four
// trips down the pointer chain (parse owner, parse target, compare owner,
// compare name).  That is about N^2/2 * 4 * 8000 = 10^11 pointer hops for a
// single UDP-over-TCP sized message.
//
// `scaled_down` measures a small instance and extrapolates, `full_size` runs
// the real thing under a 20 s watchdog (and FAILS on the unmodified library).
//
// Observed on the unmodified library (this machine, other jobs running):
//   debug:   120 CNAMEs 5.1 s  -> extrapolated 2240 CNAMEs: ~1770 s (30 min)
//   release: 120 CNAMEs 0.26 s -> extrapolated 2240 CNAMEs: ~90 s
// and `full_size` hits the 20 s watchdog in both profiles.  Strictly speaking
// the call terminates (every loop is bounded), so this is a complexity
// blow-up / practical hang rather than an endless loop.

use domain::base::Message;
use std::time::{Duration, Instant};

fn label(i: usize) -> [u8; 3] {
    [2, b'a' + (i / 26 % 26) as u8 + 0, b'a' + (i % 26) as u8]
}

fn name_label(i: usize) -> [u8; 4] {
    // three octet labels so that we have enough distinct names
    [3, b'a' + (i / 676 % 26) as u8, b'a' + (i / 26 % 26) as u8, b'a' + (i % 26) as u8]
}

fn build(chain_len: usize, cnames: usize) -> Vec<u8> {
    let _ = label(0);
    let mut msg = vec![0x12, 0x34, 0x84, 0x00, 0, 1];
    msg.extend_from_slice(&((cnames + 1) as u16).to_be_bytes());
    msg.extend_from_slice(&[0, 0, 0, 0]);
    // question: <name 0>. IN A
    msg.extend_from_slice(&name_label(0));
    msg.push(0);
    msg.extend_from_slice(&[0, 1, 0, 1]);
    // first answer: unknown type 65280 whose data is the pointer chain
    msg.push(0);
    msg.extend_from_slice(&[0xFF, 0x00, 0, 1, 0, 0, 0, 0]);
    msg.extend_from_slice(&((1 + 2 * chain_len) as u16).to_be_bytes());
    let mut prev = msg.len();
    msg.push(0); // the root label everything ends in
    for _ in 0..chain_len {
        let here = msg.len();
        msg.push(0xC0 | (prev >> 8) as u8);
        msg.push(prev as u8);
        prev = here;
    }
    let top = prev;
    assert!(top < 0x4000);
    // CNAME records name(i) -> name(i + 1), stored last step first.
    for i in (0..cnames).rev() {
        msg.extend_from_slice(&name_label(i));
        msg.push(0xC0 | (top >> 8) as u8);
        msg.push(top as u8);
        msg.extend_from_slice(&[0, 5, 0, 1, 0, 0, 0, 60, 0, 6]);
        msg.extend_from_slice(&name_label(i + 1));
        msg.push(0xC0 | (top >> 8) as u8);
        msg.push(top as u8);
    }
    assert!(msg.len() <= 65535, "{}", msg.len());
    msg
}

#[test]
fn scaled_down() {
    let chain = 8000;
    let n = 120;
    let octets = build(chain, n);
    let msg = Message::from_octets(octets.as_slice()).unwrap();
    let start = Instant::now();
    let name = msg.canonical_name().expect("the chain has an end");
    let took = start.elapsed();
    assert_eq!(name.to_string(), "aeq"); // name_label(120)
    let full = 2240.0f64;
    let factor = (full / n as f64) * (full / n as f64);
    eprintln!(
        "{} octets, {} CNAMEs: {:?}; extrapolated to {} CNAMEs: {:.0} s",
        octets.len(), n, took, full, took.as_secs_f64() * factor
    );
}

#[test]
fn full_size() {
    let octets = build(8000, 2240);
    eprintln!("message size: {} octets", octets.len());
    let (tx, rx) = std::sync::mpsc::channel();
    std::thread::spawn(move || {
        let msg = Message::from_octets(octets.as_slice()).unwrap();
        let start = Instant::now();
        let res = msg.canonical_name().map(|name| name.to_string());
        let _ = tx.send((res, start.elapsed()));
    });
    match rx.recv_timeout(Duration::from_secs(20)) {
        Ok((res, took)) => eprintln!("finished in {:?}: {:?}", took, res),
        Err(_) => panic!(
            "canonical_name() on one 64 KiB message still running after 20 s"
        ),
    }
}
