// Pre-existing deviations of the UNMODIFIED library from property C11.
// Place in tests/m17_c11_preexisting.rs and run:
//   cargo test --offline --features tsig --test m17_c11_preexisting
// Each test asserts what RFC 8945 demands and FAILS on the unmodified code.
#![cfg(feature = "tsig")]
#![allow(unused_imports)]

use domain::base::iana::Rcode;
use domain::base::message::Message;
use domain::base::message_builder::MessageBuilder;
use domain::base::name::{Name, ToLabelIter};
use domain::base::{Question, Rtype};
use domain::rdata::tsig::Time48;
use domain::rdata::A;
use domain::tsig::{
    Algorithm, ClientTransaction, Key, KeyName, ServerTransaction,
    ValidationError,
};
use std::str::FromStr;
use std::sync::Arc;

#[allow(dead_code)]
fn key() -> Arc<Key> {
    Arc::new(
        Key::new(
            Algorithm::Sha256,
            b"0123456789abcdef0123456789abcdef",
            KeyName::from_str("demo-key.example.").unwrap(),
            None,
            None,
        )
        .unwrap(),
    )
}

/// Returns (transaction, signed request octets).
#[allow(dead_code)]
fn signed_request(
    key: &Arc<Key>,
    id: u16,
    now: Time48,
) -> (ClientTransaction<Arc<Key>>, Vec<u8>) {
    let mut b = MessageBuilder::new_vec();
    b.header_mut().set_id(id);
    b.header_mut().set_rd(true);
    let mut b = b.question();
    b.push(Question::new_in(
        Name::<Vec<u8>>::from_str("www.example.com.").unwrap(),
        Rtype::A,
    ))
    .unwrap();
    let mut b = b.additional();
    let tr = ClientTransaction::request(key.clone(), &mut b, now).unwrap();
    (tr, b.finish())
}

/// The server verifies `req` and returns a signed NOERROR answer.
#[allow(dead_code)]
fn signed_answer(key: &Arc<Key>, req: Vec<u8>, now: Time48) -> Vec<u8> {
    let mut req = Message::from_octets(req).unwrap();
    let tr = ServerTransaction::request(key, &mut req, now)
        .expect("request verifies")
        .expect("request is signed");
    let b = MessageBuilder::new_vec();
    let mut b = b.start_answer(&req, Rcode::NOERROR).unwrap();
    b.push((
        Name::<Vec<u8>>::from_str("www.example.com.").unwrap(),
        300,
        A::from_octets(192, 0, 2, 1),
    ))
    .unwrap();
    let mut b = b.additional();
    tr.answer(&mut b, now).unwrap();
    b.finish()
}

/// Offset of the TSIG record (the last additional record) in `msg`.
#[allow(dead_code)]
fn tsig_start(msg: &[u8], key: &Key) -> usize {
    // The TSIG owner is written uncompressed; find its last occurrence.
    let mut name = Vec::new();
    for l in key.name().iter_labels() {
        name.push(l.len() as u8);
        name.extend_from_slice(l.as_slice());
    }
    (0..msg.len() - name.len())
        .rev()
        .find(|&i| msg[i..i + name.len()].eq_ignore_ascii_case(&name))
        .unwrap()
}

use domain::base::iana::TsigRcode;
use domain::tsig::{ClientSequence, ServerSequence};

/// Replaces the MAC of the trailing TSIG record by `new_mac`.
fn with_mac(msg: &[u8], key: &Key, new_mac: &[u8]) -> Vec<u8> {
    let s = tsig_start(msg, key);
    let n = usize::from(key.name().compose_len());
    let r = s + n + 10;
    let macsz = r + 13 + 6 + 2;
    let old = usize::from(u16::from_be_bytes([msg[macsz], msg[macsz + 1]]));
    let mut out = msg[..macsz].to_vec();
    out.extend_from_slice(&(new_mac.len() as u16).to_be_bytes());
    out.extend_from_slice(new_mac);
    out.extend_from_slice(&msg[macsz + 2 + old..]);
    let rdlen = (u16::from_be_bytes([msg[r - 2], msg[r - 1]]) as usize
        + new_mac.len()
        - old) as u16;
    out[r - 2..r].copy_from_slice(&rdlen.to_be_bytes());
    out
}

/// RFC 8945 5.2.2.1: a MAC longer than the algorithm output MUST yield
/// FORMERR. Observed: BADSIG.
#[test]
fn overlong_mac_is_formerr() {
    let key = key();
    let now = Time48::from_u64(1_700_000_000);
    let (_tr, req) = signed_request(&key, 0x1234, now);
    let bad = with_mac(&req, &key, &[0x55; 33]);
    let mut msg = Message::from_octets(bad).unwrap();
    let err = ServerTransaction::request(&key, &mut msg, now).unwrap_err();
    assert_eq!(err.error(), TsigRcode::FORMERR, "got {}", err.error());
}

/// RFC 8945 5.2.2.1: a MAC shorter than max(10, half the output) MUST
/// yield FORMERR (BADTRUNC is for MACs below local policy only).
/// Observed: BADTRUNC.
#[test]
fn too_short_mac_is_formerr() {
    let key = key();
    let now = Time48::from_u64(1_700_000_000);
    let (_tr, req) = signed_request(&key, 0x1234, now);
    let s = tsig_start(&req, &key);
    let n = usize::from(key.name().compose_len());
    let mac = s + n + 10 + 13 + 6 + 2 + 2;
    let bad = with_mac(&req, &key, &req[mac..mac + 5].to_vec());
    let mut msg = Message::from_octets(bad).unwrap();
    let err = ServerTransaction::request(&key, &mut msg, now).unwrap_err();
    assert_eq!(err.error(), TsigRcode::FORMERR, "got {}", err.error());
}

/// RFC 8945 5.2: a TSIG record in any position other than last-in-additional
/// MUST yield FORMERR. A TSIG record in the answer section is not noticed:
/// the request is treated as unsigned (Ok(None)).
#[test]
fn tsig_in_answer_section_is_formerr() {
    let key = key();
    let now = Time48::from_u64(1_700_000_000);
    let (_tr, mut req) = signed_request(&key, 0x1234, now);
    // Move the TSIG record from the additional to the answer section:
    // there is nothing between the question and the TSIG, so only the
    // counts change.
    req[6..8].copy_from_slice(&1u16.to_be_bytes()); // ANCOUNT = 1
    req[10..12].copy_from_slice(&0u16.to_be_bytes()); // ARCOUNT = 0
    let mut msg = Message::from_octets(req).unwrap();
    let res = ServerTransaction::request(&key, &mut msg, now);
    match res {
        Err(err) => assert_eq!(err.error(), TsigRcode::FORMERR),
        Ok(None) => panic!("misplaced TSIG: request treated as unsigned"),
        Ok(Some(_)) => panic!("misplaced TSIG: request accepted as signed"),
    }
}

/// Same on the client side of a sequence: a message whose TSIG sits in the
/// answer section is accepted as a permitted unsigned intermediate message.
#[test]
fn misplaced_tsig_in_sequence_is_rejected() {
    let key = key();
    let now = Time48::from_u64(1_700_000_000);
    // Signed request via ClientSequence.
    let mut b = MessageBuilder::new_vec();
    b.header_mut().set_id(0x1234);
    let mut b = b.question();
    b.push(Question::new_in(
        Name::<Vec<u8>>::from_str("example.com.").unwrap(),
        Rtype::AXFR,
    ))
    .unwrap();
    let mut b = b.additional();
    let mut cs = ClientSequence::request(key.clone(), &mut b, now).unwrap();
    let mut req = Message::from_octets(b.finish()).unwrap();
    let mut ss = ServerSequence::request(&key, &mut req, now)
        .unwrap()
        .unwrap();
    let mk = |ss: &mut ServerSequence<Arc<Key>>| {
        let b = MessageBuilder::new_vec();
        let b = b.start_answer(&req, Rcode::NOERROR).unwrap();
        let mut b = b.additional();
        ss.answer(&mut b, now).unwrap();
        b.finish()
    };
    let first = mk(&mut ss);
    let mut m = Message::from_octets(first).unwrap();
    cs.answer(&mut m, now).expect("first answer verifies");
    // Second message: TSIG moved into the answer section.
    let mut second = mk(&mut ss);
    second[6..8].copy_from_slice(&1u16.to_be_bytes());
    second[10..12].copy_from_slice(&0u16.to_be_bytes());
    let mut m = Message::from_octets(second).unwrap();
    let res = cs.answer(&mut m, now);
    assert!(res.is_err(), "message with misplaced TSIG accepted: {:?}", res);
}
