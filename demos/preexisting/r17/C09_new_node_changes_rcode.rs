// PRE-EXISTING (unmodified library): creating a node in an unpublished
// version changes what readers of older versions get for that name:
// NXDOMAIN before, NOERROR/NODATA afterwards (the node is in the shared
// children map and has no special entry at the reader's version), and this
// stays so even after the writer is dropped without commit.
//
// Place as tests/c09_pre_rcode.rs and run:
//   cargo test --offline --features unstable-zonetree --test c09_pre_rcode
// Observed on the unmodified library: FAILS.
use std::str::FromStr;

use bytes::Bytes;
use domain::base::iana::{Class, Rcode, Rtype};
use domain::base::{Message, MessageBuilder, Name, Serial, Ttl};
use domain::rdata::{A, Cname, Soa, ZoneRecordData};
use domain::zonetree::types::StoredName;
use domain::zonetree::{
    AnswerContent, ReadableZone, Rrset, SharedRr, SharedRrset, Zone,
    ZoneBuilder,
};

#[allow(dead_code)]
fn name(s: &str) -> StoredName {
    Name::from_str(s).unwrap()
}

#[allow(dead_code)]
fn soa_rrset(serial: u32) -> SharedRrset {
    let mut rrset = Rrset::new(Rtype::SOA, Ttl::from_secs(3600));
    rrset.push_data(ZoneRecordData::Soa(Soa::new(
        name("ns.example."),
        name("admin.example."),
        Serial(serial),
        Ttl::from_secs(10),
        Ttl::from_secs(10),
        Ttl::from_secs(10),
        Ttl::from_secs(10),
    )));
    SharedRrset::new(rrset)
}

#[allow(dead_code)]
fn a_rrset(addrs: &[&str]) -> SharedRrset {
    let mut rrset = Rrset::new(Rtype::A, Ttl::from_secs(300));
    for a in addrs {
        rrset.push_data(ZoneRecordData::A(A::from_str(a).unwrap()));
    }
    SharedRrset::new(rrset)
}

#[allow(dead_code)]
fn mk_zone() -> Zone {
    let mut b = ZoneBuilder::new(name("example."), Class::IN);
    b.insert_rrset(&name("example."), soa_rrset(1)).unwrap();
    b.insert_rrset(&name("www.example."), a_rrset(&["192.0.2.1"]))
        .unwrap();
    b.build()
}

/// Returns (rcode, A addresses in the answer) for a query.
#[allow(dead_code)]
fn query_a(r: &dyn ReadableZone, qname: &str) -> (Rcode, Vec<String>) {
    let ans = r.query(name(qname), Rtype::A).unwrap();
    let mut out = Vec::new();
    match ans.content() {
        AnswerContent::Data(rrset) => {
            for d in rrset.data() {
                out.push(format!("{d}"));
            }
        }
        AnswerContent::Cname(rr) => out.push(format!("CNAME {}", rr.data())),
        AnswerContent::NoData => {}
    }
    out.sort();
    (ans.rcode(), out)
}

/// Walks the zone and returns sorted "owner type data" lines.
#[allow(dead_code)]
fn walk(r: &dyn ReadableZone) -> Vec<String> {
    let out = std::sync::Arc::new(std::sync::Mutex::new(Vec::new()));
    let out2 = out.clone();
    r.walk(Box::new(move |owner, rrset, _cut| {
        for d in rrset.data() {
            out2.lock().unwrap().push(format!(
                "{} {} {}",
                owner,
                rrset.rtype(),
                d
            ));
        }
    }));
    let mut v = out.lock().unwrap().clone();
    v.sort();
    v
}

/// Returns the serial of the SOA in the authority section of the answer
/// to a query (None if there is none).
#[allow(dead_code)]
fn authority_soa_serial(
    r: &dyn ReadableZone,
    qname: &str,
    qtype: Rtype,
) -> (Rcode, Option<u32>) {
    let mut q = MessageBuilder::new_vec().question();
    q.push((name(qname), qtype)).unwrap();
    let query: Message<Vec<u8>> = q.into();
    let ans = r.query(name(qname), qtype).unwrap();
    let rcode = ans.rcode();
    let msg: Message<Bytes> =
        ans.to_message(&query, MessageBuilder::new_bytes()).into();
    let serial = msg
        .authority()
        .unwrap()
        .limit_to::<Soa<_>>()
        .next()
        .map(|rec| rec.unwrap().data().serial().into_int());
    (rcode, serial)
}

#[allow(dead_code)]
fn cname_rr(target: &str) -> SharedRr {
    SharedRr::new(
        Ttl::from_secs(300),
        ZoneRecordData::Cname(Cname::new(name(target))),
    )
}

#[tokio::test]
async fn uncommitted_new_node_changes_rcode_for_held_reader() {
    let zone = mk_zone();
    let held = zone.read();
    assert_eq!(query_a(&*held, "new.example.").0, Rcode::NXDOMAIN);

    let w = zone.write().await;
    let root = w.open(false).await.unwrap();
    let n = root.update_child(name("new.").first()).await.unwrap();
    n.update_rrset(a_rrset(&["192.0.2.5"])).await.unwrap();

    assert_eq!(
        query_a(&*held, "new.example.").0,
        Rcode::NXDOMAIN,
        "held reader: rcode changed by an uncommitted write"
    );
    drop(n);
    drop(root);
    drop(w); // abandoned
    assert_eq!(
        query_a(&*zone.read(), "new.example.").0,
        Rcode::NXDOMAIN,
        "new reader: rcode changed by an abandoned write"
    );
}
