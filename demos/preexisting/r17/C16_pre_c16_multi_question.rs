// Pre-existing (unmodified library) C16 violation candidate.
// Place as tests/pre_c16_multi_question.rs and run:
//   cargo test --offline --features unstable-server-transport,unstable-client-transport --test pre_c16_multi_question
//
// A UDP request without EDNS carrying QDCOUNT=3 with three ~250 octet names
// is answered by MandatoryMiddlewareSvc with FORMERR. The error response
// echoes all three questions; truncate() also copies every question, so the
// datagram sent back is larger than 512 octets.
use domain::base::iana::Rcode;
use domain::base::{Message, MessageBuilder, Name, Rtype};
use domain::net::server::message::{Request, UdpTransportContext};
use domain::net::server::middleware::edns::EdnsMiddlewareSvc;
use domain::net::server::middleware::mandatory::MandatoryMiddlewareSvc;
use domain::net::server::service::{CallResult, Service, ServiceResult};
use domain::net::server::util::{mk_builder_for_target, service_fn};
use futures_util::StreamExt;
use tokio::time::Instant;

fn svc_fn(req: Request<Vec<u8>, ()>, _meta: ()) -> ServiceResult<Vec<u8>> {
    let builder = mk_builder_for_target();
    let answer = builder.start_answer(req.message(), Rcode::NOERROR)?;
    Ok(CallResult::new(answer.additional()))
}

#[tokio::test]
async fn formerr_for_many_long_questions_fits_512() {
    let mut query = MessageBuilder::new_vec();
    query.header_mut().set_id(7);
    let mut query = query.question();
    for c in ['a', 'b', 'c'] {
        let label: String = std::iter::repeat(c).take(60).collect();
        let s = format!("{label}.{label}.{label}.{label}");
        let name = Name::<Vec<u8>>::from_chars(s.chars()).unwrap();
        query.push((&name, Rtype::A)).unwrap();
    }
    let message: Message<Vec<u8>> = query.into_message();
    assert!(message.as_slice().len() > 512);
    let req = Request::new(
        "127.0.0.1:12345".parse().unwrap(),
        Instant::now(),
        message,
        UdpTransportContext::new(Some(1232)).into(),
        (),
    );
    let svc = service_fn(svc_fn, ());
    let svc = EdnsMiddlewareSvc::<Vec<u8>, _, ()>::new(svc);
    let svc = MandatoryMiddlewareSvc::<Vec<u8>, _, ()>::new(svc);
    let mut stream = svc.call(req).await;
    let res: CallResult<Vec<u8>> = stream.next().await.unwrap().unwrap();
    let bytes = res.into_inner().0.unwrap().finish().as_dgram_slice().to_vec();
    let m = Message::from_octets(bytes).unwrap();
    assert_eq!(m.header().id(), 7);
    eprintln!(
        "response: {} octets, rcode {}, tc {}, qdcount {}, arcount {}",
        m.as_slice().len(),
        m.header().rcode(),
        m.header().tc(),
        m.header_counts().qdcount(),
        m.header_counts().arcount()
    );
    assert!(
        m.as_slice().len() <= 512,
        "non-EDNS UDP requestor was sent {} octets",
        m.as_slice().len()
    );
}
