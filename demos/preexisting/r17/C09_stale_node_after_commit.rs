// PRE-EXISTING (unmodified library): a WritableZoneNode obtained before a
// commit keeps the version number it was opened with. After commit() that
// number is the *published* version, so writes through the stale handle
// change the current version in place: readers (held and new) see changes
// that were never committed, and dropping the writer does not roll them back.
//
// Place as tests/c09_pre_stale.rs and run:
//   cargo test --offline --features unstable-zonetree --test c09_pre_stale
// Observed on the unmodified library: FAILS.
use std::str::FromStr;

use bytes::Bytes;
use domain::base::iana::{Class, Rcode, Rtype};
use domain::base::{Message, MessageBuilder, Name, Serial, Ttl};
use domain::rdata::{A, Cname, Soa, ZoneRecordData};
use domain::zonetree::types::StoredName;
use domain::zonetree::{
    AnswerContent, ReadableZone, Rrset, SharedRr, SharedRrset, Zone,
    ZoneBuilder,
};

#[allow(dead_code)]
fn name(s: &str) -> StoredName {
    Name::from_str(s).unwrap()
}

#[allow(dead_code)]
fn soa_rrset(serial: u32) -> SharedRrset {
    let mut rrset = Rrset::new(Rtype::SOA, Ttl::from_secs(3600));
    rrset.push_data(ZoneRecordData::Soa(Soa::new(
        name("ns.example."),
        name("admin.example."),
        Serial(serial),
        Ttl::from_secs(10),
        Ttl::from_secs(10),
        Ttl::from_secs(10),
        Ttl::from_secs(10),
    )));
    SharedRrset::new(rrset)
}

#[allow(dead_code)]
fn a_rrset(addrs: &[&str]) -> SharedRrset {
    let mut rrset = Rrset::new(Rtype::A, Ttl::from_secs(300));
    for a in addrs {
        rrset.push_data(ZoneRecordData::A(A::from_str(a).unwrap()));
    }
    SharedRrset::new(rrset)
}

#[allow(dead_code)]
fn mk_zone() -> Zone {
    let mut b = ZoneBuilder::new(name("example."), Class::IN);
    b.insert_rrset(&name("example."), soa_rrset(1)).unwrap();
    b.insert_rrset(&name("www.example."), a_rrset(&["192.0.2.1"]))
        .unwrap();
    b.build()
}

/// Returns (rcode, A addresses in the answer) for a query.
#[allow(dead_code)]
fn query_a(r: &dyn ReadableZone, qname: &str) -> (Rcode, Vec<String>) {
    let ans = r.query(name(qname), Rtype::A).unwrap();
    let mut out = Vec::new();
    match ans.content() {
        AnswerContent::Data(rrset) => {
            for d in rrset.data() {
                out.push(format!("{d}"));
            }
        }
        AnswerContent::Cname(rr) => out.push(format!("CNAME {}", rr.data())),
        AnswerContent::NoData => {}
    }
    out.sort();
    (ans.rcode(), out)
}

/// Walks the zone and returns sorted "owner type data" lines.
#[allow(dead_code)]
fn walk(r: &dyn ReadableZone) -> Vec<String> {
    let out = std::sync::Arc::new(std::sync::Mutex::new(Vec::new()));
    let out2 = out.clone();
    r.walk(Box::new(move |owner, rrset, _cut| {
        for d in rrset.data() {
            out2.lock().unwrap().push(format!(
                "{} {} {}",
                owner,
                rrset.rtype(),
                d
            ));
        }
    }));
    let mut v = out.lock().unwrap().clone();
    v.sort();
    v
}

/// Returns the serial of the SOA in the authority section of the answer
/// to a query (None if there is none).
#[allow(dead_code)]
fn authority_soa_serial(
    r: &dyn ReadableZone,
    qname: &str,
    qtype: Rtype,
) -> (Rcode, Option<u32>) {
    let mut q = MessageBuilder::new_vec().question();
    q.push((name(qname), qtype)).unwrap();
    let query: Message<Vec<u8>> = q.into();
    let ans = r.query(name(qname), qtype).unwrap();
    let rcode = ans.rcode();
    let msg: Message<Bytes> =
        ans.to_message(&query, MessageBuilder::new_bytes()).into();
    let serial = msg
        .authority()
        .unwrap()
        .limit_to::<Soa<_>>()
        .next()
        .map(|rec| rec.unwrap().data().serial().into_int());
    (rcode, serial)
}

#[allow(dead_code)]
fn cname_rr(target: &str) -> SharedRr {
    SharedRr::new(
        Ttl::from_secs(300),
        ZoneRecordData::Cname(Cname::new(name(target))),
    )
}

#[tokio::test]
async fn node_handle_held_across_commit_edits_published_version() {
    let zone = mk_zone();
    let mut w = zone.write().await;
    let root = w.open(false).await.unwrap();
    let www = root.update_child(name("www.").first()).await.unwrap();
    www.update_rrset(a_rrset(&["192.0.2.2"])).await.unwrap();
    w.commit(false).await.unwrap();

    let held = zone.read();
    assert_eq!(
        query_a(&*held, "www.example."),
        (Rcode::NOERROR, vec!["192.0.2.2".to_string()])
    );

    // Not committed.
    www.update_rrset(a_rrset(&["192.0.2.99"])).await.unwrap();

    assert_eq!(
        query_a(&*held, "www.example."),
        (Rcode::NOERROR, vec!["192.0.2.2".to_string()]),
        "held reader sees an uncommitted change"
    );
    drop(www);
    drop(root);
    drop(w);
    assert_eq!(
        query_a(&*zone.read(), "www.example."),
        (Rcode::NOERROR, vec!["192.0.2.2".to_string()]),
        "new reader sees a change that was never committed"
    );
}
