// Pre-existing behaviour of the UNMODIFIED library (borderline finding).
//
// Place in tests/ and run with the default features:
//
//     cargo test --offline -j4 --test c02_case_not_preserved
//
// StaticCompressor and HashCompressor look names up ignoring ASCII case
// (Label's PartialEq/Hash are case-insensitive), TreeCompressor keys its
// tree by the raw label octets. A name that differs from an earlier name
// only in case is therefore replaced by a pointer to the earlier spelling
// by two of the three compressors: the reader reconstructs a name whose
// octets are not the octets that were pushed. The names still compare equal
// as domain names, so this only violates the property if "the same name"
// is read as "the same octets" (the quantifier explicitly lists case
// variants). The three compressors disagree with each other either way.
//
// Observed on the unmodified tree: tree_compressor passes, static_compressor
// and hash_compressor fail with
//   pushed  [[69, 88, 65, 77, 80, 76, 69], [67, 79, 77], []]  ("EXAMPLE.COM.")
//   read    [[101, 120, 97, 109, 112, 108, 101], [99, 111, 109], []]

use domain::base::iana::Rtype;
use domain::base::message_builder::{
    HashCompressor, MessageBuilder, StaticCompressor, TreeCompressor,
};
use domain::base::name::Name;
use domain::base::wire::Composer;
use domain::base::Message;
use domain::rdata::A;

type N = Name<Vec<u8>>;

fn labels(name: &N) -> Vec<Vec<u8>> {
    name.iter().map(|l| l.as_slice().to_vec()).collect()
}

fn run<T: Composer>(target: T) {
    let lower: N = "example.com".parse().unwrap();
    let upper: N = "EXAMPLE.COM".parse().unwrap();
    let mut msg = MessageBuilder::from_target(target)
        .unwrap_or_else(|_| panic!("header"))
        .question();
    msg.push((&lower, Rtype::A)).unwrap();
    let mut msg = msg.answer();
    msg.push((&upper, 60, A::from_octets(192, 0, 2, 1))).unwrap();

    let octets = msg.as_slice().to_vec();
    let msg = Message::from_octets(&octets[..]).unwrap();
    let rr = msg.answer().unwrap().next().unwrap().unwrap();
    let read: Vec<Vec<u8>> =
        rr.owner().iter().map(|l| l.as_slice().to_vec()).collect();
    assert_eq!(rr.owner(), upper); // equal as domain names, always
    assert_eq!(read, labels(&upper), "octets of the owner changed");
}

#[test]
fn tree_compressor() {
    run(TreeCompressor::new(Vec::new()));
}

#[test]
fn static_compressor() {
    run(StaticCompressor::new(Vec::new()));
}

#[test]
fn hash_compressor() {
    run(HashCompressor::new(Vec::new()));
}
