//! Pre-existing violation of property C03 in the UNMODIFIED library,
//! serde part.
//!
//! Place in tests/ and run with
//!   cargo test --offline --features serde --test c03_preexisting_serde
//!
//! The tests assert what the property demands and FAIL on the unmodified
//! library.
#![cfg(feature = "serde")]

use domain::base::name::{Chain, Name, RelativeName, ToLabelIter, ToName};

/// P7: `Chain` derives `Deserialize`, so the length check of `Chain::new`
/// is skipped. A chain of a 250 octet relative name and a 250 octet absolute
/// name deserializes fine and flattens into a 500 octet `Name`.
#[test]
fn p7_chain_deserialize_skips_length_check() {
    let label = "123456789.";
    let left = label.repeat(25);
    let left = left.trim_end_matches('.');
    let right = format!("{}abcdefgh.", label.repeat(24));
    let json = format!(r#"{{"left":"{left}","right":"{right}"}}"#);
    let chain: Result<
        Chain<RelativeName<Vec<u8>>, Name<Vec<u8>>>,
        _,
    > = serde_json::from_str(&json);
    if let Ok(chain) = chain {
        let name: Name<Vec<u8>> = chain.to_name();
        panic!(
            "deserialized a chain of {} octets, to_name() gives a Name of {} octets",
            chain.compose_len(),
            name.len()
        );
    }
}

/// P9 (not a validity problem, but surprising): a human-readable
/// `RelativeName` is deserialized from text with a trailing dot, i.e. from
/// the text of an absolute name, although `RelativeName::from_str` rejects
/// that text.
#[test]
fn p9_relative_name_deserializes_absolute_text() {
    use std::str::FromStr;
    assert!(RelativeName::<Vec<u8>>::from_str("www.example.com.").is_err());
    let res: Result<RelativeName<Vec<u8>>, _> =
        serde_json::from_str(r#""www.example.com.""#);
    assert!(res.is_err(), "deserialized {:?}", res);
}
