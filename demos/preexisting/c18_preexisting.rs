// Pre-existing (UNMODIFIED library) deviations from property C18.
//
// Run with:  cargo test --offline --test c18_preexisting
// (default features are enough).
//
// Every test in this file asserts the behaviour the property demands, so
// every test FAILS on the unmodified library. The observed behaviour is in
// the comment of each test.

use domain::base::scan::{IterScanner, Scanner};
use domain::utils::base64::DecodeError;
use domain::utils::{base16, base32, base64};
use octseq::array::Array;

/// P1: `base64::Decoder::push` does not make an `IllegalChar` error sticky.
///
/// The documentation says "It is okay to push more data after the first
/// error. The method will just keep returned errors." (and base16/base32
/// decoders do behave like that). The base64 decoder forgets the error:
/// later pushes succeed and `finalize` returns `Ok` with the illegal
/// character simply skipped.
#[test]
fn p1_base64_decoder_illegal_char_is_not_sticky() {
    let mut dec = base64::Decoder::<Vec<u8>>::new();
    for ch in "Zm9v".chars() {
        dec.push(ch).unwrap();
    }
    assert_eq!(dec.push('!'), Err(DecodeError::IllegalChar('!')));
    // Observed: Ok(()) for each of these and Ok(b"foobar") at the end.
    let mut later_ok = 0;
    for ch in "YmFy".chars() {
        if dec.push(ch).is_ok() {
            later_ok += 1;
        }
    }
    let res = dec.finalize();
    assert!(
        later_ok == 0 && res.is_err(),
        "text \"Zm9v!YmFy\" pushed char by char: {} later pushes returned \
         Ok, finalize returned {:?}",
        later_ok,
        res
    );
}

/// P1b: same for a misplaced pad character.
#[test]
fn p1b_base64_decoder_misplaced_pad_is_not_sticky() {
    let mut dec = base64::Decoder::<Vec<u8>>::new();
    assert_eq!(dec.push('='), Err(DecodeError::IllegalChar('=')));
    for ch in "Zm9v".chars() {
        let _ = dec.push(ch);
    }
    // Observed: Ok(b"foo") for the text "=Zm9v".
    let res = dec.finalize();
    assert!(res.is_err(), "\"=Zm9v\" finalized to {:?}", res);
}

/// P2: `base64::Decoder::push` does not make a `ShortBuf` error sticky and
/// leaves a partially stored group behind.
#[test]
fn p2_base64_decoder_short_buf_is_not_sticky() {
    let mut dec = base64::Decoder::<Array<2>>::new();
    let mut errs = 0;
    for ch in "Zm9vYmFy".chars() {
        if dec.push(ch).is_err() {
            errs += 1;
        }
    }
    assert!(errs > 0);
    // Observed: Ok([0x66, 0x6f]) -- two of the six octets, reported as
    // success.
    let res = dec.finalize();
    assert!(res.is_err(), "finalize after ShortBuf returned {:?}", res);
}

/// P3: non-canonical trailing bits are accepted (all three decoders that
/// have trailing bits: base64 Decoder/SymbolConverter, base32
/// Decoder/SymbolConverter). Several different texts decode to the same
/// octets, none of them but one is an encoding the library produces.
#[test]
fn p3_non_canonical_trailing_bits() {
    // base64: "Zg==" is the encoding of "f". "Zh==" has the low four bits
    // of the second symbol set.
    let r64: Result<Vec<u8>, _> = base64::decode("Zh==");
    // base64: "Zm8=" is "fo"; "Zm9=" has the low two bits set.
    let r64b: Result<Vec<u8>, _> = base64::decode("Zm9=");
    // base32hex: "CO" is "f"; "CP" has the low two bits set.
    let r32: Result<Vec<u8>, _> = base32::decode_hex("CP");
    // Observed: Ok("f"), Ok("fo"), Ok("f").
    assert!(
        r64.is_err() && r64b.is_err() && r32.is_err(),
        "Zh== -> {:?}, Zm9= -> {:?}, CP -> {:?}",
        r64,
        r64b,
        r32
    );
}

/// P3b: the same through the scanner-side converters.
#[test]
fn p3b_non_canonical_trailing_bits_converters() {
    let r64: Result<Vec<u8>, _> = IterScanner::new(["Zh=="])
        .convert_entry(base64::SymbolConverter::new());
    let r32: Result<Vec<u8>, _> = IterScanner::new(["CP"])
        .convert_token(base32::SymbolConverter::new());
    assert!(
        r64.is_err() && r32.is_err(),
        "Zh== -> {:?}, CP -> {:?}",
        r64,
        r32
    );
}

/// P4: `IterScanner::convert_entry` / `convert_token` silently stop reading
/// a token at a malformed escape sequence (they iterate `Symbols` but never
/// call `Symbols::ok()`), so the rest of the token is dropped and the
/// truncated data is returned as success. (The zonefile scanner rejects the
/// same text with "bad symbol: illegal escape sequence", so the two scanners
/// disagree.)
#[test]
fn p4_iter_scanner_drops_rest_of_token_after_bad_escape() {
    // A lone trailing backslash.
    let a: Result<Vec<u8>, _> = IterScanner::new(["Zm9v\\"])
        .convert_entry(base64::SymbolConverter::new());
    // A short decimal escape in the middle; "YmFy" is lost.
    let b: Result<Vec<u8>, _> = IterScanner::new(["Zm9v\\9YmFy"])
        .convert_entry(base64::SymbolConverter::new());
    // Same with base16 ...
    let c: Result<Vec<u8>, _> = IterScanner::new(["F00F\\25BEEF"])
        .convert_entry(base16::SymbolConverter::new());
    // ... and base32 via convert_token.
    let d: Result<Vec<u8>, _> = IterScanner::new(["CPNMUOJ1\\999E8"])
        .convert_token(base32::SymbolConverter::new());
    // Observed: Ok("foo"), Ok("foo"), Ok([f0, 0f]), Ok("fooba").
    assert!(
        a.is_err() && b.is_err() && c.is_err() && d.is_err(),
        "{:?} {:?} {:?} {:?}",
        a,
        b,
        c,
        d
    );
}

/// P4b: the bad escape also hides everything that follows in the token
/// from the converter, so a later token continues the data as if nothing
/// happened.
#[test]
fn p4b_iter_scanner_bad_escape_then_next_token() {
    let r: Result<Vec<u8>, _> = IterScanner::new(["Zm9v\\9!!!!", "YmFy"])
        .convert_entry(base64::SymbolConverter::new());
    // Observed: Ok("foobar").
    assert!(r.is_err(), "{:?}", r);
}

/// P5: a simple escape is taken as the escaped alphabet character, so text
/// containing backslashes -- which are not part of any of the alphabets --
/// is accepted by all three converters (a decimal escape of the very same
/// character is rejected).
#[test]
fn p5_simple_escapes_are_alphabet_characters() {
    let a: Result<Vec<u8>, _> = IterScanner::new(["\\Z\\g\\=\\="])
        .convert_entry(base64::SymbolConverter::new());
    let b: Result<Vec<u8>, _> = IterScanner::new(["\\F\\A"])
        .convert_entry(base16::SymbolConverter::new());
    let c: Result<Vec<u8>, _> = IterScanner::new(["\\C\\O"])
        .convert_token(base32::SymbolConverter::new());
    // Observed: Ok("f"), Ok([fa]), Ok("f").
    assert!(
        a.is_err() && b.is_err() && c.is_err(),
        "{:?} {:?} {:?}",
        a,
        b,
        c
    );
    // For comparison: decimal escape of 'Z' is rejected.
    let d: Result<Vec<u8>, _> = IterScanner::new(["\\090g=="])
        .convert_entry(base64::SymbolConverter::new());
    assert!(d.is_err());
}

/// P6: base32hex is produced and accepted WITHOUT padding only, i.e. what
/// `display_hex` writes is not the RFC 4648 base32hex encoding and the
/// RFC 4648 test vector "CO======" is rejected. (Documented limitation of
/// the module; listed for completeness.)
#[test]
fn p6_base32hex_padding() {
    assert_eq!(base32::encode_string_hex(b"f"), "CO======");
    let r: Result<Vec<u8>, _> = base32::decode_hex("CO======");
    assert_eq!(r.unwrap(), b"f");
}

/// P7: `base16::Decoder::finalize` reports `ShortInput` instead of the
/// stored `IllegalChar` when the illegal character arrived at an odd
/// position (still an error, only the kind is inconsistent with what
/// `push` reported).
#[test]
fn p7_base16_error_kind() {
    let mut dec = base16::Decoder::<Vec<u8>>::new();
    dec.push('A').unwrap();
    assert_eq!(dec.push('!'), Err(DecodeError::IllegalChar('!')));
    assert_eq!(dec.finalize(), Err(DecodeError::IllegalChar('!')));
}
