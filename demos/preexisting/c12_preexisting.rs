// C12 -- behaviour of the UNMODIFIED library that violates the property.
//
// Place in tests/ (e.g. tests/c12_preexisting.rs) and run from the repository
// root:
//
//   cargo test --offline --features ring,unstable-sign,unstable-validator \
//       --test c12_preexisting
//
// Every test asserts what the property demands; each FAILING test is one
// confirmed violation in the unmodified library (the `control_*` tests pass).
#![cfg(all(
    feature = "ring",
    feature = "unstable-sign",
    feature = "unstable-validator"
))]

use std::cell::RefCell;
use std::str::FromStr;

use bytes::Bytes;
use domain::base::iana::{Class, SecurityAlgorithm};
use domain::base::name::{FlattenInto, Name, ParsedName};
use domain::base::rdata::UnknownRecordData;
use domain::base::{Message, MessageBuilder, Record, Rtype, Ttl};
use domain::crypto::sign::{
    generate, GenerateParams, KeyPair, SignError, SignRaw, Signature,
};
use domain::dnssec::sign::keys::SigningKey;
use domain::dnssec::sign::records::{Rrset, SortedRecords};
use domain::dnssec::sign::signatures::rrsigs::{
    sign_rrset, sign_sorted_zone_records, GenerateRrsigConfig,
};
use domain::dnssec::validator::base::RrsigExt;
use domain::rdata::dnssec::Timestamp;
use domain::rdata::{Dnskey, Rrsig, ZoneRecordData};
use domain::zonefile::inplace::{Entry, Zonefile};

type N = Name<Bytes>;
type ZRec = Record<N, ZoneRecordData<Bytes, N>>;

const INCEPTION: u32 = 1_700_000_000;
const EXPIRATION: u32 = 1_702_000_000;

//------------ helpers -------------------------------------------------------

/// A signing key that remembers the octets it was asked to sign.
#[derive(Debug)]
struct RecordingKey {
    inner: KeyPair,
    signed: RefCell<Vec<u8>>,
}

impl SignRaw for RecordingKey {
    fn algorithm(&self) -> SecurityAlgorithm {
        self.inner.algorithm()
    }
    fn dnskey(&self) -> Dnskey<Vec<u8>> {
        self.inner.dnskey()
    }
    fn sign_raw(&self, data: &[u8]) -> Result<Signature, SignError> {
        *self.signed.borrow_mut() = data.to_vec();
        self.inner.sign_raw(data)
    }
}

fn key() -> SigningKey<Bytes, RecordingKey> {
    let (sk, pk) = generate(&GenerateParams::Ed25519, 256).unwrap();
    let inner = KeyPair::from_bytes(&sk, &pk).unwrap();
    SigningKey::new(
        N::from_str("example.org.").unwrap(),
        256,
        RecordingKey {
            inner,
            signed: RefCell::new(Vec::new()),
        },
    )
}

fn zone(text: &str) -> Vec<ZRec> {
    let mut zf = Zonefile::load(&mut text.as_bytes()).unwrap();
    zf.set_origin(N::from_str("example.org.").unwrap());
    let mut out = Vec::new();
    for entry in zf {
        if let Entry::Record(r) = entry.unwrap() {
            out.push(r.flatten_into());
        }
    }
    out
}

/// Puts the records on the wire (uncompressed or compressed does not matter
/// here) and reads them back the way a resolver/validator does.
fn via_wire(records: &[ZRec]) -> Message<Vec<u8>> {
    let mut b = MessageBuilder::new_vec().answer();
    for r in records {
        b.push(r).unwrap();
    }
    Message::from_octets(b.finish()).unwrap()
}

type PRec<'a> = Record<
    ParsedName<&'a [u8]>,
    ZoneRecordData<&'a [u8], ParsedName<&'a [u8]>>,
>;

fn parsed(msg: &Message<Vec<u8>>) -> Vec<PRec<'_>> {
    msg.answer()
        .unwrap()
        .map(|item| {
            item.unwrap()
                .into_record::<ZoneRecordData<_, ParsedName<_>>>()
                .unwrap()
                .unwrap()
        })
        .collect()
}

fn verify_received(
    rrsig: &Rrsig<Bytes, N>,
    dnskey: &Dnskey<Vec<u8>>,
    records: &[ZRec],
) -> bool {
    let msg = via_wire(records);
    let mut recs = parsed(&msg);
    let mut buf = Vec::new();
    rrsig.signed_data(&mut buf, &mut recs).unwrap();
    rrsig.verify_signed_data(dnskey, &buf).is_ok()
}

fn lower_wire_name(name: &str) -> Vec<u8> {
    let mut out = Vec::new();
    for label in name.trim_end_matches('.').split('.') {
        if label.is_empty() {
            continue;
        }
        out.push(label.len() as u8);
        out.extend_from_slice(label.to_ascii_lowercase().as_bytes());
    }
    out.push(0);
    out
}

fn wire_name(name: &str) -> Vec<u8> {
    let mut out = Vec::new();
    for label in name.trim_end_matches('.').split('.') {
        if label.is_empty() {
            continue;
        }
        out.push(label.len() as u8);
        out.extend_from_slice(label.as_bytes());
    }
    out.push(0);
    out
}

/// RFC 4034 appendix B.
fn key_tag(k: &Dnskey<Vec<u8>>) -> u16 {
    let mut rdata = k.flags().to_be_bytes().to_vec();
    rdata.push(k.protocol());
    rdata.push(k.algorithm().to_int());
    rdata.extend_from_slice(k.public_key());
    let mut ac: u32 = 0;
    for (i, &b) in rdata.iter().enumerate() {
        ac += if i & 1 == 1 { b as u32 } else { (b as u32) << 8 };
    }
    ac += (ac >> 16) & 0xffff;
    (ac & 0xffff) as u16
}

/// Independent RFC 4034 3.1.8.1 construction. `canonical_rdatas` are the
/// RDATAs already in canonical form (RFC 4034 6.2).
fn rfc4034_signed_data(
    k: &Dnskey<Vec<u8>>,
    owner: &str,
    labels: u8,
    rtype: u16,
    ttl: u32,
    canonical_rdatas: &[Vec<u8>],
) -> Vec<u8> {
    let mut out = Vec::new();
    out.extend_from_slice(&rtype.to_be_bytes());
    out.push(k.algorithm().to_int());
    out.push(labels);
    out.extend_from_slice(&ttl.to_be_bytes());
    out.extend_from_slice(&EXPIRATION.to_be_bytes());
    out.extend_from_slice(&INCEPTION.to_be_bytes());
    out.extend_from_slice(&key_tag(k).to_be_bytes());
    out.extend_from_slice(&lower_wire_name("example.org."));
    let mut rds = canonical_rdatas.to_vec();
    rds.sort();
    for rd in rds {
        out.extend_from_slice(&lower_wire_name(owner));
        out.extend_from_slice(&rtype.to_be_bytes());
        out.extend_from_slice(&1u16.to_be_bytes());
        out.extend_from_slice(&ttl.to_be_bytes());
        out.extend_from_slice(&(rd.len() as u16).to_be_bytes());
        out.extend_from_slice(&rd);
    }
    out
}

fn sign_zone_rrset(
    key: &SigningKey<Bytes, RecordingKey>,
    records: Vec<ZRec>,
) -> Rrsig<Bytes, N> {
    // The documented zone signing flow: SortedRecords, then
    // sign_sorted_zone_records().
    let sorted: SortedRecords<N, ZoneRecordData<Bytes, N>> =
        SortedRecords::from(records);
    let apex = N::from_str("example.org.").unwrap();
    let rrsigs = sign_sorted_zone_records(
        &apex,
        sorted.owner_rrs(),
        &[key],
        &GenerateRrsigConfig::new(
            Timestamp::from(INCEPTION),
            Timestamp::from(EXPIRATION),
        ),
    )
    .unwrap();
    assert_eq!(rrsigs.len(), 1);
    rrsigs[0].data().clone()
}

//------------ 1. RFC 4034 6.2 types without a library type ------------------

// RFC 4034 section 6.2 item 3 lists AFSDB, RT, KX and PX (among others) as
// types whose embedded names are lower-cased in the canonical form. The
// library has no type for them; they end up as `ZoneRecordData::Unknown`,
// which is never canonicalised.

fn unknown_rr(rtype: u16, owner: &str, rdata: Vec<u8>) -> ZRec {
    Record::new(
        N::from_str(owner).unwrap(),
        Class::IN,
        Ttl::from_secs(3600),
        ZoneRecordData::Unknown(
            UnknownRecordData::from_octets(
                Rtype::from_int(rtype),
                Bytes::from(rdata),
            )
            .unwrap(),
        ),
    )
}

/// (type, rdata as in the zone, rdata in RFC 4034 canonical form)
fn rfc4034_list_cases() -> Vec<(u16, Vec<u8>, Vec<u8>)> {
    let mk = |names: &[&str], lower: bool| {
        let mut v = vec![0u8, 1];
        for n in names {
            v.extend_from_slice(&if lower {
                lower_wire_name(n)
            } else {
                wire_name(n)
            });
        }
        v
    };
    vec![
        // AFSDB 1 AFSDB1.Example.ORG.
        (18, mk(&["AFSDB1.Example.ORG."], false), mk(&["AFSDB1.Example.ORG."], true)),
        // RT 1 Relay.Example.ORG.
        (21, mk(&["Relay.Example.ORG."], false), mk(&["Relay.Example.ORG."], true)),
        // PX 1 Map822.Example.ORG. MapX400.Example.ORG.
        (
            26,
            mk(&["Map822.Example.ORG.", "MapX400.Example.ORG."], false),
            mk(&["Map822.Example.ORG.", "MapX400.Example.ORG."], true),
        ),
        // KX 1 KX1.Example.ORG.
        (36, mk(&["KX1.Example.ORG."], false), mk(&["KX1.Example.ORG."], true)),
    ]
}

#[test]
fn afsdb_rt_px_kx_signed_octets_follow_rfc4034_6_2() {
    let key = key();
    let mut bad = Vec::new();
    for (rtype, rdata, canonical) in rfc4034_list_cases() {
        let recs = vec![unknown_rr(rtype, "host.example.org.", rdata)];
        let rrset = Rrset::new_from_owned(&recs).unwrap();
        sign_rrset(
            &key,
            &rrset,
            Timestamp::from(INCEPTION),
            Timestamp::from(EXPIRATION),
        )
        .unwrap();
        let expected = rfc4034_signed_data(
            &key.dnskey(),
            "host.example.org.",
            3,
            rtype,
            3600,
            &[canonical],
        );
        if *key.raw_secret_key().signed.borrow() != expected {
            bad.push(rtype);
        }
    }
    assert!(
        bad.is_empty(),
        "signed octets differ from the RFC 4034 construction for types {bad:?}"
    );
}

#[test]
fn afsdb_rt_px_kx_rrsig_verifies_after_rdata_case_change() {
    let key = key();
    let mut bad = Vec::new();
    for (rtype, rdata, canonical) in rfc4034_list_cases() {
        let recs = vec![unknown_rr(rtype, "host.example.org.", rdata)];
        let rrset = Rrset::new_from_owned(&recs).unwrap();
        let rrsig = sign_rrset(
            &key,
            &rrset,
            Timestamp::from(INCEPTION),
            Timestamp::from(EXPIRATION),
        )
        .unwrap();
        // A secondary/resolver that normalised the (case-insensitive) names.
        let received = vec![unknown_rr(rtype, "host.example.org.", canonical)];
        if !verify_received(rrsig.data(), &key.dnskey(), &received) {
            bad.push(rtype);
        }
    }
    assert!(bad.is_empty(), "verification failed for types {bad:?}");
}

//------------ 2. RFC 3597 generic encoding of a known type ------------------

#[test]
fn control_typed_a_rrset_signed_via_zone_flow_verifies() {
    let key = key();
    let recs = zone(
        "www 300 IN A 192.0.2.9\n\
         www 300 IN A 192.0.2.1\n",
    );
    let rrsig = sign_zone_rrset(&key, recs.clone());
    assert!(verify_received(&rrsig, &key.dnskey(), &recs));
}

#[test]
fn rrset_mixing_typed_and_generic_encoding_signs_in_canonical_order() {
    // RFC 3597 section 5 allows writing any RR in the generic `\# len hex`
    // form. Such a record becomes `ZoneRecordData::Unknown(A, ..)`, which
    // `canonical_cmp` cannot order against `ZoneRecordData::A(..)`: the
    // result is `Equal`, so the sort keeps the zone file order.
    let key = key();
    let recs = zone(
        "www 300 IN A 192.0.2.9\n\
         www 300 IN A \\# 4 c0000201\n",
    );
    assert_eq!(recs.len(), 2);
    let rrsig = sign_zone_rrset(&key, recs.clone());

    let expected = rfc4034_signed_data(
        &key.dnskey(),
        "www.example.org.",
        3,
        1,
        300,
        &[vec![192, 0, 2, 9], vec![192, 0, 2, 1]],
    );
    assert_eq!(
        *key.raw_secret_key().signed.borrow(),
        expected,
        "RRs were not signed in canonical order"
    );
    assert!(rrsig.verify_signed_data(&key.dnskey(), &expected).is_ok());
}

#[test]
fn rrset_mixing_typed_and_generic_encoding_verifies_at_a_resolver() {
    let key = key();
    let recs = zone(
        "www 300 IN A 192.0.2.9\n\
         www 300 IN A \\# 4 c0000201\n",
    );
    let rrsig = sign_zone_rrset(&key, recs.clone());
    // The resolver gets both records off the wire as plain A records.
    assert!(
        verify_received(&rrsig, &key.dnskey(), &recs),
        "RRSIG over www.example.org/A does not verify"
    );
}

const GENERIC_MX_ZONE: &str =
    // `\# 20 000a 04 4d41494c 07 4578616d706c65 03 4f5247 00`
    //   = MX 10 MAIL.Example.ORG.
    "@ 300 IN MX \\# 20 000a044d41494c074578616d706c65034f524700\n";

#[test]
fn generic_encoded_mx_is_canonicalised_like_mx() {
    let key = key();
    let recs = zone(GENERIC_MX_ZONE);
    assert_eq!(recs.len(), 1);
    sign_zone_rrset(&key, recs.clone());

    let mut canonical = vec![0u8, 10];
    canonical.extend_from_slice(&lower_wire_name("mail.example.org."));
    let expected = rfc4034_signed_data(
        &key.dnskey(),
        "example.org.",
        2,
        15,
        300,
        &[canonical],
    );
    assert_eq!(
        *key.raw_secret_key().signed.borrow(),
        expected,
        "MX exchange not lower-cased in the signed octets"
    );
}

#[test]
fn generic_encoded_mx_rrsig_verifies_at_a_resolver() {
    let key = key();
    let recs = zone(GENERIC_MX_ZONE);
    let rrsig = sign_zone_rrset(&key, recs.clone());
    // The resolver parses the record off the wire as MX.
    assert!(
        verify_received(&rrsig, &key.dnskey(), &recs),
        "RRSIG over example.org/MX does not verify"
    );
}

//------------ 3. borderline: the key is more than its public key octets -----

#[test]
fn altering_dnskey_flags_or_protocol_makes_verification_fail() {
    // `verify_signed_data` only looks at the algorithm and the public key
    // octets of the DNSKEY. Flipping a bit in the Flags field (e.g. clearing
    // the Zone Key bit, RFC 4034 2.1.1: such a key "MUST NOT be used to
    // verify RRSIGs") or changing the Protocol field (RFC 4034 2.1.2: "MUST
    // be treated as invalid during signature verification" if not 3) goes
    // unnoticed by the primitive.
    let key = key();
    let recs = zone("www 300 IN A 192.0.2.9\n");
    let rrsig = sign_zone_rrset(&key, recs.clone());
    let dnskey = key.dnskey();
    let msg = via_wire(&recs);
    let mut received = parsed(&msg);
    let mut buf = Vec::new();
    rrsig.signed_data(&mut buf, &mut received).unwrap();
    assert!(rrsig.verify_signed_data(&dnskey, &buf).is_ok());

    let mut still_ok = Vec::new();
    for (what, flags, protocol) in [
        ("zone-key bit cleared", dnskey.flags() & !0x0100, 3u8),
        ("SEP bit set", dnskey.flags() | 1, 3),
        ("REVOKE bit set", dnskey.flags() | 0x0080, 3),
        ("protocol 2", dnskey.flags(), 2),
    ] {
        let altered = Dnskey::new(
            flags,
            protocol,
            dnskey.algorithm(),
            dnskey.public_key().clone(),
        )
        .unwrap();
        if rrsig.verify_signed_data(&altered, &buf).is_ok() {
            still_ok.push(what);
        }
    }
    assert!(
        still_ok.is_empty(),
        "verification still succeeds with altered key: {still_ok:?}"
    );
}
