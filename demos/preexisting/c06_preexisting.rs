//! C06 pre-existing violations: each test below FAILS on the UNMODIFIED
//! library (worktree HEAD e15cdb0).  Every test builds a record from valid
//! wire-format data, writes it in presentation format and reads the text
//! back with the zone-file reader; the property says the result must be an
//! equal record.
//!
//! Run (from the repository root, file placed in tests/):
//!   cargo test --offline --features zonefile --test c06_preexisting --no-fail-fast
#![cfg(feature = "zonefile")]
use bytes::Bytes;
use domain::base::iana::{Class, Rtype};
use domain::base::name::{Name, ParsedName};
use domain::base::rdata::ParseRecordData;
use domain::base::zonefile_fmt::{DisplayKind, ZonefileFmt};
use domain::base::{Record, Ttl};
use domain::rdata::ZoneRecordData;
use domain::zonefile::inplace::{Entry, Zonefile};
use octseq::Parser;

type Rec = Record<Name<Bytes>, ZoneRecordData<Bytes, ParsedName<Bytes>>>;

const EX: &[u8] = b"\x07example\x03com\x00";

fn rec(owner: &[u8], rtype: Rtype, rdata: &[u8]) -> Rec {
    let owner = Name::from_octets(Bytes::copy_from_slice(owner)).unwrap();
    let b = Bytes::copy_from_slice(rdata);
    let mut p = Parser::from_ref(&b);
    let data = ZoneRecordData::parse_rdata(rtype, &mut p)
        .expect("valid wire format")
        .unwrap();
    assert_eq!(p.remaining(), 0);
    Record::new(owner, Class::IN, Ttl::from_secs(3600), data)
}

fn wire<N: domain::base::ToName, D: domain::base::rdata::ComposeRecordData>(
    r: &Record<N, D>,
) -> Vec<u8> {
    let mut v = Vec::new();
    r.compose(&mut v).unwrap();
    v
}

/// Writes `r` in all three display kinds and reads it back.
fn roundtrip(r: &Rec) {
    for (kind, name) in [
        (DisplayKind::Simple, "simple"),
        (DisplayKind::Tabbed, "tabbed"),
        (DisplayKind::Multiline, "multiline"),
    ] {
        let text = format!("{}\n", r.display_zonefile(kind));
        let mut zone = Zonefile::new();
        zone.extend_from_slice(text.as_bytes());
        let read = match zone.next_entry() {
            Ok(Some(Entry::Record(read))) => read,
            other => panic!("{name}: {text:?} does not read back: {other:?}"),
        };
        assert_eq!(
            (wire(r), r.ttl(), r.class(), r.rtype()),
            (wire(&read), read.ttl(), read.class(), read.rtype()),
            "{name}: {text:?} reads back as a different record {read:?}"
        );
        assert!(
            matches!(zone.next_entry(), Ok(None)),
            "{name}: {text:?} leaves trailing entries"
        );
    }
}

fn cat(parts: &[&[u8]]) -> Vec<u8> {
    parts.concat()
}

/// Owner name whose first label starts with `$`: written unescaped, the
/// reader (`EntryScanner::_scan_entry`) takes the line for a control entry.
#[test]
fn owner_first_label_starting_with_dollar() {
    roundtrip(&rec(b"\x04$ttl\x07example\x00", Rtype::A, &[192, 0, 2, 1]));
}

/// TXT record data with zero character strings (accepted by `Txt::parse` /
/// `Txt::from_octets`): nothing is written, the reader demands a token.
#[test]
fn txt_without_any_string() {
    roundtrip(&rec(EX, Rtype::TXT, b""));
}

/// NSEC3 with a zero-length next hashed owner (accepted by
/// `OwnerHash::parse`): an empty token is written for the hash.
#[test]
fn nsec3_empty_next_owner_hash() {
    roundtrip(&rec(
        EX,
        Rtype::NSEC3,
        &cat(&[&[1, 0, 0, 10, 2, 0xab, 0xcd], &[0], &[0, 1, 0x40]]),
    ));
}

/// CAA with an empty tag (accepted by `CaaTag::parse`): written as nothing,
/// the reader takes the quoted value for the tag.
#[test]
fn caa_empty_tag() {
    roundtrip(&rec(EX, Rtype::CAA, &cat(&[&[0, 0], b"ca.example.net"])));
}

/// SVCB/HTTPS `no-default-alpn` is written as `nodefaultalpn`
/// (`value::NoDefaultAlpn` Display), a key the reader does not know.
#[test]
fn svcb_no_default_alpn() {
    roundtrip(&rec(
        EX,
        Rtype::HTTPS,
        &cat(&[&[0, 1, 0], &[0, 1, 0, 3, 2], b"h2", &[0, 2, 0, 0]]),
    ));
}

/// SVCB alpn-id containing a comma: written without the RFC 9460 A.1
/// escaping, reads back as two alpn-ids.
#[test]
fn svcb_alpn_id_with_comma() {
    roundtrip(&rec(
        EX,
        Rtype::SVCB,
        &cat(&[&[0, 1, 0], &[0, 1, 0, 4, 3], b"a,b"]),
    ));
}

/// SVCB alpn-id containing a backslash: written raw, the reader drops it.
#[test]
fn svcb_alpn_id_with_backslash() {
    roundtrip(&rec(
        EX,
        Rtype::SVCB,
        &cat(&[&[0, 1, 0], &[0, 1, 0, 4, 3], b"a\\b"]),
    ));
}

/// SVCB dohpath (key 7) value with a space: written raw and unquoted, so
/// the value is split into two tokens.
#[test]
fn svcb_dohpath_with_space() {
    roundtrip(&rec(
        EX,
        Rtype::SVCB,
        &cat(&[&[0, 1, 0], &[0, 7, 0, 10], b"/q{?dns} x"]),
    ));
}

/// SVCB dohpath (key 7) value with a non-ASCII (UTF-8) character: written
/// raw, the reader rejects the symbol.
#[test]
fn svcb_dohpath_non_ascii() {
    roundtrip(&rec(
        EX,
        Rtype::SVCB,
        &cat(&[&[0, 1, 0], &[0, 7, 0, 3], "/\u{e9}".as_bytes()]),
    ));
}

/// SVCB unknown key whose value contains a parenthesis: `Symbol::from_octet`
/// (used for unquoted output) does not escape `(` / `)`, the reader takes
/// them as grouping.
#[test]
fn svcb_unknown_key_value_with_parenthesis() {
    roundtrip(&rec(
        EX,
        Rtype::SVCB,
        &cat(&[&[0, 1, 0], &[0xfd, 0xe8, 0, 3], b"a(b"]),
    ));
}

/// SVCB unknown key whose presentation name contains the digit 9
/// (`key19`): `allowed_key_charset` in `SvcParams::scan` uses half-open
/// ranges that exclude '9' and 'z'.
#[test]
fn svcb_key_with_digit_nine() {
    roundtrip(&rec(
        EX,
        Rtype::SVCB,
        &cat(&[&[0, 1, 0], &[0, 19, 0, 1], b"x"]),
    ));
}

/// Control: the harness itself is sound -- ordinary records round-trip
/// (this test PASSES).
#[test]
fn control_ordinary_records_round_trip() {
    roundtrip(&rec(EX, Rtype::A, &[192, 0, 2, 1]));
    roundtrip(&rec(EX, Rtype::TXT, b"\x03a b\x00\x02\"\\"));
    roundtrip(&rec(
        EX,
        Rtype::HTTPS,
        &cat(&[&[0, 1, 0], &[0, 1, 0, 3, 2], b"h2", &[0, 3, 0, 2, 1, 187]]),
    ));
    roundtrip(&rec(
        EX,
        Rtype::NSEC3,
        &cat(&[&[1, 0, 0, 10, 0], &[2, 0xab, 0xcd], &[0, 1, 0x40]]),
    ));
}

/// The text produced by `display_zonefile` has no trailing line feed; read
/// exactly as written (without appending "\n") *every* record fails with
/// "short buffer": the reader does not accept end-of-input as the end of the
/// last entry (`SourceBuf::_next_symbol` returns `short_buf` at EOF inside a
/// token, `require_line_feed` fails at EOF after a quoted token).
#[test]
fn text_exactly_as_written_without_trailing_line_feed() {
    let r = rec(EX, Rtype::A, &[192, 0, 2, 1]);
    let text = r.display_zonefile(DisplayKind::Simple).to_string();
    let mut zone = Zonefile::from(text.as_str());
    match zone.next_entry() {
        Ok(Some(Entry::Record(read))) => assert_eq!(wire(&r), wire(&read)),
        other => panic!("{text:?} does not read back: {other:?}"),
    }
}
