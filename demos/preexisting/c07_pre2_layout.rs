// PRE-EXISTING violations 2..6 (unmodified library): layout dependence.
//
//   cargo test --offline --features zonefile --test c07_pre2_layout
//
// Each test states the relation the property demands; all of them FAIL on the
// unmodified library (observed results are quoted in the comments).
#![cfg(feature = "zonefile")]

use domain::base::iana::Class;
use domain::base::name::Name;
use domain::zonefile::inplace::{Entry, Zonefile};
use std::str::FromStr;

fn read_with(input: &str, allow_invalid: bool) -> Result<Vec<String>, String> {
    let mut zf = Zonefile::new();
    if allow_invalid {
        zf = zf.allow_invalid();
    }
    zf.extend_from_slice(input.as_bytes());
    zf.set_origin(Name::from_str("example.com.").unwrap());
    zf.set_default_class(Class::IN);
    let mut out = Vec::new();
    loop {
        match zf.next_entry() {
            Ok(Some(Entry::Record(r))) => out.push(format!(
                "{} {} {} {} {}",
                r.owner(),
                r.class(),
                r.ttl().as_secs(),
                r.rtype(),
                r.data()
            )),
            Ok(Some(Entry::Include { path, .. })) => {
                out.push(format!("INCLUDE {path}"))
            }
            Ok(None) => return Ok(out),
            Err(err) => return Err(format!("{err}")),
        }
    }
}

fn read(input: &str) -> Result<Vec<String>, String> {
    read_with(input, false)
}

/// 2. A free-standing `@` in record data is not the origin.
///
/// `EntryScanner::scan_name` has no `@` case (only the owner position has,
/// via `skip_at_token`), so `@` becomes the one-label relative name `\@`.
/// Observed: `www CNAME @` => `www.example.com CNAME @.example.com.`
#[test]
fn at_in_rdata_is_the_origin() {
    assert_eq!(read("www CNAME @\n"), read("www CNAME example.com.\n"));
    assert_eq!(read("@ MX 10 @\n"), read("@ MX 10 example.com.\n"));
    assert_eq!(
        read("$ORIGIN sub.example.com.\n@ NS @\n"),
        read("sub.example.com. NS sub.example.com.\n")
    );
}

/// 3. A line break inside parentheses is not white space for
///    `scan_svcb_octets`.
///
/// `SourceBuf::next_item` sets `has_space` only for blank/tab/CR, not for a
/// line feed skipped inside a parenthesised group; `scan_svcb_octets` glues a
/// quoted token onto the previous one when `!has_space`.
/// Observed: with a blank two parameters (alpn=h2, ipv4hint=1.2.3.4); with
/// the parenthesised line break one parameter `alpn=h2ipv4hint=1.2.3.4`; and
/// `alpn= "h2"` is an error while `( alpn=\n"h2" )` is accepted.
#[test]
fn line_break_in_parens_is_white_space() {
    assert_eq!(
        read("a SVCB 1 . ( alpn=h2\n\"ipv4hint=1.2.3.4\" )\n"),
        read("a SVCB 1 . ( alpn=h2 \"ipv4hint=1.2.3.4\" )\n"),
    );
    assert_eq!(
        read("a SVCB 1 . ( alpn=\n\"h2\" )\n").is_ok(),
        read("a SVCB 1 . ( alpn= \"h2\" )\n").is_ok(),
    );
}

/// 4. Escaped spellings are not accepted where plain/quoted ones are.
///
/// Integer fields go through `Scan for u16` -> `Symbol::into_digit`, which
/// rejects every escape; `scan_string` goes through `Symbol::into_char`, which
/// rejects every decimal escape. Address fields (`scan_ascii_str`) accept
/// both. Observed: `MX \049\048 m` => "expected decimal number",
/// `$INCLUDE a\032b` => "bad symbol".
#[test]
fn escaped_and_plain_tokens_read_the_same() {
    assert_eq!(read("a A \\049\\048.0.0.1\n"), read("a A 10.0.0.1\n")); // ok
    assert_eq!(read("a MX \"10\" m\n"), read("a MX 10 m\n")); // ok
    assert_eq!(read("a MX \\049\\048 m\n"), read("a MX 10 m\n")); // fails
    assert_eq!(read("$INCLUDE a\\032b\n"), read("$INCLUDE \"a b\"\n")); // fails
}

/// 5. With `allow_invalid()` an explicitly stated class is used but not
///    remembered (`scan_owner_record`, arm `(Some(class), Some(last_class))`).
///
/// Observed: third record comes back with class IN, not CH.
#[test]
fn omitted_class_is_the_last_stated_class() {
    let inherited = read_with(
        "a IN A 192.0.2.1\nb CH A 192.0.2.2\nc A 192.0.2.3\n",
        true,
    );
    let explicit = read_with(
        "a IN A 192.0.2.1\nb CH A 192.0.2.2\nc CH A 192.0.2.3\n",
        true,
    );
    assert_eq!(inherited, explicit);
}

/// 6. Smaller ones around the start and the end of a line.
///
/// * The last line of a file is only read if it ends in a line feed
///   (observed: "1:14: short buffer").
/// * A blank between an opening parenthesis at the start of a line and the
///   owner turns the owner into an "indented" record (observed: "missing last
///   owner" / the owner is read as type).
#[test]
fn line_edges() {
    assert_eq!(read("a A 192.0.2.1"), read("a A 192.0.2.1\n"));
    assert_eq!(read("( a A 192.0.2.1 )\n"), read("(a A 192.0.2.1 )\n"));
}
