#![cfg(feature = "zonefile")]
use domain::zonefile::inplace::{Entry, Zonefile};

fn dump(s: &[u8]) -> Vec<String> {
    let mut z = Zonefile::from(s);
    let mut out = Vec::new();
    loop {
        match z.next_entry() {
            Ok(Some(Entry::Record(r))) => out.push(format!(
                "{} {} {} {} {}",
                r.owner(),
                r.class(),
                r.ttl().as_secs(),
                r.rtype(),
                r.data()
            )),
            Ok(Some(Entry::Include { path, origin })) => {
                out.push(format!("INCLUDE {:?} {:?}", &*path, origin.map(|o| o.to_string())))
            }
            Ok(None) => break,
            Err(e) => {
                out.push(format!("ERR {}", e));
                break;
            }
        }
    }
    out
}

#[test]
fn probes() {
    for s in [
        &b"$INCLUDE \"ab\\.c\"\n"[..],
        b"$INCLUDE ab\\.c\n",
        b"$INCLUDE \"abc\"\n",
        b"$INCLUDE \"a\\\"bc\" example.\n",
        b"example. 300 IN TXT \"a\nb\" )\n",
        b"example. 300 IN TXT \"a\nbcd\" )\n",
        b"example. 300 IN TXT ab )\n",
        b"example. 300 IN DS 1 1 1 ABCD",
        b"example. 300 IN DS 1 1 1 ABCD\n",
        b"example. 300 IN TXT abc",
        b"example. 300 IN A 1.2.3.4",
    ] {
        println!("{:?} => {:?}", String::from_utf8_lossy(s), dump(s));
    }
}

#[test]
fn fuzz() {
    let toks: Vec<&[u8]> = vec![
        b"example.", b"a", b"@", b" ", b"\t", b"\n", b"(", b")", b";", b"\"", b"\\", b"\\0", b"\\00", b"\\032", b"\\\"", b".", b"..",
        b"IN", b"CH", b"300", b"A", b"TXT", b"NS", b"MX", b"SOA", b"DS", b"\\#", b"4", b"0", b"1", b"ABCD", b"1.2.3.4", b"$ORIGIN", b"$TTL", b"$INCLUDE",
        b"SVCB", b"alpn=h2", b"key1=", b"AAAA", b"::1", b"NSEC", b"CNAME", b"HINFO", b"TYPE1", b"CLASS1", b"\r", b"\x0c", b"\xc3\xa9", b"\xff", b"=", b"QUJD", b"NSEC3", b"-", b"RRSIG", b"20200101000000", b"DNSKEY", b"256", b"3", b"8", b"CAA", b"issue", b"LOC", b"TLSA", b"SRV", b"NAPTR", b"ZONEMD", b"OPENPGPKEY", b"CDS", b"HTTPS", b"port=53", b"ipv4hint=1.2.3.4", b"mandatory=alpn", b"ech=QUJD", b"no-default-alpn", b",",
    ];
    let mut seed: u64 = 0x1234_5678_9abc_def1;
    let mut next = move || {
        seed ^= seed << 13;
        seed ^= seed >> 7;
        seed ^= seed << 17;
        seed
    };
    for i in 0..300_000u32 {
        let n = (next() % 14) as usize + 1;
        let mut s = Vec::new();
        for _ in 0..n {
            s.extend_from_slice(toks[(next() % toks.len() as u64) as usize]);
            if next() % 3 == 0 {
                s.push(b' ');
            }
        }
        if next() % 2 == 0 {
            s.push(b'\n');
        }
        let s2 = s.clone();
        let r = std::panic::catch_unwind(move || {
            let mut z = Zonefile::from(&s2[..]);
            z.set_origin("origin.".parse().unwrap());
            let mut cnt = 0;
            while let Ok(Some(_)) = z.next_entry() {
                cnt += 1;
                if cnt > 100 {
                    panic!("too many entries");
                }
            }
        });
        if r.is_err() {
            println!("PANIC #{} on {:?}", i, String::from_utf8_lossy(&s));
        }
    }
}

fn esc_all(tok: &str) -> String {
    tok.bytes().map(|b| format!("\\{:03}", b)).collect()
}

#[test]
fn meta() {
    let recs: Vec<(&str, Vec<&str>)> = vec![
        ("A", vec!["1.2.3.4"]),
        ("AAAA", vec!["2001:db8::1"]),
        ("MX", vec!["10", "mail.example."]),
        ("NS", vec!["ns1"]),
        ("TXT", vec!["hello", "world"]),
        ("SOA", vec!["ns.example.", "admin.example.", "1", "2", "3", "4", "5"]),
        ("DS", vec!["12345", "8", "2", "ABCDEF01"]),
        ("DNSKEY", vec!["256", "3", "8", "QUJDRA=="]),
        ("SRV", vec!["1", "2", "3", "target.example."]),
        ("CAA", vec!["0", "issue", "ca.example"]),
        ("HINFO", vec!["cpu", "os"]),
        ("NSEC", vec!["next.example.", "A", "MX", "TYPE1234"]),
        ("NSEC3", vec!["1", "0", "10", "ABCD", "2T7B4G4VSA5SMI47K61MV5BV1A22BOJR", "A", "RRSIG"]),
        ("NSEC3PARAM", vec!["1", "0", "10", "-"]),
        ("TLSA", vec!["3", "1", "1", "ABCDEF"]),
        ("SVCB", vec!["1", "svc.example.", "alpn=h2", "port=53"]),
        ("HTTPS", vec!["1", ".", "alpn=h2,h3"]),
        ("NAPTR", vec!["100", "10", "u", "sip+E2U", "!^.*$!sip:info@example.com!", "."]),
        ("RRSIG", vec!["A", "8", "2", "3600", "20200101000000", "20190101000000", "12345", "example.", "QUJDRA=="]),
        ("TYPE999", vec!["\\#", "3", "ABCDEF"]),
        ("CNAME", vec!["@"]),
        ("ZONEMD", vec!["2018031500", "1", "1", "ABCDEF"]),
        ("CDS", vec!["0", "0", "0", "00"]),
        ("LOC", vec!["52", "22", "23.000", "N", "4", "53", "32.000", "E", "-2.00m", "0.00m", "10000m", "10m"]),
        ("SSHFP", vec!["1", "1", "ABCDEF"]),
        ("OPENPGPKEY", vec!["QUJDRA=="]),
    ];
    for (rt, toks) in recs {
        let base = format!("$ORIGIN example.\nhost 300 IN {} {}\n", rt, toks.join(" "));
        let want = dump(base.as_bytes());
        let mut variants: Vec<(String, String)> = Vec::new();
        for i in 0..toks.len() {
            let mut q: Vec<String> = toks.iter().map(|s| s.to_string()).collect();
            q[i] = format!("\"{}\"", toks[i]);
            variants.push((format!("quote{}", i), format!("$ORIGIN example.\nhost 300 IN {} {}\n", rt, q.join(" "))));
            let mut e: Vec<String> = toks.iter().map(|s| s.to_string()).collect();
            if !toks[i].contains('\\') {
                e[i] = esc_all(toks[i]);
                variants.push((format!("esc{}", i), format!("$ORIGIN example.\nhost 300 IN {} {}\n", rt, e.join(" "))));
                let mut e2: Vec<String> = toks.iter().map(|s| s.to_string()).collect();
                let t = toks[i];
                e2[i] = format!("{}\\{}", &t[..t.len()-1], &t[t.len()-1..]);
                if !t.as_bytes()[t.len()-1].is_ascii_digit() {
                    variants.push((format!("esclast{}", i), format!("$ORIGIN example.\nhost 300 IN {} {}\n", rt, e2.join(" "))));
                }
            }
        }
        variants.push(("parens".into(), format!("$ORIGIN example.\nhost 300 IN {} (\n{}\n)\n", rt, toks.join(" ; c\n\t"))));
        variants.push(("parens2".into(), format!("$ORIGIN example.\nhost 300 IN {} ({})\n", rt, toks.join(")\n("))));
        variants.push(("tabs".into(), format!("$ORIGIN example.\nhost\t300\tIN\t{}\t{}\t\r\n", rt, toks.join("\t \t"))));
        variants.push(("inherit".into(), format!("$ORIGIN example.\n$TTL 300\nhost.example. IN {} {}\n", rt, toks.join(" "))));
        for (name, v) in variants {
            let got = std::panic::catch_unwind(|| dump(v.as_bytes()));
            match got {
                Ok(got) => if got != want { println!("DIFF {} {}: {:?}\n   want {:?}\n   got  {:?}", rt, name, v, want, got); }
                Err(_) => println!("PANIC {} {}: {:?}", rt, name, v),
            }
        }
    }
}
