// Pre-existing violations of property C03 in the UNMODIFIED library.
// Run: cp pre_c03.rs <repo>/tests/ && cargo test --offline --test pre_c03
use domain::base::name::{
    Name, NameBuilder, RelativeName, ToLabelIter, ToName, ToRelativeName, UncertainName,
};
use std::str::FromStr;

fn rel(len_labels: &[usize]) -> Vec<u8> {
    let mut v = Vec::new();
    for &l in len_labels {
        v.push(l as u8);
        v.extend(std::iter::repeat(b'a').take(l));
    }
    v
}

/// NameBuilder::append_slice / append_label starting a NEW label checks
/// `len + slice.len() > 254` and forgets the length octet: 255-octet relative
/// name, 256-octet absolute name.
#[test]
fn builder_new_label_forgets_length_octet() {
    let mut b = NameBuilder::new_vec();
    for _ in 0..3 {
        b.append_label(&[b'a'; 63]).unwrap();
    }
    assert_eq!(b.len(), 192);
    let r = b.append_label(&[b'b'; 62]);
    if r.is_ok() {
        let len = b.len();
        let name = b.into_name().unwrap();
        panic!("relative len {} accepted, absolute len {}", len, name.len());
    }
}

/// UncertainName::from_octets accepts a 255-octet relative name.
#[test]
fn uncertain_from_octets_255_relative() {
    let v = rel(&[63, 63, 63, 62]);
    assert_eq!(v.len(), 255);
    assert!(RelativeName::from_octets(v.clone()).is_err());
    let u = UncertainName::from_octets(v);
    assert!(u.is_err(), "255-octet relative name accepted: into_absolute gives {:?}",
        u.unwrap().into_absolute().map(|n| n.len()));
}

/// Chain of two relative names may total 255 octets.
#[test]
fn chain_relative_255() {
    let l = RelativeName::from_octets(rel(&[63, 63, 63])).unwrap();
    let r = RelativeName::from_octets(rel(&[62])).unwrap();
    match l.chain(r) {
        Ok(c) => {
            let flat: RelativeName<Vec<u8>> = c.to_relative_name();
            panic!("relative chain of {} octets accepted", flat.len());
        }
        Err(_) => {}
    }
}

/// Display of an absolute UncertainName root is ".." and does not parse back.
#[test]
fn uncertain_root_display_round_trip() {
    let u = UncertainName::<Vec<u8>>::root();
    let s = u.to_string();
    let back = UncertainName::<Vec<u8>>::from_str(&s);
    assert!(back.is_ok(), "display {:?} does not parse back", s);
    assert_eq!(back.unwrap(), u);
}

/// append_dec_u8_label fails half way and leaves part of the number as a
/// label under construction.
#[test]
fn dec_label_partial_on_error() {
    let mut b = NameBuilder::new_vec();
    for _ in 0..3 {
        b.append_label(&[b'a'; 63]).unwrap();
    }
    b.append_label(&[b'a'; 58]).unwrap();
    assert_eq!(b.len(), 251);
    let before = b.as_slice().to_vec();
    assert!(b.append_dec_u8_label(255).is_err());
    assert_eq!(b.as_slice(), &before[..], "failed append left octets behind");
}
