// Pre-existing behaviour of the UNMODIFIED library (candidate violation of
// "quoted versus escaped tokens ... produce the same sequence of records").
//
// Place as tests/c07_pre_escaped_digits.rs and run:
//   cargo test --offline --features zonefile --test c07_pre_escaped_digits
//
// The TTL / class / type tokens of a record are read with scan_ascii_str,
// which decodes escapes, so `\051\048\048 \073N M\088` reads as `300 IN MX`.
// Integer, hex and base64 fields in the record data (and the $TTL value) are
// read through Symbol::into_digit / the base converters, which reject every
// escaped symbol, so the same escaped spelling there is an error.
// This test asserts the layout-independent expectation and FAILS on the
// unmodified library.
#![cfg(feature = "zonefile")]
use domain::zonefile::inplace::{Entry, Zonefile};

fn dump(s: &str) -> Vec<String> {
    let mut z = Zonefile::from(s);
    let mut out = Vec::new();
    loop {
        match z.next_entry() {
            Ok(Some(Entry::Record(r))) => out.push(format!(
                "{} {} {} {} {}",
                r.owner(), r.class(), r.ttl().as_secs(), r.rtype(), r.data()
            )),
            Ok(Some(_)) => out.push("include".into()),
            Ok(None) => break,
            Err(e) => { out.push(format!("ERR {}", e)); break }
        }
    }
    out
}

#[test]
fn escaped_ttl_class_type_are_accepted() {
    // passes: header tokens decode escapes
    assert_eq!(
        dump("host.example. \\051\\048\\048 \\073N M\\088 10 mail.example.\n"),
        dump("host.example. 300 IN MX 10 mail.example.\n"),
    );
}

#[test]
fn escaped_rdata_integer_reads_like_plain() {
    // fails on the unmodified library: "2:.. expected decimal number"
    assert_eq!(
        dump("host.example. 300 IN MX \\049\\048 mail.example.\n"),
        dump("host.example. 300 IN MX 10 mail.example.\n"),
    );
}

#[test]
fn escaped_dollar_ttl_value_reads_like_plain() {
    // fails on the unmodified library
    assert_eq!(
        dump("$TTL \\051\\048\\048\nhost.example. IN A 192.0.2.1\n"),
        dump("$TTL 300\nhost.example. IN A 192.0.2.1\n"),
    );
}

#[test]
fn escaped_hex_reads_like_plain() {
    // fails on the unmodified library: "expected hex digits"
    assert_eq!(
        dump("host.example. 300 IN DS 1 8 2 \\065BCD\n"),
        dump("host.example. 300 IN DS 1 8 2 ABCD\n"),
    );
}
