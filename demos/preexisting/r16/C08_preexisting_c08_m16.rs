#![cfg(feature = "unstable-zonetree")]
#![allow(dead_code, unused_imports)]
// Candidate pre-existing violations of property C08 in the UNMODIFIED
// library (round m16). Place in tests/ and run
//
//   RUST_BACKTRACE=0 cargo test --offline --features unstable-zonetree --test preexisting_c08_m16
//
// Each test states what the property demands and FAILS on the unmodified
// library when the violation is present.
use core::str::FromStr;

use bytes::Bytes;
use domain::base::iana::{Class, Rtype};
use domain::base::{Message, MessageBuilder, Name, ParsedName, Serial, Ttl};
use domain::rdata::{A, Cname, Ds, Ns, Soa, Txt, ZoneRecordData};
use domain::zonetree::types::ZoneUpdate;
use domain::zonetree::update::ZoneUpdater;
use domain::zonetree::{
    Rrset, SharedRrset, StoredName, StoredRecord, Zone, ZoneBuilder, parsed,
};

fn n(s: &str) -> StoredName {
    Name::from_str(s).unwrap()
}

fn rec(owner: &str, ttl: u32, data: ZoneRecordData<Bytes, StoredName>) -> StoredRecord {
    StoredRecord::new(n(owner), Class::IN, Ttl::from_secs(ttl), data)
}

fn a(owner: &str, ip: &str) -> StoredRecord {
    rec(owner, 300, ZoneRecordData::A(A::from_str(ip).unwrap()))
}

fn txt(owner: &str, t: &str) -> StoredRecord {
    rec(
        owner,
        300,
        ZoneRecordData::Txt(Txt::build_from_slice(t.as_bytes()).unwrap()),
    )
}

fn cname(owner: &str, target: &str) -> StoredRecord {
    rec(owner, 300, ZoneRecordData::Cname(Cname::new(n(target))))
}

fn ns(owner: &str, target: &str) -> StoredRecord {
    rec(owner, 300, ZoneRecordData::Ns(Ns::new(n(target))))
}

fn ds(owner: &str, tag: u16) -> StoredRecord {
    rec(
        owner,
        300,
        ZoneRecordData::Ds(
            Ds::new(
                tag,
                domain::base::iana::SecurityAlgorithm::ED25519,
                domain::base::iana::DigestAlgorithm::SHA256,
                Bytes::from_static(&[1, 2, 3, 4]),
            )
            .unwrap(),
        ),
    )
}

fn soa(serial: u32) -> StoredRecord {
    rec(
        "example.",
        3600,
        ZoneRecordData::Soa(Soa::new(
            n("ns.example."),
            n("admin.example."),
            Serial(serial),
            Ttl::from_secs(10),
            Ttl::from_secs(10),
            Ttl::from_secs(10),
            Ttl::from_secs(60),
        )),
    )
}

/// Build directly from the records.
fn fresh(records: &[StoredRecord]) -> Zone {
    let mut zf = parsed::Zonefile::new(n("example."), Class::IN);
    for r in records {
        zf.insert(r.clone()).unwrap();
    }
    Zone::from(ZoneBuilder::try_from(zf).map_err(|_| "builder").unwrap())
}

fn empty() -> Zone {
    ZoneBuilder::new(n("example."), Class::IN).build()
}

/// Canonical text rendering of an answer.
fn ask(zone: &Zone, qname: &str, qtype: Rtype) -> String {
    let qname = n(qname);
    let mut q = MessageBuilder::new_vec().question();
    q.push((qname.clone(), qtype)).unwrap();
    let req: Message<Vec<u8>> = q.into();
    let answer = zone.read().query(qname, qtype).unwrap();
    let msg: Message<Bytes> = answer
        .to_message(&req, MessageBuilder::new_bytes())
        .into_message();
    let mut out = format!(
        "{} aa={}",
        msg.header().rcode(),
        msg.header().aa()
    );
    let sections = [
        ("AN", msg.answer().unwrap()),
        ("AU", msg.authority().unwrap()),
        ("AD", msg.additional().unwrap()),
    ];
    for (tag, sec) in sections {
        let mut lines = Vec::new();
        for r in sec.limit_to::<ZoneRecordData<_, ParsedName<_>>>() {
            let r = r.unwrap();
            lines.push(format!(
                "{} {} {} {}",
                r.owner(),
                r.ttl().as_secs(),
                r.rtype(),
                r.data()
            ));
        }
        lines.sort();
        out.push_str(&format!(" | {tag}: {}", lines.join("; ")));
    }
    out
}

type Upd = ZoneUpdate<StoredRecord>;

async fn apply(zone: &Zone, ups: Vec<Upd>) {
    let mut u = ZoneUpdater::<StoredName>::new(zone.clone()).await.unwrap();
    for up in ups {
        u.apply(up).await.unwrap();
    }
}

fn rrset_of(recs: &[StoredRecord]) -> SharedRrset {
    let mut rr = Rrset::new(recs[0].rtype(), recs[0].ttl());
    for r in recs {
        rr.push_data(r.data().clone());
    }
    rr.into_shared()
}

fn label(s: &str) -> domain::base::name::OwnedLabel {
    domain::base::name::OwnedLabel::from_str(s).unwrap()
}

fn assert_same(got: &Zone, want: &Zone, queries: &[(&str, Rtype)]) {
    for (q, t) in queries {
        assert_eq!(
            ask(got, q, *t),
            ask(want, q, *t),
            "{q} {t}: the zone with the update history (left) does not \
             answer like the zone built from the same records (right)"
        );
    }
}

// Q1: an RRset is a set (RFC 2181 section 5). A zone built through
// parsed::Zonefile from records that contain the same record twice answers
// with the record twice; the same records fed through the ZoneUpdater give it
// once: the answer depends on the way the content was loaded.
#[tokio::test]
async fn q1_duplicate_record_in_zonefile_is_answered_twice() {
    let records = [soa(1), a("d.example.", "1.1.1.1"), a("d.example.", "1.1.1.1")];
    let built = fresh(&records);
    let updated = empty();
    apply(
        &updated,
        vec![
            Upd::AddRecord(a("d.example.", "1.1.1.1")),
            Upd::AddRecord(a("d.example.", "1.1.1.1")),
            Upd::Finished(soa(1)),
        ],
    )
    .await;
    let want = "NOERROR aa=true | AN: d.example 300 A 1.1.1.1 | AU:  | AD: ";
    assert_eq!(ask(&updated, "d.example.", Rtype::A), want, "updater");
    assert_eq!(ask(&built, "d.example.", Rtype::A), want, "zonefile/builder");
}

// Q2: the glue records of a referral are created with class IN whatever the
// class of the zone is.
#[test]
fn q2_glue_class_in_non_in_zone() {
    let mk = |owner: &str, data| {
        StoredRecord::new(n(owner), Class::CH, Ttl::from_secs(300), data)
    };
    let mut zf = parsed::Zonefile::new(n("example."), Class::CH);
    zf.insert(mk("example.", soa(1).data().clone())).unwrap();
    zf.insert(mk("sub.example.", ZoneRecordData::Ns(Ns::new(n("ns.sub.example.")))))
        .unwrap();
    zf.insert(mk("ns.sub.example.", ZoneRecordData::A(A::from_str("10.0.0.1").unwrap())))
        .unwrap();
    let zone = Zone::from(ZoneBuilder::try_from(zf).map_err(|_| "builder").unwrap());

    let qname = n("host.sub.example.");
    let mut q = MessageBuilder::new_vec().question();
    q.push((qname.clone(), Rtype::A, Class::CH)).unwrap();
    let req: Message<Vec<u8>> = q.into();
    let answer = zone.read().query(qname, Rtype::A).unwrap();
    let msg: Message<Bytes> =
        answer.to_message(&req, MessageBuilder::new_bytes()).into_message();
    for r in msg.authority().unwrap() {
        assert_eq!(r.unwrap().class(), Class::CH, "authority");
    }
    let mut seen = 0;
    for r in msg.additional().unwrap() {
        seen += 1;
        assert_eq!(r.unwrap().class(), Class::CH, "additional (glue)");
    }
    assert_eq!(seen, 1);
}

// Q3: names compare case-insensitively below the apex, too.
#[test]
fn q3_case_insensitive_labels_below_apex() {
    let zone = fresh(&[soa(1), a("www.example.", "1.1.1.1"), a("*.wild.example.", "2.2.2.2")]);
    assert_eq!(
        ask(&zone, "WWW.example.", Rtype::A),
        "NOERROR aa=true | AN: WWW.example 300 A 1.1.1.1 | AU:  | AD: "
    );
    assert_eq!(
        ask(&zone, "x.WILD.example.", Rtype::A),
        "NOERROR aa=true | AN: x.WILD.example 300 A 2.2.2.2 | AU:  | AD: "
    );
}

// Q4: a delegation's NS target whose address lives below ANOTHER delegation
// of the same zone (sibling glue, RFC 9471 2.2) and a glue address that is
// only present as an occluded record.
#[test]
fn q4_sibling_glue_below_other_cut() {
    let zone = fresh(&[
        soa(1),
        ns("one.example.", "ns.two.example."),
        ns("two.example.", "ns.two.example."),
        a("ns.two.example.", "10.0.0.2"),
    ]);
    let got = ask(&zone, "host.one.example.", Rtype::A);
    assert_eq!(
        got,
        "NOERROR aa=false | AN:  | AU: one.example 300 NS ns.two.example. | AD: ns.two.example 300 A 10.0.0.2"
    );
}
