#![cfg(feature = "unstable-new")]
// Scratch tests for behaviour of the UNMODIFIED library that already violates
// property C19.  Every test in this file FAILS on the unmodified worktree
// HEAD; each failure is one confirmed pre-existing violation.
//
// Place in tests/ and run:
//   cargo test --offline --features unstable-new --test scratch_c19 -- --nocapture --test-threads=1
use domain::base::{Message as OldMessage, ParsedName};
use domain::new::base::build::{BuildInMessage, MessageBuilder, NameCompressor};
use domain::new::base::name::{Name, NameBuf, RevNameBuf};
use domain::new::base::parse::{ParseMessageBytes, SplitMessageBytes};
use domain::new::base::wire::{AsBytes, U16};
use domain::new::base::{
    HeaderFlags, QClass, QType, Question, RClass, RType, Record, TTL,
};
use domain::new::rdata::{A, RecordData};

fn old_names(bytes: &[u8]) -> Vec<String> {
    let msg = OldMessage::from_octets(bytes).unwrap();
    let mut res = Vec::new();
    for q in msg.question() {
        res.push(format!("{}", q.unwrap().qname()));
    }
    res
}

#[test]
fn parent_offset() {
    let mut buffer = [0u8; 512];
    let mut compressor = NameCompressor::default();
    let mut builder = MessageBuilder::new(
        &mut buffer,
        &mut compressor,
        U16::new(1),
        HeaderFlags::default(),
    );
    let names = [
        "example.org.",
        "www.example.org.",
        "www.foo.org.",
        "a.foo.example.org.",
    ];
    for n in names {
        let nb: NameBuf = n.parse().unwrap();
        let q = Question::<&Name> {
            qname: &*nb,
            qtype: QType::A,
            qclass: QClass::IN,
        };
        builder.push_question(&q).unwrap();
    }
    let msg = builder.finish();
    let bytes = msg.as_bytes().to_vec();
    println!("{:?}", bytes);
    let got = old_names(&bytes);
    println!("{:?}", got);
    let want: Vec<String> =
        names.iter().map(|s| s.trim_end_matches('.').to_string()).collect();
    assert_eq!(got, want);
}

#[test]
fn parent_offset_rev() {
    let mut buffer = [0u8; 512];
    let mut compressor = NameCompressor::default();
    let mut builder = MessageBuilder::new(
        &mut buffer,
        &mut compressor,
        U16::new(1),
        HeaderFlags::default(),
    );
    let names = [
        "example.org.",
        "www.example.org.",
        "www.foo.org.",
        "a.foo.example.org.",
    ];
    for n in names {
        let q = Question::<RevNameBuf> {
            qname: n.parse().unwrap(),
            qtype: QType::A,
            qclass: QClass::IN,
        };
        builder.push_question(&q).unwrap();
    }
    let msg = builder.finish();
    let bytes = msg.as_bytes().to_vec();
    let got = old_names(&bytes);
    println!("{:?}", got);
    let want: Vec<String> =
        names.iter().map(|s| s.trim_end_matches('.').to_string()).collect();
    assert_eq!(got, want);
}

#[test]
fn failed_push_stale_entry() {
    let mut buffer = [0u8; 12 + 60];
    let mut compressor = NameCompressor::default();
    let mut builder = MessageBuilder::new(
        &mut buffer,
        &mut compressor,
        U16::new(1),
        HeaderFlags::default(),
    );
    let nz: NameBuf = "zz.".parse().unwrap();
    builder
        .push_question(&Question::<&Name> {
            qname: &*nz,
            qtype: QType::A,
            qclass: QClass::IN,
        })
        .unwrap();
    // too large: name fits, the rest does not
    let n0: NameBuf = "a.bc.".parse().unwrap();
    let big = Record::<&Name, _> {
        rname: &*n0,
        rtype: RType::from(999),
        rclass: RClass::IN,
        ttl: TTL::from(1),
        rdata: [0u8; 64],
    };
    assert!(builder.push_answer(&big).is_err());
    let n1: NameBuf = "a.bc.de.".parse().unwrap();
    let q1 = Question::<&Name> {
        qname: &*n1,
        qtype: QType::A,
        qclass: QClass::IN,
    };
    // header counts: answers still zero, so a question is fine
    builder.push_question(&q1).unwrap();
    let n2: NameBuf = "x.bc.".parse().unwrap();
    let q2 = Question::<&Name> {
        qname: &*n2,
        qtype: QType::A,
        qclass: QClass::IN,
    };
    builder.push_question(&q2).unwrap();
    let msg = builder.finish();
    let bytes = msg.as_bytes().to_vec();
    println!("{:?}", bytes);
    let got = old_names(&bytes);
    assert_eq!(got, vec!["zz".to_string(), "a.bc.de".to_string(), "x.bc".to_string()]);
}

#[test]
fn header_pointer() {
    // id 0, one question whose name is a pointer to offset 0 (id hi = 0 -> root)
    let bytes = [
        0u8, 0, 0, 0, 0, 1, 0, 0, 0, 0, 0, 0, 0xC0, 0x00, 0, 1, 0, 1,
    ];
    let old = OldMessage::from_octets(&bytes[..]).unwrap();
    let oq = old.question().next().unwrap();
    println!("old: {:?}", oq.as_ref().map(|q| format!("{}", q.qname())));
    let new = Question::<NameBuf>::parse_message_bytes(&bytes[12..], 0);
    println!("new: {:?}", new);
    assert_eq!(oq.is_ok(), new.is_ok());
}

#[test]
fn srv_compressed_target() {
    // question example.org SRV, answer with target compressed.
    let mut bytes = vec![0u8, 1, 0x80, 0, 0, 1, 0, 1, 0, 0, 0, 0];
    bytes.extend_from_slice(b"\x07example\x03org\x00\x00\x21\x00\x01");
    bytes.extend_from_slice(b"\xC0\x0C\x00\x21\x00\x01\x00\x00\x00\x10\x00\x08\x00\x01\x00\x02\x00\x35\xC0\x0C");
    let old = OldMessage::from_octets(&bytes[..]).unwrap();
    let ans = old.answer().unwrap().next().unwrap().unwrap();
    let rec = ans
        .into_record::<domain::rdata::AllRecordData<_, ParsedName<_>>>();
    println!("old: {:?}", rec);
    let q = Question::<NameBuf>::split_message_bytes(&bytes[12..], 0).unwrap();
    let new = Record::<NameBuf, RecordData<'_, NameBuf>>::split_message_bytes(
        &bytes[12..],
        q.1,
    );
    println!("new: {:?}", new);
    assert_eq!(rec.is_ok(), new.is_ok());
    let _ = A { octets: [0; 4] };
    let _: Option<&dyn BuildInMessage> = None;
}

#[test]
fn truncate_then_push_again() {
    // The usual truncation flow: drop everything, re-add the question.
    let mut buffer = [0u8; 512];
    let mut compressor = NameCompressor::default();
    let mut builder = MessageBuilder::new(
        &mut buffer,
        &mut compressor,
        U16::new(1),
        HeaderFlags::default(),
    );
    let filler: NameBuf = "filler.net.".parse().unwrap();
    let qn: NameBuf = "www.example.org.".parse().unwrap();
    for n in [&filler, &qn] {
        builder
            .push_question(&Question::<&Name> {
                qname: &**n,
                qtype: QType::A,
                qclass: QClass::IN,
            })
            .unwrap();
    }
    builder.truncate();
    builder
        .push_question(&Question::<&Name> {
            qname: &*qn,
            qtype: QType::A,
            qclass: QClass::IN,
        })
        .unwrap();
    let bytes = builder.finish().as_bytes().to_vec();
    assert_eq!(old_names(&bytes), vec!["www.example.org".to_string()]);
}

#[test]
fn compressor_reused_for_second_message() {
    let mut compressor = NameCompressor::default();
    let n1: NameBuf = "aaaaaaaa.example.org.".parse().unwrap();
    let n2: NameBuf = "b.example.org.".parse().unwrap();
    let n3: NameBuf = "c.example.org.".parse().unwrap();
    {
        let mut buffer = [0u8; 512];
        let mut builder = MessageBuilder::new(
            &mut buffer,
            &mut compressor,
            U16::new(1),
            HeaderFlags::default(),
        );
        builder
            .push_question(&Question::<&Name> {
                qname: &*n1,
                qtype: QType::A,
                qclass: QClass::IN,
            })
            .unwrap();
        let _ = builder.finish();
    }
    // "The name compressor will be reset in case it was used before."
    let mut buffer = [0u8; 512];
    let mut builder = MessageBuilder::new(
        &mut buffer,
        &mut compressor,
        U16::new(2),
        HeaderFlags::default(),
    );
    for n in [&n2, &n3] {
        builder
            .push_question(&Question::<&Name> {
                qname: &**n,
                qtype: QType::A,
                qclass: QClass::IN,
            })
            .unwrap();
    }
    let bytes = builder.finish().as_bytes().to_vec();
    assert_eq!(
        old_names(&bytes),
        vec!["b.example.org".to_string(), "c.example.org".to_string()]
    );
}

#[test]
fn unparsed_name_pointer_bound() {
    use domain::new::base::name::UnparsedName;
    // question "a.b." (5 octets) + type/class, answer owner = pointer to the
    // question name (0xC00C) at contents offset 9.
    let contents = b"\x01a\x01b\x00\x00\x01\x00\x01\xC0\x0C\x00\x01\x00\x01\x00\x00\x00\x00\x00\x04\x01\x02\x03\x04";
    let nb = NameBuf::split_message_bytes(contents, 9).map(|(n, e)| (format!("{}", n), e));
    let un = <&UnparsedName>::split_message_bytes(contents, 9).map(|(n, e)| (n.len(), e));
    println!("NameBuf: {:?}, UnparsedName: {:?}", nb, un);
    assert_eq!(nb.is_ok(), un.is_ok());
}

#[test]
fn nsec_bitmap_trailing_zero_and_empty() {
    let mut mismatches = Vec::new();
    for (label, bitmap) in [
        ("trailing zero octet", &b"\x00\x02\x40\x00"[..]),
        ("empty bitmap", &b""[..]),
        ("windows out of order", &b"\x01\x01\x40\x00\x01\x40"[..]),
    ] {
        let mut bytes = vec![0u8, 1, 0x80, 0, 0, 1, 0, 1, 0, 0, 0, 0];
        bytes.extend_from_slice(b"\x07example\x03org\x00\x00\x2f\x00\x01");
        bytes.extend_from_slice(b"\xC0\x0C\x00\x2f\x00\x01\x00\x00\x00\x10");
        let rdlen = (3 + bitmap.len()) as u16;
        bytes.extend_from_slice(&rdlen.to_be_bytes());
        bytes.extend_from_slice(b"\x01a\x00");
        bytes.extend_from_slice(bitmap);
        let old = OldMessage::from_octets(&bytes[..]).unwrap();
        let ans = old.answer().unwrap().next().unwrap().unwrap();
        let rec = ans
            .into_record::<domain::rdata::AllRecordData<_, ParsedName<_>>>();
        let q = Question::<NameBuf>::split_message_bytes(&bytes[12..], 0).unwrap();
        let new = Record::<NameBuf, RecordData<'_, NameBuf>>::split_message_bytes(
            &bytes[12..],
            q.1,
        );
        println!("{label}: old ok = {}, new ok = {}", rec.is_ok(), new.is_ok());
        if rec.is_ok() != new.is_ok() {
            mismatches.push(label);
        }
    }
    assert!(mismatches.is_empty(), "acceptance differs for: {mismatches:?}");
}

#[test]
fn mb_record_with_compressed_name() {
    // MB (type 7) is one of the RFC 1035 types whose name may be compressed.
    let mut bytes = vec![0u8, 1, 0x80, 0, 0, 1, 0, 1, 0, 0, 0, 0];
    bytes.extend_from_slice(b"\x07example\x03org\x00\x00\x07\x00\x01");
    bytes.extend_from_slice(b"\xC0\x0C\x00\x07\x00\x01\x00\x00\x00\x10\x00\x07\x04mail\xC0\x0C");
    let old = OldMessage::from_octets(&bytes[..]).unwrap();
    let ans = old.answer().unwrap().next().unwrap().unwrap();
    let rec = ans
        .into_record::<domain::rdata::AllRecordData<_, ParsedName<_>>>()
        .unwrap()
        .unwrap();
    let old_rdata = {
        use domain::base::rdata::ComposeRecordData;
        let mut v = Vec::new();
        rec.data().compose_canonical_rdata(&mut v).unwrap();
        v
    };
    let q = Question::<NameBuf>::split_message_bytes(&bytes[12..], 0).unwrap();
    let (new, _) = Record::<NameBuf, RecordData<'_, NameBuf>>::split_message_bytes(
        &bytes[12..],
        q.1,
    )
    .unwrap();
    let new_rdata = {
        use domain::new::base::wire::BuildBytes;
        let mut v = vec![0u8; new.rdata.built_bytes_size()];
        new.rdata.build_bytes(&mut v).unwrap();
        v
    };
    println!("old {:?}\nnew {:?}", old_rdata, new_rdata);
    assert_eq!(old_rdata, new_rdata);
}
