// scratch fuzz for C18 (not a deliverable)
use domain::base::scan::{
    ConvertSymbols, EntrySymbol, IterScanner, Scanner, Symbol, Symbols,
};
use domain::utils::{base16, base32, base64};
use std::panic::{catch_unwind, AssertUnwindSafe};

struct Lcg(u64);
impl Lcg {
    fn next(&mut self) -> u64 {
        self.0 = self
            .0
            .wrapping_mul(6364136223846793005)
            .wrapping_add(1442695040888963407);
        self.0 >> 33
    }
}

fn conv<C: ConvertSymbols<EntrySymbol, std::io::Error>>(
    mut c: C,
    s: &str,
) -> Result<Vec<u8>, String> {
    let mut res = Vec::new();
    for ch in s.chars() {
        match c.process_symbol(EntrySymbol::Symbol(Symbol::Char(ch))) {
            Ok(Some(d)) => res.extend_from_slice(d),
            Ok(None) => {}
            Err(e) => return Err(e.to_string()),
        }
    }
    match c.process_tail() {
        Ok(Some(d)) => res.extend_from_slice(d),
        Ok(None) => {}
        Err(e) => return Err(e.to_string()),
    }
    Ok(res)
}

fn rand_string(rng: &mut Lcg, alphabet: &[char], maxlen: usize) -> String {
    let len = (rng.next() as usize) % (maxlen + 1);
    (0..len)
        .map(|_| alphabet[(rng.next() as usize) % alphabet.len()])
        .collect()
}

#[test]
fn fuzz_compare() {
    let mut rng = Lcg(12345);
    let a64: Vec<char> = "AZaz09+/==Qg\u{141}-_ ".chars().collect();
    let a32: Vec<char> = "09AVavGOW=\u{141}".chars().collect();
    let a16: Vec<char> = "09AFafgG\u{141}x".chars().collect();
    let mut diffs = 0;
    for _ in 0..300000 {
        let s = rand_string(&mut rng, &a64, 10);
        let d = catch_unwind(AssertUnwindSafe(|| {
            base64::decode::<Vec<u8>>(&s).map_err(|e| e.to_string())
        }));
        let c = catch_unwind(AssertUnwindSafe(|| {
            conv(base64::SymbolConverter::new(), &s)
        }));
        match (d, c) {
            (Ok(d), Ok(c)) => {
                if d.is_ok() != c.is_ok() || (d.is_ok() && d != c) {
                    if diffs < 20 {
                        println!("b64 diff {:?}: {:?} vs {:?}", s, d, c);
                    }
                    diffs += 1;
                }
            }
            _ => panic!("b64 panic on {:?}", s),
        }
        let s = rand_string(&mut rng, &a32, 18);
        let d = catch_unwind(AssertUnwindSafe(|| {
            base32::decode_hex::<Vec<u8>>(&s).map_err(|e| e.to_string())
        }));
        let c = catch_unwind(AssertUnwindSafe(|| {
            conv(base32::SymbolConverter::new(), &s)
        }));
        match (d, c) {
            (Ok(d), Ok(c)) => {
                if d.is_ok() != c.is_ok() || (d.is_ok() && d != c) {
                    if diffs < 20 {
                        println!("b32 diff {:?}: {:?} vs {:?}", s, d, c);
                    }
                    diffs += 1;
                }
            }
            _ => panic!("b32 panic on {:?}", s),
        }
        let s = rand_string(&mut rng, &a16, 7);
        let d = catch_unwind(AssertUnwindSafe(|| {
            base16::decode::<Vec<u8>>(&s).map_err(|e| e.to_string())
        }));
        let c = catch_unwind(AssertUnwindSafe(|| {
            conv(base16::SymbolConverter::new(), &s)
        }));
        match (d, c) {
            (Ok(d), Ok(c)) => {
                if d.is_ok() != c.is_ok() || (d.is_ok() && d != c) {
                    if diffs < 20 {
                        println!("b16 diff {:?}: {:?} vs {:?}", s, d, c);
                    }
                    diffs += 1;
                }
            }
            _ => panic!("b16 panic on {:?}", s),
        }
    }
    assert_eq!(diffs, 0);
}

#[test]
fn roundtrip_and_canonical() {
    let mut rng = Lcg(777);
    for _ in 0..20000 {
        let len = (rng.next() % 24) as usize;
        let data: Vec<u8> = (0..len).map(|_| rng.next() as u8).collect();
        let e64 = base64::encode_string(&data);
        assert_eq!(base64::decode::<Vec<u8>>(&e64).unwrap(), data);
        let e32 = base32::encode_string_hex(&data);
        assert_eq!(base32::decode_hex::<Vec<u8>>(&e32).unwrap(), data);
        assert_eq!(
            base32::decode_hex::<Vec<u8>>(&e32.to_ascii_lowercase()).unwrap(),
            data
        );
        let e16 = base16::encode_string(&data);
        assert_eq!(base16::decode::<Vec<u8>>(&e16).unwrap(), data);
        assert_eq!(conv(base64::SymbolConverter::new(), &e64).unwrap(), data);
        assert_eq!(conv(base32::SymbolConverter::new(), &e32).unwrap(), data);
        assert_eq!(conv(base16::SymbolConverter::new(), &e16).unwrap(), data);
    }
}

#[test]
fn observations() {
    println!("b64 Zh== -> {:?}", base64::decode::<Vec<u8>>("Zh=="));
    println!("b64 Zm9= -> {:?}", base64::decode::<Vec<u8>>("Zm9="));
    println!("b32 CP -> {:?}", base32::decode_hex::<Vec<u8>>("CP"));
    println!("b32 CO====== -> {:?}", base32::decode_hex::<Vec<u8>>("CO======"));
    println!("b32 enc f -> {:?}", base32::encode_string_hex(b"f"));
    // escapes through IterScanner
    let mut sc = IterScanner::<_, Vec<u8>>::new(["\\Z\\g=="]);
    println!(
        "iter b64 esc -> {:?}",
        sc.convert_entry(base64::SymbolConverter::new())
    );
    let mut sc = IterScanner::<_, Vec<u8>>::new(["\\A\\B"]);
    println!(
        "iter b16 esc -> {:?}",
        sc.convert_entry(base16::SymbolConverter::new())
    );
    let mut sc = IterScanner::<_, Vec<u8>>::new(["AB\\"]);
    println!(
        "iter b16 badesc -> {:?}",
        sc.convert_token(base16::SymbolConverter::new())
    );
    let _ = Symbols::new("".chars());
}
