//! Behaviour of the UNMODIFIED library that does not match property C18.
//!
//! Place as `tests/c18_preexisting.rs` and run with
//!
//!     cargo test --offline --test c18_preexisting
//!
//! Every test asserts what the property demands; on the unmodified worktree
//! HEAD (8765dcd) the tests marked "FAILS" below fail.

use domain::base::scan::{
    ConvertSymbols, EntrySymbol, IterScanner, Scanner, Symbol,
};
use domain::utils::{base16, base32, base64};

fn conv<C: ConvertSymbols<EntrySymbol, std::io::Error>>(
    mut c: C,
    s: &str,
) -> Result<Vec<u8>, String> {
    let mut res = Vec::new();
    for ch in s.chars() {
        if let Some(d) = c
            .process_symbol(EntrySymbol::Symbol(Symbol::Char(ch)))
            .map_err(|e| e.to_string())?
        {
            res.extend_from_slice(d)
        }
    }
    if let Some(d) = c.process_tail().map_err(|e| e.to_string())? {
        res.extend_from_slice(d)
    }
    Ok(res)
}

/// FAILS: non-canonical trailing bits are accepted by both Base 64 decoders.
///
/// "Zh==" and "Zg==" both decode to b"f", "Zm9=" and "Zm8=" both to b"fo":
/// the unused low bits of the last symbol are simply discarded
/// (`Decoder::push_char` / `SymbolConverter::process_char` never look at
/// them), so text the encoder can never produce is accepted and decoding is
/// not injective.
#[test]
fn base64_non_canonical_trailing_bits() {
    assert!(
        base64::decode::<Vec<u8>>("Zh==").is_err(),
        "Decoder: {:?}",
        base64::decode::<Vec<u8>>("Zh==")
    );
    assert!(base64::decode::<Vec<u8>>("Zm9=").is_err());
    assert!(conv(base64::SymbolConverter::new(), "Zh==").is_err());
    assert!(conv(base64::SymbolConverter::new(), "Zm9=").is_err());
}

/// FAILS: the same for Base 32: "CP" (and "CQ", "CR") decode to b"f" just
/// like the canonical "CO"; "CPNH" decodes to b"fo" like "CPNG".
/// (`Decoder::finalize` / `SymbolConverter::process_tail`.)
#[test]
fn base32_non_canonical_trailing_bits() {
    assert!(
        base32::decode_hex::<Vec<u8>>("CP").is_err(),
        "Decoder: {:?}",
        base32::decode_hex::<Vec<u8>>("CP")
    );
    assert!(base32::decode_hex::<Vec<u8>>("CPNH").is_err());
    assert!(conv(base32::SymbolConverter::new(), "CP").is_err());
    assert!(conv(base32::SymbolConverter::new(), "CPNH").is_err());
}

/// FAILS: Base 32 neither produces nor accepts the RFC 4648 padding.
///
/// RFC 4648 section 10: BASE32-HEX("f") = "CO======". `display_hex` writes
/// "CO" and `decode_hex("CO======")` is `Err(IllegalChar('='))`. This is the
/// documented limitation of the module ("The decoder does not support
/// padding"; DNS uses unpadded base32hex), but it is not the RFC 4648
/// encoding the property statement names.
#[test]
fn base32_rfc4648_padding() {
    assert_eq!(base32::encode_string_hex(b"f"), "CO======");
    assert_eq!(
        base32::decode_hex::<Vec<u8>>("CO======").as_deref(),
        Ok(&b"f"[..])
    );
}

/// FAILS: the symbol converters accept *escaped* alphabet characters.
///
/// `SymbolConverter::process_symbol` uses `Symbol::into_char`, which turns a
/// simple escape `\Z` into 'Z'. So the token `\Z\g==` is accepted as Base 64
/// for b"f" and `\A\B` as Base 16 for 0xAB, although neither is well-formed
/// Base 64/16 text. (Decimal escapes, e.g. `\090g==`, are rejected.)
#[test]
fn escaped_symbols_are_accepted() {
    let res = IterScanner::<_, Vec<u8>>::new(["\\Z\\g=="])
        .convert_entry(base64::SymbolConverter::new());
    assert!(res.is_err(), "base64: {:?}", res);
    let res = IterScanner::<_, Vec<u8>>::new(["\\A\\B"])
        .convert_entry(base16::SymbolConverter::new());
    assert!(res.is_err(), "base16: {:?}", res);
    let res = IterScanner::<_, Vec<u8>>::new(["\\C\\O"])
        .convert_token(base32::SymbolConverter::new());
    assert!(res.is_err(), "base32: {:?}", res);
}
