// Pre-existing behaviour of the UNMODIFIED library that contradicts (or sits
// on the edge of) property C20. Every test below FAILS on the unmodified
// library; each assertion states the behaviour the property asks for.
//
// Place in tests/ as tests/c20_preexisting.rs and run:
//   cargo test --offline --features net,unstable-client-cache --test c20_preexisting
//
//  failure_outlives_max_validity   transport failure served after max_validity
//  served_at_exact_expiry          entry served (TTL 0) at elapsed == smallest TTL
//  ds_exposed_without_do           DS record / OPT DO bit handed to a DO=0 query
//  nxdomain_without_soa_is_cached  note: contradicts the module's own comment
//  noerror_without_question_panics note: upstream-triggerable panic
#![cfg(all(feature = "net", feature = "unstable-client-cache"))]

use bytes::Bytes;
use core::future::Future;
use core::pin::Pin;
use core::str::FromStr;
use core::time::Duration;
use domain::base::iana::{Class, Rcode};
use domain::base::{Message, MessageBuilder, Name, Rtype, Ttl};
use domain::net::client::cache;
use domain::net::client::request::{
    ComposeRequest, Error, GetResponse, RequestMessage, SendRequest,
};
use domain::rdata::{Ds, Ns, Rrsig, Soa, A};
use std::sync::atomic::{AtomicUsize, Ordering};
use std::sync::Arc;

type Responder = dyn Fn(&Message<Vec<u8>>, usize) -> Result<Message<Bytes>, Error>
    + Send
    + Sync;

#[derive(Clone)]
struct Mock {
    f: Arc<Responder>,
    calls: Arc<AtomicUsize>,
}

impl Mock {
    fn new(
        f: impl Fn(&Message<Vec<u8>>, usize) -> Result<Message<Bytes>, Error>
            + Send
            + Sync
            + 'static,
    ) -> Self {
        Mock {
            f: Arc::new(f),
            calls: Arc::new(AtomicUsize::new(0)),
        }
    }
    fn calls(&self) -> usize {
        self.calls.load(Ordering::SeqCst)
    }
}

#[derive(Debug)]
struct Ready(Option<Result<Message<Bytes>, Error>>);

impl GetResponse for Ready {
    fn get_response(
        &mut self,
    ) -> Pin<
        Box<
            dyn Future<Output = Result<Message<Bytes>, Error>>
                + Send
                + Sync
                + '_,
        >,
    > {
        Box::pin(core::future::ready(self.0.take().expect("polled once")))
    }
}

impl SendRequest<RequestMessage<Vec<u8>>> for Mock {
    fn send_request(
        &self,
        req: RequestMessage<Vec<u8>>,
    ) -> Box<dyn GetResponse + Send + Sync> {
        let n = self.calls.fetch_add(1, Ordering::SeqCst);
        let msg = req.to_message().unwrap();
        Box::new(Ready(Some((self.f)(&msg, n))))
    }
}

fn name(s: &str) -> Name<Vec<u8>> {
    Name::from_str(s).unwrap()
}

fn query(
    qname: &str,
    qtype: Rtype,
    rd: bool,
    cd: bool,
    ad: bool,
    dnssec_ok: bool,
) -> RequestMessage<Vec<u8>> {
    let mut mb = MessageBuilder::new_vec();
    mb.header_mut().set_rd(rd);
    mb.header_mut().set_cd(cd);
    mb.header_mut().set_ad(ad);
    let mut mb = mb.question();
    mb.push((name(qname), qtype, Class::IN)).unwrap();
    let mut req = RequestMessage::new(mb.into_message()).unwrap();
    if dnssec_ok {
        req.set_dnssec_ok(true);
    }
    req
}

fn finish(v: Vec<u8>) -> Message<Bytes> {
    Message::from_octets(Bytes::from(v)).unwrap()
}

async fn ask(
    conn: &cache::Connection<Mock>,
    req: RequestMessage<Vec<u8>>,
) -> Result<Message<Bytes>, Error> {
    let mut r = conn.send_request(req);
    r.get_response().await
}

fn min_ttl(msg: &Message<Bytes>) -> u32 {
    let mut m = u32::MAX;
    for sec in [
        msg.answer().unwrap(),
        msg.authority().unwrap(),
        msg.additional().unwrap(),
    ] {
        for rr in sec {
            let rr = rr.unwrap();
            if rr.rtype() != Rtype::OPT {
                m = m.min(rr.ttl().as_secs());
            }
        }
    }
    m
}

// P9: transport failure served past the configured maximum validity.
#[tokio::test(start_paused = true)]
async fn failure_outlives_max_validity() {
    let mock = Mock::new(|q, n| {
        if n == 0 {
            return Err(Error::StreamReadTimeout);
        }
        let mut mb = MessageBuilder::new_vec()
            .start_answer(q, Rcode::NOERROR)
            .unwrap();
        mb.push((
            name("example.com"),
            Class::IN,
            Ttl::from_secs(300),
            A::from_octets(192, 0, 2, 1),
        ))
        .unwrap();
        Ok(finish(mb.finish()))
    });
    let mut config = cache::Config::new();
    config.set_max_validity(Duration::from_secs(60));
    config.set_transport_failure_duration(Duration::from_secs(300));
    let conn = cache::Connection::with_config(mock.clone(), config);

    let r = ask(&conn, query("example.com", Rtype::A, true, false, false, false)).await;
    assert!(r.is_err());
    tokio::time::advance(Duration::from_secs(100)).await;
    let r = ask(&conn, query("example.com", Rtype::A, true, false, false, false)).await;
    // max_validity (60 s) has elapsed: nothing may be served from the cache.
    assert_eq!(mock.calls(), 2, "failure served from cache 100 s after it was cached although max_validity is 60 s");
    assert!(r.is_ok());
}

// P1: served at exactly elapsed == smallest TTL (TTL 0 in the answer).
#[tokio::test(start_paused = true)]
async fn served_at_exact_expiry() {
    let mock = Mock::new(|q, _n| {
        let mut mb = MessageBuilder::new_vec()
            .start_answer(q, Rcode::NOERROR)
            .unwrap();
        mb.push((
            name("example.com"),
            Class::IN,
            Ttl::from_secs(10),
            A::from_octets(192, 0, 2, 1),
        ))
        .unwrap();
        Ok(finish(mb.finish()))
    });
    let conn = cache::Connection::new(mock.clone());
    ask(&conn, query("example.com", Rtype::A, true, false, false, false)).await.unwrap();
    tokio::time::advance(Duration::from_secs(10)).await;
    let r = ask(&conn, query("example.com", Rtype::A, true, false, false, false)).await.unwrap();
    assert_eq!(mock.calls(), 2, "served from cache at elapsed == TTL; min ttl in served response = {}", min_ttl(&r));
}

// P2: DS (and the OPT DO bit) exposed to a DO=0 query from a DO=1 referral.
#[tokio::test(start_paused = true)]
async fn ds_exposed_without_do() {
    let mock = Mock::new(|q, _n| {
        let mb = MessageBuilder::new_vec()
            .start_answer(q, Rcode::NOERROR)
            .unwrap();
        let mut mb = mb.authority();
        mb.push((
            name("child.example.com"),
            Class::IN,
            Ttl::from_secs(300),
            Ns::new(name("ns.child.example.com")),
        ))
        .unwrap();
        mb.push((
            name("child.example.com"),
            Class::IN,
            Ttl::from_secs(300),
            Ds::new(
                1,
                domain::base::iana::SecurityAlgorithm::RSASHA256,
                domain::base::iana::DigestAlgorithm::SHA256,
                vec![0u8; 32],
            )
            .unwrap(),
        ))
        .unwrap();
        mb.push((
            name("child.example.com"),
            Class::IN,
            Ttl::from_secs(300),
            Rrsig::new(
                Rtype::DS,
                domain::base::iana::SecurityAlgorithm::RSASHA256,
                3,
                Ttl::from_secs(300),
                2000u32.into(),
                1000u32.into(),
                1,
                name("example.com"),
                vec![0u8; 16],
            )
            .unwrap(),
        ))
        .unwrap();
        let mut mb = mb.additional();
        if q.opt().is_some() {
            mb.opt(|o| {
                o.set_dnssec_ok(true);
                Ok(())
            })
            .unwrap();
        }
        Ok(finish(mb.finish()))
    });
    let conn = cache::Connection::new(mock.clone());
    ask(&conn, query("www.child.example.com", Rtype::A, false, false, false, true)).await.unwrap();
    let r = ask(&conn, query("www.child.example.com", Rtype::A, false, false, false, false)).await.unwrap();
    assert_eq!(mock.calls(), 1);
    let mut types = vec![];
    for rr in r.authority().unwrap() {
        types.push(rr.unwrap().rtype());
    }
    let opt_do = r.opt().map(|o| o.dnssec_ok());
    // (split by the framework author: the DS record is the property's clause; the OPT DO flag is RFC 3225
    // hygiene and is reported separately below)
    assert!(
        !types.contains(&Rtype::DS),
        "DO=0 query got authority types {:?}",
        types
    );
    if std::env::var("C20_STRICT_OPT_DO").is_err() {
        return;
    }
    assert!(
        !types.contains(&Rtype::DS) && opt_do != Some(true),
        "DO=0 query got authority types {:?}, OPT DO = {:?}",
        types,
        opt_do
    );
}

#[allow(dead_code)]
fn unused() {
    let _ = Soa::<Name<Vec<u8>>>::new;
}

// Note A: NXDOMAIN without a SOA record is cached (for up to
// max_nxdomain_validity) although the module comment (and RFC 2308) say it
// must not be cached.
#[tokio::test(start_paused = true)]
async fn nxdomain_without_soa_is_cached() {
    let mock = Mock::new(|q, _n| {
        let mb = MessageBuilder::new_vec()
            .start_answer(q, Rcode::NXDOMAIN)
            .unwrap();
        Ok(finish(mb.finish()))
    });
    let conn = cache::Connection::new(mock.clone());
    ask(&conn, query("nx.example.com", Rtype::A, true, false, false, false)).await.unwrap();
    tokio::time::advance(Duration::from_secs(3000)).await;
    ask(&conn, query("nx.example.com", Rtype::A, true, false, false, false)).await.unwrap();
    assert_eq!(mock.calls(), 2, "SOA-less NXDOMAIN served from the cache after 3000 s");
}

// Note B: a NOERROR response without a question section makes the cache
// panic in classify_no_error() ("section expected").
#[tokio::test(start_paused = true)]
async fn noerror_without_question_panics() {
    let mock = Mock::new(|q, _n| {
        let mut mb = MessageBuilder::new_vec();
        mb.header_mut().set_id(q.header().id());
        mb.header_mut().set_qr(true);
        Ok(finish(mb.finish()))
    });
    let conn = cache::Connection::new(mock.clone());
    let r = ask(&conn, query("example.com", Rtype::A, true, false, false, false)).await;
    assert!(r.is_ok() || r.is_err());
}
