// Demonstration for the C05.forge finding "validator of CaaTag bounds the length by 255".
// Place as tests/verif_demo_c05_caatag_len.rs; run: cargo test --offline --test verif_demo_c05_caatag_len
// Fails on the tree before the fix (CaaTag::from_octets accepts 300 octets; composing the CAA record panics),
// passes after it.
use std::panic::{catch_unwind, AssertUnwindSafe};

use domain::base::rdata::ComposeRecordData;
use domain::rdata::caa::{Caa, CaaFlags, CaaTag};

#[test]
fn caa_tag_longer_than_255_is_refused() {
    assert!(CaaTag::from_octets(vec![b'a'; 255]).is_ok());
    assert!(CaaTag::from_octets(vec![b'a'; 256]).is_err());
    assert!(CaaTag::from_slice(&[b'a'; 300]).is_err());
}

#[test]
fn caa_announces_what_it_writes() {
    let tag = match CaaTag::from_octets(vec![b'a'; 300]) {
        Ok(tag) => tag,
        Err(_) => return,
    };
    let caa = Caa::new(CaaFlags::new(0), tag, b"ca.example".to_vec());
    let rdlen = caa.rdlen(false);
    let composed = catch_unwind(AssertUnwindSafe(|| {
        let mut buf = Vec::new();
        caa.compose_rdata(&mut buf).unwrap();
        buf
    }));
    match composed {
        Ok(buf) => assert_eq!(rdlen.map(usize::from), Some(buf.len())),
        Err(_) => panic!("Caa announced rdlen {:?} but compose_rdata panicked", rdlen),
    }
}
