// cargo test --offline --test verif_demo_c01_txt
// A TXT record with RDLENGTH 0 is accepted by Txt::parse (the repository's
// zone-file tests rely on that), but as_flat_slice() indexed octet 0 of the
// value unconditionally and panicked.
use domain::base::iana::Rtype;
use domain::base::Message;
use domain::rdata::Txt;

fn msg_with_empty_txt() -> Vec<u8> {
    let mut m = vec![0x12, 0x34, 0x80, 0x00, 0, 0, 0, 1, 0, 0, 0, 0];
    m.extend_from_slice(b"\x01a\x00"); // owner a.
    m.extend_from_slice(&[0, 16, 0, 1, 0, 0, 0, 60, 0, 0]); // TXT IN ttl=60 rdlen=0
    m
}

#[test]
fn empty_txt_from_the_wire_does_not_yield_a_value_that_panics() {
    let msg = Message::from_octets(msg_with_empty_txt()).unwrap();
    let ans = msg.answer().unwrap();
    for rec in ans {
        let rec = rec.unwrap();
        assert_eq!(rec.rtype(), Rtype::TXT);
        match rec.to_record::<Txt<_>>() {
            Err(_) => {}            // rejecting the record is fine
            Ok(None) => panic!("not a TXT?"),
            Ok(Some(rec)) => {
                // whatever was returned must be usable without failure
                let txt = rec.data();
                let _ = txt.as_flat_slice();
                let _ = txt.iter_charstrs().count();
                let _ = format!("{}", txt);
            }
        }
    }
}

#[test]
fn slice_validator_and_parser_agree_on_empty() {
    assert!(Txt::from_octets(&b""[..]).is_err());
}
