// PRE-EXISTING VIOLATION (unmodified library): a reply from the upstream makes
// ValidationContext::validate_msg panic.
//
// Run (from the repository root, file placed in tests/c14_pre_rrsig_panic.rs):
//   cargo test --offline -j3 --features unstable-validator,ring,unstable-crypto-sign --test c14_pre_rrsig_panic
//
// Group::new (and Group::add) in src/dnssec/validator/group.rs rebuild every
// RRSIG of the reply with an uncompressed signer name:
//     Rrsig::new(.., rrsig.signer_name().to_name::<Bytes>(), signature)
//         .expect("should not fail")
// Rrsig::new fails with LongRecordData if the RDATA gets longer than 65535
// octets. In the reply the signer name can be compressed: 2 octets on the
// wire, up to 255 octets uncompressed. A 65535 octet reply (the maximum over
// TCP) with one RRSIG record whose signature field is 65265 octets long and
// whose signer name is a compression pointer to a 255 octet name is well
// formed, parses fine, and has an RDATA of 65285 octets - but 65538 octets
// once the signer name is uncompressed. The expect() fires: the validator
// panics on upstream content, before any signature is looked at (no trust
// anchor or key is involved).

#![allow(dead_code, unused_imports)]
#![cfg(all(
    feature = "unstable-validator",
    feature = "ring",
    feature = "unstable-crypto-sign"
))]

use bytes::Bytes;
use domain::base::iana::{Class, DigestAlgorithm, Nsec3HashAlgorithm, Rcode};
use domain::base::name::{Name, ToName};
use domain::base::{Message, MessageBuilder, Record, Rtype, Serial, Ttl};
use domain::crypto::sign::{generate, GenerateParams, KeyPair, SignRaw};
use domain::dnssec::validator::anchor::TrustAnchors;
use domain::dnssec::common::nsec3_hash;
use domain::dnssec::validator::base::{DnskeyExt, RrsigExt};
use domain::dnssec::validator::context::{
    ValidationContext, ValidationState,
};
use domain::net::client::request::{
    ComposeRequest, Error, GetResponse, RequestMessage, SendRequest,
};
use domain::rdata::dnssec::{RtypeBitmap, Timestamp};
use domain::rdata::nsec3::{Nsec3Salt, OwnerHash};
use domain::rdata::{
    Dnskey, Ds, Nsec, Nsec3, Rrsig, Soa, ZoneRecordData, A,
};
use std::collections::HashMap;
use std::future::Future;
use std::pin::Pin;
use std::str::FromStr;
use std::sync::{Arc, Mutex};

//------------ Harness ------------------------------------------------------

type N = Name<Bytes>;
type RD = ZoneRecordData<Bytes, N>;
type RR = Record<N, RD>;

fn n(s: &str) -> N {
    N::from_str(s).unwrap()
}

fn rr(owner: &str, data: impl Into<RD>) -> RR {
    Record::new(n(owner), Class::IN, Ttl::from_secs(3600), data.into())
}

fn bitmap(types: &[Rtype]) -> RtypeBitmap<Bytes> {
    let mut b = RtypeBitmap::<Bytes>::builder();
    for t in types {
        b.add(*t).unwrap();
    }
    b.finalize()
}

fn now() -> u32 {
    Timestamp::now().into_int()
}

struct Zone {
    apex: N,
    kp: KeyPair,
    dnskey: Dnskey<Bytes>,
}

impl Zone {
    fn new(apex: &str) -> Self {
        let (sec, public) =
            generate(&GenerateParams::EcdsaP256Sha256, 257).unwrap();
        let kp = KeyPair::from_bytes(&sec, &public).unwrap();
        let dnskey = Dnskey::new(
            public.flags(),
            public.protocol(),
            public.algorithm(),
            Bytes::copy_from_slice(public.public_key().as_ref()),
        )
        .unwrap();
        Zone {
            apex: n(apex),
            kp,
            dnskey,
        }
    }

    fn dnskey_rr(&self) -> RR {
        Record::new(
            self.apex.clone(),
            Class::IN,
            Ttl::from_secs(3600),
            ZoneRecordData::Dnskey(self.dnskey.clone()),
        )
    }

    fn ds_rr(&self) -> RR {
        let digest = self
            .dnskey
            .digest(&self.apex, DigestAlgorithm::SHA256)
            .unwrap();
        Record::new(
            self.apex.clone(),
            Class::IN,
            Ttl::from_secs(3600),
            ZoneRecordData::Ds(
                Ds::new(
                    self.dnskey.key_tag(),
                    self.dnskey.algorithm(),
                    DigestAlgorithm::SHA256,
                    Bytes::copy_from_slice(digest.as_ref()),
                )
                .unwrap(),
            ),
        )
    }

    fn soa_rr(&self) -> RR {
        Record::new(
            self.apex.clone(),
            Class::IN,
            Ttl::from_secs(3600),
            ZoneRecordData::Soa(Soa::new(
                self.apex.clone(),
                self.apex.clone(),
                Serial(1),
                Ttl::from_secs(3600),
                Ttl::from_secs(3600),
                Ttl::from_secs(3600),
                Ttl::from_secs(3600),
            )),
        )
    }

    /// Build the NSEC3 chain (SHA-1, the given salt/iterations/flags) for
    /// the given names of the zone.
    fn nsec3_chain(
        &self,
        names: &[(&str, &[Rtype])],
        flags: u8,
        iterations: u16,
        salt: &[u8],
    ) -> Vec<RR> {
        let salt =
            Nsec3Salt::from_octets(Bytes::copy_from_slice(salt)).unwrap();
        let mut hashed: Vec<(OwnerHash<Vec<u8>>, &[Rtype])> = names
            .iter()
            .map(|(name, types)| {
                (
                    nsec3_hash::<_, _, Vec<u8>>(
                        n(name),
                        Nsec3HashAlgorithm::SHA1,
                        iterations,
                        &salt,
                    )
                    .unwrap(),
                    *types,
                )
            })
            .collect();
        hashed.sort_by(|a, b| a.0.as_slice().cmp(b.0.as_slice()));
        let mut res = Vec::new();
        for i in 0..hashed.len() {
            let next = &hashed[(i + 1) % hashed.len()].0;
            let owner = format!(
                "{}.{}",
                hashed[i].0,
                self.apex.fmt_with_dot()
            );
            res.push(rr(
                &owner,
                Nsec3::new(
                    Nsec3HashAlgorithm::SHA1,
                    flags,
                    iterations,
                    salt.clone(),
                    OwnerHash::from_octets(Bytes::copy_from_slice(
                        next.as_slice(),
                    ))
                    .unwrap(),
                    bitmap(hashed[i].1),
                ),
            ));
        }
        res
    }

    fn anchor(&self) -> TrustAnchors {
        let s = format!(
            "{} 3600 IN DNSKEY {}",
            self.apex.fmt_with_dot(),
            self.dnskey
        );
        TrustAnchors::from_u8(s.as_bytes()).unwrap()
    }

    /// Sign an RRset the way a zone signer does: labels is the number of
    /// labels of the owner, not counting the root and a leading "*".
    fn sign(&self, rrs: &[RR]) -> RR {
        let owner = rrs[0].owner();
        let mut labels = owner.label_count() - 1;
        if owner.first().is_wildcard() {
            labels -= 1;
        }
        self.sign_as(rrs, owner.clone(), labels as u8)
    }

    /// Produce the RRSIG record for `rrs`, with the given labels field, and
    /// attach it to `sig_owner` (the owner name used in the reply).
    fn sign_as(&self, rrs: &[RR], sig_owner: N, labels: u8) -> RR {
        let t = now();
        self.sign_full(
            rrs,
            sig_owner,
            labels,
            t.wrapping_sub(3600),
            t.wrapping_add(86400),
        )
    }

    /// Like sign_as, with explicit inception and expiration times.
    fn sign_full(
        &self,
        rrs: &[RR],
        sig_owner: N,
        labels: u8,
        inception: u32,
        expiration: u32,
    ) -> RR {
        let proto = Rrsig::<Bytes, N>::new(
            rrs[0].rtype(),
            self.kp.algorithm(),
            labels,
            Ttl::from_secs(3600),
            Timestamp::from(expiration),
            Timestamp::from(inception),
            self.dnskey.key_tag(),
            self.apex.clone(),
            Bytes::new(),
        )
        .unwrap();
        let mut buf = Vec::new();
        let mut v: Vec<RR> = rrs.to_vec();
        proto.signed_data(&mut buf, v.as_mut_slice()).unwrap();
        let sig = self.kp.sign_raw(&buf).unwrap();
        let rrsig = Rrsig::<Bytes, N>::new(
            proto.type_covered(),
            proto.algorithm(),
            proto.labels(),
            proto.original_ttl(),
            proto.expiration(),
            proto.inception(),
            proto.key_tag(),
            proto.signer_name().clone(),
            Bytes::copy_from_slice(sig.as_ref()),
        )
        .unwrap();
        Record::new(
            sig_owner,
            Class::IN,
            Ttl::from_secs(3600),
            ZoneRecordData::Rrsig(rrsig),
        )
    }
}

fn reply(
    qname: &N,
    qtype: Rtype,
    rcode: Rcode,
    answer: &[RR],
    authority: &[RR],
) -> Message<Bytes> {
    let mut b = MessageBuilder::new_vec();
    b.header_mut().set_qr(true);
    b.header_mut().set_rcode(rcode);
    let mut b = b.question();
    b.push((qname, qtype)).unwrap();
    let mut b = b.answer();
    for r in answer {
        b.push(r.clone()).unwrap();
    }
    let mut b = b.authority();
    for r in authority {
        b.push(r.clone()).unwrap();
    }
    Message::from_octets(Bytes::from(b.finish())).unwrap()
}

/// The upstream the validator uses for its DS and DNSKEY lookups.
#[derive(Clone, Default)]
struct Upstream {
    replies: Arc<Mutex<HashMap<(N, Rtype), Message<Bytes>>>>,
}

impl Upstream {
    fn set(&self, qname: &N, qtype: Rtype, answer: &[RR], authority: &[RR]) {
        self.replies.lock().unwrap().insert(
            (qname.clone(), qtype),
            reply(qname, qtype, Rcode::NOERROR, answer, authority),
        );
    }
}

#[derive(Debug)]
struct Resp(Option<Result<Message<Bytes>, Error>>);

impl GetResponse for Resp {
    fn get_response(
        &mut self,
    ) -> Pin<
        Box<
            dyn Future<Output = Result<Message<Bytes>, Error>>
                + Send
                + Sync
                + '_,
        >,
    > {
        let r = self.0.take().unwrap();
        Box::pin(std::future::ready(r))
    }
}

impl SendRequest<RequestMessage<Vec<u8>>> for Upstream {
    fn send_request(
        &self,
        req: RequestMessage<Vec<u8>>,
    ) -> Box<dyn GetResponse + Send + Sync> {
        let msg = req.to_message().unwrap();
        let q = msg.sole_question().unwrap();
        let qname: N = q.qname().to_name();
        let found = self
            .replies
            .lock()
            .unwrap()
            .get(&(qname.clone(), q.qtype()))
            .cloned();
        let r = found.unwrap_or_else(|| {
            reply(&qname, q.qtype(), Rcode::NOERROR, &[], &[])
        });
        Box::new(Resp(Some(Ok(r))))
    }
}

async fn validate(
    vc: &ValidationContext<Upstream>,
    msg: &Message<Bytes>,
) -> ValidationState {
    let mut m = msg.clone();
    let (state, _ede) = vc.validate_msg(&mut m).await.unwrap();
    state
}

//------------ The test ------------------------------------------------------

/// Build the hostile 65535 octet reply.
fn hostile_reply() -> Vec<u8> {
    let mut m: Vec<u8> = Vec::new();
    // Header. The first five octets double as the tail of the long name:
    // label "\x03" + 3 octets, then the root label (high octet of QDCOUNT).
    m.extend_from_slice(&[0x03, b'h', 0x80, 0x00]); // ID, flags (QR)
    m.extend_from_slice(&[0, 0, 0, 1, 0, 0, 0, 0]); // QD=0 AN=1 NS=0 AR=0
    assert_eq!(m.len(), 12);

    // Owner name of the only record: 226 octets of labels, then a pointer
    // to offset 0. Uncompressed 231 octets.
    for _ in 0..3 {
        m.push(63);
        m.extend_from_slice(&[b'a'; 63]);
    }
    m.push(33);
    m.extend_from_slice(&[b'b'; 33]);
    m.extend_from_slice(&[0xC0, 0x00]);
    assert_eq!(m.len(), 240);

    let sig_len: usize = 65535 - 270;
    let rdlen: u16 = (18 + 2 + sig_len) as u16;

    m.extend_from_slice(&[0x00, 0x2E]); // TYPE = RRSIG
    // Offset 242: CLASS, TTL, RDLENGTH and the first 16 octets of the RDATA
    // double as one 23 octet label of the signer name.
    assert_eq!(m.len(), 242);
    m.extend_from_slice(&[23, b'c']); // CLASS
    m.extend_from_slice(&[0, 0, 0x0e, 0x10]); // TTL
    m.extend_from_slice(&rdlen.to_be_bytes()); // RDLENGTH
    assert_eq!(m.len(), 250);
    m.extend_from_slice(&[0x00, 0x01]); // type covered: A
    m.push(13); // algorithm
    m.push(2); // labels
    m.extend_from_slice(&[0, 0, 0x0e, 0x10]); // original TTL
    m.extend_from_slice(&[0x7f, 0, 0, 0]); // expiration
    m.extend_from_slice(&[0x10, 0, 0, 0]); // inception
    assert_eq!(m.len(), 266);
    m.extend_from_slice(&[0xC0, 0x0C]); // key tag, and pointer to the owner
    // The signer name: a pointer to offset 242. Uncompressed this is
    // 24 + 231 = 255 octets.
    m.extend_from_slice(&[0xC0, 242]);
    assert_eq!(m.len(), 270);
    m.resize(65535, 0x55); // signature
    m
}

#[tokio::test]
async fn long_rrsig_does_not_panic() {
    let bytes = hostile_reply();
    assert_eq!(bytes.len(), 65535);

    // The reply is well formed: it parses, and the RRSIG record parses.
    let msg = Message::from_octets(Bytes::from(bytes)).unwrap();
    let mut count = 0;
    for r in msg.answer().unwrap() {
        let r = r.unwrap();
        let sig = r
            .to_record::<Rrsig<_, domain::base::ParsedName<_>>>()
            .unwrap()
            .unwrap();
        assert_eq!(sig.data().signer_name().to_name::<Bytes>().len(), 255);
        count += 1;
    }
    assert_eq!(count, 1);

    let z = Zone::new("example.");
    let vc = ValidationContext::new(z.anchor(), Upstream::default());
    let mut m = msg.clone();
    // Any result (an error, bogus, indeterminate, ...) is fine. A panic is
    // not.
    let res = vc.validate_msg(&mut m).await;
    println!("{:?}", res.map(|(s, _)| s));
}
