//! C06: a record whose owner label contains a character the zone-file reader treats specially
//! must read back equal.   cargo test --offline --features zonefile --test verif_demo_c06
use domain::base::name::{Name, NameBuilder};
use domain::base::zonefile_fmt::{DisplayKind, ZonefileFmt};
use domain::base::{Record, Ttl};
use domain::base::iana::Class;
use domain::rdata::A;
use domain::zonefile::inplace::{Entry, Zonefile};

fn roundtrip(label: &[u8]) {
    let mut b = NameBuilder::new_vec();
    b.append_label(label).unwrap();
    b.append_label(b"example").unwrap();
    let owner: Name<Vec<u8>> = b.into_name().unwrap();
    let rec = Record::new(owner.clone(), Class::IN, Ttl::from_secs(60), A::from_octets(192, 0, 2, 1));
    let text = format!("{}\n", rec.display_zonefile(DisplayKind::Simple));
    let mut zf = Zonefile::new();
    zf.extend_from_slice(text.as_bytes());
    let entry = zf.next_entry().unwrap_or_else(|e| panic!("{label:?}: written text {text:?} does not parse: {e}")).expect("one entry");
    match entry {
        Entry::Record(r) => assert_eq!(r.owner().to_string(), owner.to_string(), "text was {text:?}"),
        _ => panic!("not a record"),
    }
}

#[test] fn semicolon() { roundtrip(b"a;b") }
#[test] fn parens() { roundtrip(b"a(b)c") }
#[test] fn quote() { roundtrip(b"a\"b") }
#[test] fn plain_control() { roundtrip(b"plain") }
