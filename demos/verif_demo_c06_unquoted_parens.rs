//! Parentheses in a value written without quotes (an unknown SvcParam) must
//! be escaped: the reader takes them for grouping.
#![cfg(feature = "zonefile")]
use domain::base::zonefile_fmt::{DisplayKind, ZonefileFmt};
use domain::zonefile::inplace::{Entry, Zonefile};

#[test]
fn unknown_svc_param_value_with_parens() {
    // the value a(b written in the escaped form the reader accepts
    let mut zone = Zonefile::from("a.example.com. 300 IN SVCB 1 . key65000=a\\040b\\(c\n");
    let rec = match zone.next_entry().unwrap().unwrap() {
        Entry::Record(r) => r,
        _ => panic!("record expected"),
    };
    let text = format!("{}\n", rec.display_zonefile(DisplayKind::Simple));
    let mut again = Zonefile::from(text.as_str());
    match again.next_entry() {
        Ok(Some(Entry::Record(back))) => assert_eq!(rec.data(), back.data(), "written as {text:?}"),
        other => panic!("written as {text:?}, read back as {other:?}"),
    }
}
