//! A request without a question must not panic the QnameRouter: it cannot be
//! routed, which is a format error.
#![cfg(all(feature = "unstable-server-transport", feature = "unstable-client-transport"))]

use domain::base::{Message, MessageBuilder};
use domain::net::server::message::{Request, UdpTransportContext};
use domain::net::server::qname_router::QnameRouter;
use domain::net::server::service::ServiceError;
use domain::net::server::single_service::{ReplyMessage, SingleService};
use tokio::time::Instant;

#[tokio::test]
async fn request_without_question() {
    let router: QnameRouter<Vec<u8>, Vec<u8>, (), ReplyMessage> = QnameRouter::new();
    // header only: QDCOUNT = 0
    let message: Message<Vec<u8>> = MessageBuilder::new_vec().into_message();
    let request = Request::new(
        "127.0.0.1:12345".parse().unwrap(),
        Instant::now(),
        message,
        UdpTransportContext::default().into(),
        (),
    );
    let res = router.call(request).await;
    assert!(matches!(res, Err(ServiceError::FormatError)), "{:?}", res.map(|_| ()));
}
