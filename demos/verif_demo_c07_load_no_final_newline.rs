// Zonefile::load on a source whose last line has no newline.
//   cargo test --offline --features zonefile --test verif_demo_c07_load_no_final_newline
#![cfg(feature = "zonefile")]
use domain::zonefile::inplace::{Entry, Zonefile};

fn records(text: &str) -> Result<usize, String> {
    let mut src = text.as_bytes();
    let mut zf = Zonefile::load(&mut src).map_err(|e| e.to_string())?;
    let mut n = 0;
    loop {
        match zf.next_entry() {
            Ok(Some(Entry::Record(_))) => n += 1,
            Ok(Some(_)) => {}
            Ok(None) => return Ok(n),
            Err(e) => return Err(e.to_string()),
        }
    }
}

#[test]
fn last_line_without_newline_is_read() {
    let with = "$ORIGIN example.com.\n@ 3600 IN SOA ns hostmaster 1 2 3 4 5\nwww 3600 IN A 192.0.2.1\n";
    let without = &with[..with.len() - 1];
    assert_eq!(records(with), Ok(2));
    assert_eq!(records(without), Ok(2), "same file without the final newline");
}
