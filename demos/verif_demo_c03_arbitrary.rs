//! With the `arbitrary` feature the derived `Arbitrary` impl of `Name` wraps
//! arbitrary octets without any check: safe code obtains an invalid name.
#![cfg(feature = "arbitrary")]
use arbitrary::{Arbitrary, Unstructured};
use domain::base::name::{Name, ToLabelIter};

fn is_valid_absolute(octs: &[u8]) -> bool {
    if octs.is_empty() || octs.len() > 255 { return false }
    let mut i = 0;
    loop {
        let l = octs[i] as usize;
        if l > 63 { return false }
        if l == 0 { return i + 1 == octs.len() }
        i += 1 + l;
        if i >= octs.len() { return false }
    }
}

#[test]
fn arbitrary_names_are_valid() {
    // a handful of fixed inputs for the generator
    let inputs: [&[u8]; 4] = [
        &[3, 0x77, 0x77, 0x77, 9, 1, 2, 3],
        &[0xC0, 0x0C, 0xFF, 0xFF, 0xFF, 7],
        &[200; 40],
        &[1, 2, 3, 4, 5, 6, 7, 8, 9, 10, 11, 12],
    ];
    for data in inputs {
        let mut u = Unstructured::new(data);
        if let Ok(name) = Name::<Vec<u8>>::arbitrary(&mut u) {
            assert!(
                is_valid_absolute(name.as_slice()),
                "Name::arbitrary produced the invalid name {:?} from {:?}",
                name.as_slice(), data
            );
            // and it can be used without panicking
            let _ = name.iter_labels().count();
            let _ = format!("{}", name);
        }
    }
}

#[test]
fn arbitrary_names_are_not_trivial() {
    let data: Vec<u8> = (0..200u16).map(|i| (i * 7 + 1) as u8).collect();
    let mut u = Unstructured::new(&data);
    let mut seen_labels = 0;
    for _ in 0..8 {
        if let Ok(name) = Name::<Vec<u8>>::arbitrary(&mut u) {
            assert!(is_valid_absolute(name.as_slice()), "{:?}", name.as_slice());
            seen_labels += name.iter_labels().count() - 1;
        }
    }
    assert!(seen_labels > 0);
}
