//! A node handle obtained from `open()` and kept across `commit()` must not
//! be able to change what readers of the committed version see.
#![cfg(feature = "unstable-zonetree")]

use std::str::FromStr;

use bytes::Bytes;
use domain::base::iana::{Class, Rtype};
use domain::base::name::{Label, Name};
use domain::base::Ttl;
use domain::rdata::{ZoneRecordData, A};
use domain::zonetree::{
    AnswerContent, ReadableZone, Rrset, SharedRrset, WritableZoneNode, Zone,
    ZoneBuilder,
};

fn name(s: &str) -> Name<Bytes> {
    Name::from_str(s).unwrap()
}

fn a_rrset(addr: &str) -> SharedRrset {
    let mut rrset = Rrset::new(Rtype::A, Ttl::from_secs(60));
    rrset.push_data(ZoneRecordData::A(A::from_str(addr).unwrap()));
    SharedRrset::new(rrset)
}

fn lookup(r: &dyn ReadableZone, qname: &str, qtype: Rtype) -> String {
    let ans = r.query(name(qname), qtype).unwrap();
    match ans.content() {
        AnswerContent::Data(rrset) => format!(
            "{:?} {:?}", ans.rcode(),
            rrset.data().iter().map(|d| d.to_string()).collect::<Vec<_>>()
        ),
        AnswerContent::Cname(_) => format!("{:?} CNAME", ans.rcode()),
        AnswerContent::NoData => format!("{:?} nodata", ans.rcode()),
    }
}

#[tokio::test]
async fn node_handle_kept_across_commit() {
    let zone: Zone = ZoneBuilder::new(name("example.com"), Class::IN).build();
    let mut w = zone.write().await;
    let root = w.open(false).await.unwrap();
    let host: Box<dyn WritableZoneNode> =
        root.update_child(Label::from_slice(b"host").unwrap()).await.unwrap();
    host.update_rrset(a_rrset("10.0.0.1")).await.unwrap();
    w.commit(false).await.unwrap();

    // a reader of the committed version
    let reader = zone.read();
    let before = lookup(&*reader, "host.example.com", Rtype::A);
    assert!(before.contains("10.0.0.1"), "{before}");

    // the writer goes on with the handle it still has; nothing is committed
    host.update_rrset(a_rrset("10.0.0.2")).await.unwrap();
    let after = lookup(&*reader, "host.example.com", Rtype::A);
    assert_eq!(before, after, "an uncommitted edit changed what a held reader sees");
}
