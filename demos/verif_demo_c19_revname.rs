// Demo: NameCompressor::compress_revname() emits a pointer to the wrong name.
//
// Run with:
//   cargo test --offline --features unstable-new --test verif_demo_c19_revname
//
// Builds a message with the NEW message builder whose question names are
// `RevNameBuf`s, then decodes the produced bytes with the ESTABLISHED parser
// (`domain::base::Message`) and checks that every name reads back as written.
#![cfg(feature = "unstable-new")]

use domain::new::base::build::{MessageBuilder, NameCompressor};
use domain::new::base::name::RevNameBuf;
use domain::new::base::wire::{AsBytes, U16};
use domain::new::base::{HeaderFlags, QClass, QType, Question};

/// Build a message with one question per name and return the wire bytes.
fn build(names: &[&str]) -> Vec<u8> {
    let mut buffer = [0u8; 512];
    let mut compressor = NameCompressor::default();
    let mut builder = MessageBuilder::new(
        &mut buffer,
        &mut compressor,
        U16::new(0),
        HeaderFlags::default(),
    );
    for name in names {
        let question = Question::<RevNameBuf> {
            qname: name.parse().unwrap(),
            qtype: QType::A,
            qclass: QClass::IN,
        };
        builder.push_question(&question).unwrap();
    }
    builder.finish().as_bytes().to_vec()
}

/// Decode the question names with the established parser.
fn decode(bytes: &[u8]) -> Vec<String> {
    let msg = domain::base::Message::from_octets(bytes).unwrap();
    msg.question()
        .map(|q| format!("{}.", q.unwrap().qname()))
        .collect()
}

fn check(names: &[&str]) {
    let bytes = build(names);
    let decoded = decode(&bytes);
    let decoded: Vec<&str> = decoded.iter().map(|s| s.as_str()).collect();
    assert_eq!(
        decoded, names,
        "names read back differently; contents = {:?}",
        String::from_utf8_lossy(&bytes[12..])
    );
}

#[test]
fn two_shared_labels() {
    // HEAD emits "\x03www\x07example\xC0\x0C" = www.example.example.org.
    check(&["example.org.", "www.example.org."]);
}

#[test]
fn three_shared_labels() {
    check(&["a.example.org.", "www.a.example.org.", "b.a.example.org."]);
}

#[test]
fn partial_share_of_longer_entry() {
    // Shares "example.org." with the middle of the first name.
    check(&["www.example.org.", "mail.example.org.", "org."]);
}

#[test]
fn one_shared_label_control() {
    // Only one label is shared; this already works at HEAD.
    check(&["example.org.", "unequal.org."]);
}
