// C14: behaviour of the UNMODIFIED library that violates the property.
//
// Place this file in tests/c14_preexisting.rs of the repository and run:
//
//   cargo test --offline --features unstable-validator,unstable-crypto-sign,ring --test c14_preexisting
//
// The test builds a small signed hierarchy on the fly (fresh ECDSA P-256 keys,
// signatures valid around the current time):
//
//   .  (trust anchor)  ->  test.  ->  example.test.   (secure, NSEC)
//                                 ->  n3.test.        (secure, NSEC3)
//                                 ->  insecure.test.  (insecure delegation)
//
// and a mock upstream that answers the validator's DS / DNSKEY queries.
//
// Every test asserts what property C14 demands; each FAILING test is one
// confirmed violation in the unmodified library (tests named *control* pass).
// See notes.md next to this file.
#![cfg(all(
    feature = "unstable-validator",
    feature = "unstable-crypto-sign",
    feature = "ring"
))]
#![allow(dead_code)]

use bytes::Bytes;
use domain::base::iana::{
    Class, DigestAlgorithm, Nsec3HashAlgorithm, Rcode,
};
use domain::base::name::ToLabelIter;
use domain::base::{Message, MessageBuilder, Name, Record, Rtype, ToName, Ttl};
use domain::crypto::sign::{generate, GenerateParams, KeyPair, SignRaw};
use domain::dnssec::common::nsec3_hash;
use domain::dnssec::validator::anchor::TrustAnchors;
use domain::dnssec::validator::base::{DnskeyExt, RrsigExt};
use domain::dnssec::validator::context::{
    ValidationContext, ValidationState,
};
use domain::net::client::request::{
    ComposeRequest, Error, GetResponse, RequestMessage, SendRequest,
};
use domain::rdata::dnssec::{RtypeBitmap, Timestamp};
use domain::rdata::nsec3::{Nsec3Salt, OwnerHash};
use domain::rdata::{
    Cname, Dname, Dnskey, Ds, Ns, Nsec, Nsec3, Rrsig, Soa, ZoneRecordData, A,
};
use std::collections::HashMap;
use std::future::Future;
use std::pin::Pin;
use std::str::FromStr;
use std::sync::{Arc, Mutex};

//------------ harness -------------------------------------------------------

type Rd = ZoneRecordData<Bytes, Name<Bytes>>;
type Rec = Record<Name<Bytes>, Rd>;

fn n(s: &str) -> Name<Bytes> {
    Name::from_str(s).unwrap()
}

fn now() -> u32 {
    Timestamp::now().into_int()
}

fn rec(owner: &str, ttl: u32, data: impl Into<Rd>) -> Rec {
    Record::new(n(owner), Class::IN, Ttl::from_secs(ttl), data.into())
}

fn a(owner: &str, addr: [u8; 4]) -> Rec {
    rec(owner, 3600, A::from_octets(addr[0], addr[1], addr[2], addr[3]))
}

fn cname(owner: &str, target: &str) -> Rec {
    rec(owner, 3600, Cname::new(n(target)))
}

fn dname(owner: &str, target: &str) -> Rec {
    rec(owner, 3600, Dname::new(n(target)))
}

fn ns(owner: &str, target: &str) -> Rec {
    rec(owner, 3600, Ns::new(n(target)))
}

fn soa(owner: &str) -> Rec {
    rec(
        owner,
        3600,
        Soa::new(
            n("ns.invalid."),
            n("admin.invalid."),
            1.into(),
            Ttl::from_secs(3600),
            Ttl::from_secs(3600),
            Ttl::from_secs(3600),
            Ttl::from_secs(3600),
        ),
    )
}

fn bitmap(types: &[Rtype]) -> RtypeBitmap<Bytes> {
    let mut b = RtypeBitmap::<Bytes>::builder();
    let mut types = types.to_vec();
    types.sort();
    for t in types {
        b.add(t).unwrap();
    }
    b.finalize()
}

fn nsec(owner: &str, next: &str, types: &[Rtype]) -> Rec {
    rec(owner, 3600, Nsec::new(n(next), bitmap(types)))
}

const SALT: &[u8] = b"\xab\xcd";

fn n3hash(name: &str) -> OwnerHash<Bytes> {
    let salt = Nsec3Salt::from_octets(Bytes::from_static(SALT)).unwrap();
    let h: OwnerHash<Vec<u8>> =
        nsec3_hash(n(name), Nsec3HashAlgorithm::SHA1, 0, &salt).unwrap();
    OwnerHash::from_octets(Bytes::copy_from_slice(h.as_slice())).unwrap()
}

/// NSEC3 record with explicit owner hash and next hash.
fn nsec3_raw(
    zone: &str,
    owner_hash: &OwnerHash<Bytes>,
    next_hash: &OwnerHash<Bytes>,
    flags: u8,
    types: &[Rtype],
) -> Rec {
    let salt = Nsec3Salt::from_octets(Bytes::from_static(SALT)).unwrap();
    let owner = if zone == "." {
        format!("{}.", owner_hash)
    } else {
        format!("{}.{}", owner_hash, zone)
    };
    rec(
        &owner,
        3600,
        Nsec3::new(
            Nsec3HashAlgorithm::SHA1,
            flags,
            0,
            salt,
            next_hash.clone(),
            bitmap(types),
        ),
    )
}

/// Increment / decrement a hash by one (for building covering ranges).
fn hash_add(h: &OwnerHash<Bytes>, delta: i32) -> OwnerHash<Bytes> {
    let mut v = h.as_slice().to_vec();
    let mut i = v.len();
    if delta > 0 {
        loop {
            i -= 1;
            let (x, o) = v[i].overflowing_add(1);
            v[i] = x;
            if !o || i == 0 {
                break;
            }
        }
    } else {
        loop {
            i -= 1;
            let (x, o) = v[i].overflowing_sub(1);
            v[i] = x;
            if !o || i == 0 {
                break;
            }
        }
    }
    OwnerHash::from_octets(Bytes::from(v)).unwrap()
}

struct Zone {
    name: Name<Bytes>,
    key: KeyPair,
    dnskey: Dnskey<Bytes>,
}

#[derive(Clone, Copy)]
struct SigOpts {
    labels: Option<u8>,
    inception: u32,
    expiration: u32,
}

impl Default for SigOpts {
    fn default() -> Self {
        SigOpts {
            labels: None,
            inception: now() - 3600,
            expiration: now() + 86400,
        }
    }
}

impl Zone {
    fn new(name: &str) -> Self {
        Self::with_flags(name, 257)
    }

    /// A zone key pair whose DNSKEY carries the given flags.
    fn with_flags(name: &str, flags: u16) -> Self {
        let (secret, public) =
            generate(&GenerateParams::EcdsaP256Sha256, flags).unwrap();
        let key = KeyPair::from_bytes(&secret, &public).unwrap();
        let dnskey = Dnskey::new(
            public.flags(),
            public.protocol(),
            public.algorithm(),
            Bytes::copy_from_slice(public.public_key().as_ref()),
        )
        .unwrap();
        Zone {
            name: n(name),
            key,
            dnskey,
        }
    }

    fn name_str(&self) -> String {
        format!("{}", self.name)
    }

    /// Sign an RRset; returns the RRSIG record.
    fn sign_opts(&self, rrs: &[Rec], opts: SigOpts) -> Rec {
        let first = &rrs[0];
        let owner_labels = (first.owner().iter_labels().count() - 1) as u8;
        let owner_labels = if first.owner().iter_labels().next().unwrap().is_wildcard() {
            owner_labels - 1
        } else {
            owner_labels
        };
        let labels = opts.labels.unwrap_or(owner_labels);
        let mk = |sig: Bytes| {
            Rrsig::new(
                first.rtype(),
                self.dnskey.algorithm(),
                labels,
                first.ttl(),
                Timestamp::from(opts.expiration),
                Timestamp::from(opts.inception),
                self.dnskey.key_tag(),
                self.name.clone(),
                sig,
            )
            .unwrap()
        };
        let proto = mk(Bytes::new());
        let mut data = Vec::new();
        let mut recs: Vec<Rec> = rrs.to_vec();
        proto.signed_data(&mut data, &mut recs).unwrap();
        let sig = self.key.sign_raw(&data).unwrap();
        let rrsig = mk(Bytes::copy_from_slice(sig.as_ref()));
        Record::new(
            first.owner().clone(),
            Class::IN,
            first.ttl(),
            Rd::from(rrsig),
        )
    }

    fn sign(&self, rrs: &[Rec]) -> Rec {
        self.sign_opts(rrs, SigOpts::default())
    }

    /// RRset plus its signature.
    fn signed(&self, rrs: &[Rec]) -> Vec<Rec> {
        let mut v = rrs.to_vec();
        v.push(self.sign(rrs));
        v
    }

    fn signed_opts(&self, rrs: &[Rec], opts: SigOpts) -> Vec<Rec> {
        let mut v = rrs.to_vec();
        v.push(self.sign_opts(rrs, opts));
        v
    }

    fn dnskey_rec(&self, ttl: u32) -> Rec {
        Record::new(
            self.name.clone(),
            Class::IN,
            Ttl::from_secs(ttl),
            Rd::from(self.dnskey.clone()),
        )
    }

    fn ds_rec(&self) -> Rec {
        let digest = self
            .dnskey
            .digest(&self.name, DigestAlgorithm::SHA256)
            .unwrap();
        let ds = Ds::new(
            self.dnskey.key_tag(),
            self.dnskey.algorithm(),
            DigestAlgorithm::SHA256,
            Bytes::copy_from_slice(digest.as_ref()),
        )
        .unwrap();
        Record::new(
            self.name.clone(),
            Class::IN,
            Ttl::from_secs(3600),
            Rd::from(ds),
        )
    }

    fn anchor(&self) -> TrustAnchors {
        let owner = if self.name.is_root() {
            ".".to_string()
        } else {
            format!("{}.", self.name)
        };
        let s = format!("{} 3600 IN DNSKEY {}", owner, self.dnskey);
        TrustAnchors::from_u8(s.as_bytes()).unwrap()
    }

    /// Response to "<self> DNSKEY".
    fn dnskey_response(&self) -> Message<Bytes> {
        let rr = self.dnskey_rec(3600);
        msg(
            &self.name_str(),
            Rtype::DNSKEY,
            Rcode::NOERROR,
            &self.signed(&[rr]),
            &[],
        )
    }

    /// Response to "<child> DS" for a secure delegation.
    fn ds_response(&self, child: &Zone) -> Message<Bytes> {
        msg(
            &child.name_str(),
            Rtype::DS,
            Rcode::NOERROR,
            &self.signed(&[child.ds_rec()]),
            &[],
        )
    }

    /// Response to "<name> DS": NODATA with an NSEC at name.
    fn nods_response(
        &self,
        name: &str,
        next: &str,
        types: &[Rtype],
    ) -> Message<Bytes> {
        let mut auth = self.signed(&[soa(&self.name_str())]);
        auth.extend(self.signed(&[nsec(name, next, types)]));
        msg(name, Rtype::DS, Rcode::NOERROR, &[], &auth)
    }
}

fn msg(
    qname: &str,
    qtype: Rtype,
    rcode: Rcode,
    answer: &[Rec],
    authority: &[Rec],
) -> Message<Bytes> {
    let mut mb = MessageBuilder::new_vec();
    mb.header_mut().set_qr(true);
    mb.header_mut().set_rcode(rcode);
    let mut mb = mb.question();
    mb.push((n(qname), qtype)).unwrap();
    let mut mb = mb.answer();
    for r in answer {
        mb.push(r.clone()).unwrap();
    }
    let mut mb = mb.authority();
    for r in authority {
        mb.push(r.clone()).unwrap();
    }
    let v = mb.finish();
    Message::from_octets(Bytes::from(v)).unwrap()
}

#[derive(Clone, Default)]
struct Upstream {
    map: Arc<Mutex<HashMap<(Name<Bytes>, Rtype), Message<Bytes>>>>,
    log: Arc<Mutex<Vec<(Name<Bytes>, Rtype)>>>,
}

impl Upstream {
    fn set(&self, m: Message<Bytes>) {
        let q = m.sole_question().unwrap();
        let key = (q.qname().to_name::<Bytes>(), q.qtype());
        self.map.lock().unwrap().insert(key, m);
    }
}

#[derive(Debug)]
struct Resp(Option<Result<Message<Bytes>, Error>>);

impl GetResponse for Resp {
    fn get_response(
        &mut self,
    ) -> Pin<
        Box<
            dyn Future<Output = Result<Message<Bytes>, Error>>
                + Send
                + Sync
                + '_,
        >,
    > {
        Box::pin(std::future::ready(self.0.take().unwrap()))
    }
}

impl SendRequest<RequestMessage<Vec<u8>>> for Upstream {
    fn send_request(
        &self,
        request_msg: RequestMessage<Vec<u8>>,
    ) -> Box<dyn GetResponse + Send + Sync> {
        let m = request_msg.to_message().unwrap();
        let q = m.sole_question().unwrap();
        let key = (q.qname().to_name::<Bytes>(), q.qtype());
        self.log.lock().unwrap().push(key.clone());
        let resp = match self.map.lock().unwrap().get(&key) {
            Some(m) => m.clone(),
            None => msg(
                &format!("{}", key.0),
                key.1,
                Rcode::NOERROR,
                &[],
                &[],
            ),
        };
        Box::new(Resp(Some(Ok(resp))))
    }
}

async fn validate(
    vc: &ValidationContext<Upstream>,
    m: &Message<Bytes>,
) -> ValidationState {
    let mut m = m.clone();
    let (state, _ede) =
        vc.validate_msg::<Bytes, Vec<u8>>(&mut m).await.unwrap();
    state
}

/// Standard hierarchy: . (anchor) -> test. -> example.test. (secure),
/// insecure.test. (insecure delegation, NSEC).
struct World {
    root: Zone,
    test: Zone,
    example: Zone,
    up: Upstream,
}

impl World {
    fn new() -> Self {
        let root = Zone::new(".");
        let test = Zone::new("test.");
        let example = Zone::new("example.test.");
        let up = Upstream::default();
        up.set(root.dnskey_response());
        up.set(root.ds_response(&test));
        up.set(test.dnskey_response());
        up.set(test.ds_response(&example));
        up.set(example.dnskey_response());
        up.set(test.nods_response(
            "insecure.test.",
            "zzz.test.",
            &[Rtype::NS, Rtype::RRSIG, Rtype::NSEC],
        ));
        World {
            root,
            test,
            example,
            up,
        }
    }

    fn vc(&self) -> ValidationContext<Upstream> {
        ValidationContext::new(self.root.anchor(), self.up.clone())
    }
}

/// Build the complete NSEC3 chain for a zone from its names.
fn nsec3_chain(zone: &str, names: &[(&str, &[Rtype])], flags: u8) -> Vec<(String, Rec)> {
    let mut v: Vec<(OwnerHash<Bytes>, String, Vec<Rtype>)> = names
        .iter()
        .map(|(name, t)| (n3hash(name), name.to_string(), t.to_vec()))
        .collect();
    v.sort_by(|x, y| x.0.as_slice().cmp(y.0.as_slice()));
    let len = v.len();
    (0..len)
        .map(|i| {
            let next = &v[(i + 1) % len].0;
            (v[i].1.clone(), nsec3_raw(zone, &v[i].0, next, flags, &v[i].2))
        })
        .collect()
}


struct N3World {
    w: World,
    n3: Zone,
    chain: Vec<(String, Rec)>,
}

impl N3World {
    fn rec_for(&self, name: &str) -> Rec {
        self.chain.iter().find(|(nm, _)| nm == name).unwrap().1.clone()
    }
}


fn n3world(names: &[(&str, &[Rtype])]) -> N3World {
    let w = World::new();
    let n3 = Zone::new("n3.test.");
    w.up.set(w.test.ds_response(&n3));
    w.up.set(n3.dnskey_response());
    let chain = nsec3_chain("n3.test.", names, 0);
    N3World { w, n3, chain }
}

const APEX_TYPES: &[Rtype] = &[Rtype::SOA, Rtype::NS, Rtype::DNSKEY, Rtype::RRSIG, Rtype::NSEC3PARAM];
const A_TYPES: &[Rtype] = &[Rtype::A, Rtype::RRSIG];

//------------ tests ----------------------------------------------------------

#[tokio::test]
async fn sanity_secure_insecure_bogus() {
    let w = World::new();
    let vc = w.vc();
    let rr = a("www.example.test.", [192, 0, 2, 1]);
    let m = msg(
        "www.example.test.",
        Rtype::A,
        Rcode::NOERROR,
        &w.example.signed(&[rr.clone()]),
        &[],
    );
    assert_eq!(validate(&vc, &m).await, ValidationState::Secure);

    // unsigned in secure zone
    let m = msg("www.example.test.", Rtype::A, Rcode::NOERROR, &[rr], &[]);
    assert_eq!(validate(&vc, &m).await, ValidationState::Bogus);

    // insecure delegation
    let rr = a("www.insecure.test.", [192, 0, 2, 1]);
    let m = msg("www.insecure.test.", Rtype::A, Rcode::NOERROR, &[rr], &[]);
    assert_eq!(validate(&vc, &m).await, ValidationState::Insecure);

    // expired
    let rr = a("old.example.test.", [192, 0, 2, 1]);
    let m = msg(
        "old.example.test.",
        Rtype::A,
        Rcode::NOERROR,
        &w.example.signed_opts(
            &[rr],
            SigOpts {
                labels: None,
                inception: now() - 7200,
                expiration: now() - 3600,
            },
        ),
        &[],
    );
    assert_eq!(validate(&vc, &m).await, ValidationState::Bogus);
}

/// P-A: DNSKEY RRset of the trust anchor arrives with TTL 0.
#[tokio::test]
async fn pa_dnskey_ttl_zero_no_panic() {
    let w = World::new();
    let rr = w.root.dnskey_rec(0);
    w.up.set(msg(".", Rtype::DNSKEY, Rcode::NOERROR, &w.root.signed(&[rr]), &[]));
    let vc = w.vc();
    let rr = a("www.example.test.", [192, 0, 2, 1]);
    let m = msg("www.example.test.", Rtype::A, Rcode::NOERROR, &w.example.signed(&[rr]), &[]);
    let st = validate(&vc, &m).await;
    assert_eq!(st, ValidationState::Secure);
}

/// P-A2: DS RRset of a child arrives with TTL 0.
#[tokio::test]
async fn pa2_ds_ttl_zero_no_panic() {
    let w = World::new();
    let mut ds = w.example.ds_rec();
    ds.set_ttl(Ttl::from_secs(0));
    w.up.set(msg("example.test.", Rtype::DS, Rcode::NOERROR, &w.test.signed(&[ds]), &[]));
    let vc = w.vc();
    let rr = a("www.example.test.", [192, 0, 2, 1]);
    let m = msg("www.example.test.", Rtype::A, Rcode::NOERROR, &w.example.signed(&[rr]), &[]);
    let st = validate(&vc, &m).await;
    assert_eq!(st, ValidationState::Secure);
}

/// P-B: signature validated once stays valid after it expired.
#[tokio::test]
async fn pb_expired_signature_after_cache() {
    let w = World::new();
    let vc = w.vc();
    let rr = a("www.example.test.", [192, 0, 2, 1]);
    let m = msg(
        "www.example.test.",
        Rtype::A,
        Rcode::NOERROR,
        &w.example.signed_opts(&[rr], SigOpts { labels: None, inception: now() - 3600, expiration: now() + 2 }),
        &[],
    );
    assert_eq!(validate(&vc, &m).await, ValidationState::Secure);
    tokio::time::sleep(std::time::Duration::from_secs(4)).await;
    assert_eq!(validate(&vc, &m).await, ValidationState::Bogus);
}

/// P-B2: signature not yet valid, seen once, stays bogus after inception.
#[tokio::test]
async fn pb2_not_yet_valid_signature_after_cache() {
    let w = World::new();
    let vc = w.vc();
    let rr = a("www.example.test.", [192, 0, 2, 1]);
    let m = msg(
        "www.example.test.",
        Rtype::A,
        Rcode::NOERROR,
        &w.example.signed_opts(&[rr], SigOpts { labels: None, inception: now() + 2, expiration: now() + 3600 }),
        &[],
    );
    assert_eq!(validate(&vc, &m).await, ValidationState::Bogus);
    tokio::time::sleep(std::time::Duration::from_secs(4)).await;
    assert_eq!(validate(&vc, &m).await, ValidationState::Secure);
}

/// P-C: two secure delegations below an empty non-terminal.
#[tokio::test]
async fn pc_two_delegations_below_ent() {
    let w = World::new();
    let za = Zone::new("a.b.test.");
    let zc = Zone::new("c.b.test.");
    // b.test. DS -> NODATA, ENT proof
    w.up.set(w.test.nods_response("aaa.test.", "a.b.test.", &[Rtype::A, Rtype::RRSIG, Rtype::NSEC]));
    // fix the question: nods_response uses name as qname; rebuild for b.test.
    {
        let mut auth = w.test.signed(&[soa("test.")]);
        auth.extend(w.test.signed(&[nsec("aaa.test.", "a.b.test.", &[Rtype::A, Rtype::RRSIG, Rtype::NSEC])]));
        w.up.set(msg("b.test.", Rtype::DS, Rcode::NOERROR, &[], &auth));
    }
    w.up.set(w.test.ds_response(&za));
    w.up.set(w.test.ds_response(&zc));
    w.up.set(za.dnskey_response());
    w.up.set(zc.dnskey_response());
    let vc = w.vc();
    let rr = a("www.a.b.test.", [192, 0, 2, 1]);
    let m = msg("www.a.b.test.", Rtype::A, Rcode::NOERROR, &za.signed(&[rr]), &[]);
    assert_eq!(validate(&vc, &m).await, ValidationState::Secure);
    let rr = a("www.c.b.test.", [192, 0, 2, 1]);
    let m = msg("www.c.b.test.", Rtype::A, Rcode::NOERROR, &zc.signed(&[rr]), &[]);
    assert_eq!(validate(&vc, &m).await, ValidationState::Secure);
}

/// P-C2: fresh context, only the second delegation (control).
#[tokio::test]
async fn pc2_control_single_delegation_below_ent() {
    let w = World::new();
    let zc = Zone::new("c.b.test.");
    {
        let mut auth = w.test.signed(&[soa("test.")]);
        auth.extend(w.test.signed(&[nsec("aaa.test.", "a.b.test.", &[Rtype::A, Rtype::RRSIG, Rtype::NSEC])]));
        w.up.set(msg("b.test.", Rtype::DS, Rcode::NOERROR, &[], &auth));
    }
    w.up.set(w.test.ds_response(&zc));
    w.up.set(zc.dnskey_response());
    let vc = w.vc();
    let rr = a("www.c.b.test.", [192, 0, 2, 1]);
    let m = msg("www.c.b.test.", Rtype::A, Rcode::NOERROR, &zc.signed(&[rr]), &[]);
    assert_eq!(validate(&vc, &m).await, ValidationState::Secure);
}

/// P-C3: insecure delegation below an ENT that is already cached.
#[tokio::test]
async fn pc3_insecure_delegation_below_cached_ent() {
    let w = World::new();
    let za = Zone::new("a.b.test.");
    {
        let mut auth = w.test.signed(&[soa("test.")]);
        auth.extend(w.test.signed(&[nsec("aaa.test.", "a.b.test.", &[Rtype::A, Rtype::RRSIG, Rtype::NSEC])]));
        w.up.set(msg("b.test.", Rtype::DS, Rcode::NOERROR, &[], &auth));
    }
    w.up.set(w.test.ds_response(&za));
    w.up.set(za.dnskey_response());
    w.up.set(w.test.nods_response("c.b.test.", "d.test.", &[Rtype::NS, Rtype::RRSIG, Rtype::NSEC]));
    // control: fresh context
    let vc = w.vc();
    let rr = a("www.c.b.test.", [192, 0, 2, 1]);
    let m2 = msg("www.c.b.test.", Rtype::A, Rcode::NOERROR, &[rr], &[]);
    assert_eq!(validate(&vc, &m2).await, ValidationState::Insecure);
    // now with the ENT cached first
    let vc = w.vc();
    let rr = a("www.a.b.test.", [192, 0, 2, 1]);
    let m = msg("www.a.b.test.", Rtype::A, Rcode::NOERROR, &za.signed(&[rr]), &[]);
    assert_eq!(validate(&vc, &m).await, ValidationState::Secure);
    assert_eq!(validate(&vc, &m2).await, ValidationState::Insecure);
}

/// P-D: query for the wildcard owner itself, which holds a CNAME.
#[tokio::test]
async fn pd_query_wildcard_cname_itself() {
    let w = World::new();
    let vc = w.vc();
    let mut ans = w.example.signed(&[cname("*.example.test.", "target.example.test.")]);
    ans.extend(w.example.signed(&[a("target.example.test.", [192, 0, 2, 7])]));
    let m = msg("*.example.test.", Rtype::A, Rcode::NOERROR, &ans, &[]);
    assert_eq!(validate(&vc, &m).await, ValidationState::Secure);
}

/// P-D2: control: query for the wildcard owner itself holding an A record.
#[tokio::test]
async fn pd2_query_wildcard_a_itself() {
    let w = World::new();
    let vc = w.vc();
    let ans = w.example.signed(&[a("*.example.test.", [192, 0, 2, 7])]);
    let m = msg("*.example.test.", Rtype::A, Rcode::NOERROR, &ans, &[]);
    assert_eq!(validate(&vc, &m).await, ValidationState::Secure);
}

/// P-E: RRset of a secure zone, real signature replaced by a fake RRSIG
/// naming an insecure zone as signer.
#[tokio::test]
async fn pe_fake_rrsig_insecure_signer() {
    let w = World::new();
    let vc = w.vc();
    let rr = a("www.example.test.", [6, 6, 6, 6]);
    let fake = Zone::new("insecure.test.");
    let m = msg("www.example.test.", Rtype::A, Rcode::NOERROR, &fake.signed(&[rr]), &[]);
    assert_eq!(validate(&vc, &m).await, ValidationState::Bogus);
}

/// P-F: secure answer plus an unrelated unsigned RRset in the answer section.
#[tokio::test]
async fn pf_extra_unsigned_rrset() {
    let w = World::new();
    let vc = w.vc();
    let mut ans = w.example.signed(&[a("www.example.test.", [192, 0, 2, 1])]);
    ans.push(a("evil.insecure.test.", [6, 6, 6, 6]));
    let m = msg("www.example.test.", Rtype::A, Rcode::NOERROR, &ans, &[]);
    assert_ne!(validate(&vc, &m).await, ValidationState::Secure);
}

/// P-S: empty NOERROR answer (no SOA) for a name below an insecure delegation.
#[tokio::test]
async fn ps_empty_nodata_below_insecure_delegation() {
    let w = World::new();
    let vc = w.vc();
    let m = msg("www.insecure.test.", Rtype::AAAA, Rcode::NOERROR, &[], &[]);
    assert_eq!(validate(&vc, &m).await, ValidationState::Insecure);
}

/// P-S2: NXDOMAIN with unsigned SOA below an insecure delegation (control).
#[tokio::test]
async fn ps2_nxdomain_with_soa_below_insecure_delegation() {
    let w = World::new();
    let vc = w.vc();
    let m = msg("nx.insecure.test.", Rtype::A, Rcode::NXDOMAIN, &[], &[soa("insecure.test.")]);
    assert_eq!(validate(&vc, &m).await, ValidationState::Insecure);
}
