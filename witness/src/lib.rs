//! Compile-fail witnesses (see Cargo.toml).  Nothing here is ever executed:
//! every example is `no_run` or must not compile.

/// C03 — the constructors that skip validation are `unsafe fn`: safe code
/// cannot call them.
///
/// ```compile_fail,E0133
/// use domain::base::name::Name;
/// let _ = Name::<Vec<u8>>::from_octets_unchecked(vec![3, b'w', b'w']);
/// ```
///
/// ```no_run
/// use domain::base::name::Name;
/// let _ = unsafe { Name::<Vec<u8>>::from_octets_unchecked(vec![0]) };
/// ```
pub struct C03NameUnchecked;

/// ```compile_fail,E0133
/// use domain::base::name::RelativeName;
/// let _ = RelativeName::<Vec<u8>>::from_octets_unchecked(vec![3, b'w', b'w']);
/// ```
///
/// ```no_run
/// use domain::base::name::RelativeName;
/// let _ = unsafe { RelativeName::<Vec<u8>>::from_octets_unchecked(vec![]) };
/// ```
pub struct C03RelativeNameUnchecked;

/// (`Label::from_slice_unchecked` is not even visible outside the name module.)
///
/// ```compile_fail,E0624
/// use domain::base::name::Label;
/// let _ = unsafe { Label::from_slice_unchecked(&[0u8; 70]) };
/// ```
///
/// ```no_run
/// use domain::base::name::Label;
/// let _ = Label::from_slice(b"www");
/// ```
pub struct C03LabelUnchecked;

/// ```compile_fail,E0133
/// use domain::base::charstr::CharStr;
/// let _ = CharStr::<Vec<u8>>::from_octets_unchecked(vec![0u8; 300]);
/// ```
///
/// ```no_run
/// use domain::base::charstr::CharStr;
/// let _ = unsafe { CharStr::<Vec<u8>>::from_octets_unchecked(vec![0u8; 3]) };
/// ```
pub struct C03CharStrUnchecked;

/// C03 — the octets of a name cannot be reached mutably through the safe API
/// (there is no `AsMut<[u8]>` / `as_mut_slice`): a valid name stays valid.
///
/// ```compile_fail,E0599
/// use domain::base::name::Name;
/// use std::str::FromStr;
/// let mut name = Name::<Vec<u8>>::from_str("www.example.com.").unwrap();
/// name.as_mut_slice()[0] = 0;
/// ```
///
/// ```no_run
/// use domain::base::name::Name;
/// use std::str::FromStr;
/// let name = Name::<Vec<u8>>::from_str("www.example.com.").unwrap();
/// let _ = name.as_slice()[0];
/// ```
pub struct C03NameOctetsNotMutable;

/// C02 — sections are typestates: a question cannot be pushed where records
/// go, and a builder that was turned into the next section is gone.
///
/// ```compile_fail,E0277
/// use domain::base::{MessageBuilder, Name, Question, Rtype};
/// let mut answer = MessageBuilder::new_vec().answer();
/// answer.push(Question::new_in(Name::root_ref(), Rtype::A)).unwrap();
/// ```
///
/// ```no_run
/// use domain::base::{MessageBuilder, Name, Question, Rtype};
/// let mut question = MessageBuilder::new_vec().question();
/// question.push(Question::new_in(Name::root_ref(), Rtype::A)).unwrap();
/// ```
pub struct C02QuestionIntoAnswerSection;

/// ```compile_fail,E0382
/// use domain::base::{MessageBuilder, Name, Question, Rtype};
/// let mut question = MessageBuilder::new_vec().question();
/// let answer = question.answer();
/// question.push(Question::new_in(Name::root_ref(), Rtype::A)).unwrap();
/// drop(answer);
/// ```
///
/// ```no_run
/// use domain::base::{MessageBuilder, Name, Question, Rtype};
/// let mut question = MessageBuilder::new_vec().question();
/// question.push(Question::new_in(Name::root_ref(), Rtype::A)).unwrap();
/// let answer = question.answer();
/// drop(answer);
/// ```
pub struct C02SectionBuilderConsumed;

/// C09 — a reader has no way to change the zone.
///
/// ```compile_fail,E0599
/// use domain::base::iana::Class;
/// use domain::base::name::Name;
/// use domain::zonetree::ZoneBuilder;
/// use std::str::FromStr;
/// let zone = ZoneBuilder::new(Name::from_str("example.com").unwrap(), Class::IN).build();
/// let reader = zone.read();
/// let _ = reader.open(false);
/// ```
///
/// ```no_run
/// use domain::base::iana::{Class, Rtype};
/// use domain::base::name::Name;
/// use domain::zonetree::ZoneBuilder;
/// use std::str::FromStr;
/// let zone = ZoneBuilder::new(Name::from_str("example.com").unwrap(), Class::IN).build();
/// let reader = zone.read();
/// let _ = reader.query(Name::<bytes::Bytes>::from_str("example.com").unwrap(), Rtype::SOA);
/// ```
pub struct C09ReaderCannotWrite;
