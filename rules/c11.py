"""C11 — TSIG (structural clauses).

C11.verify  every verification function reaches its success effects
            (remove_tsig / Ok) only through the success edges of: TSIG
            extraction + key check, MAC comparison, time check.
C11.digest  the octets fed to the MAC are the header copy with the original
            ID restored and ARCOUNT decremented, followed by the message up to
            the TSIG record; the MAC compared is the record's MAC.
C11.cmp     Key::compare_signatures: truncation floor is min_mac_len, the
            only byte comparison is constant-time, BadTrunc/BadSig mapping.
C11.pos     MessageTsig::from_message: TSIG must be last and unique.
C11.run     unsigned-run counter: guarded increment (< 100), reset on a signed
            message, checked by done().
C11.width   the TSIG variables fed to the digest have the wire widths
            (other data: announced Other Len == octets fed).
C11.alg     Algorithm::from_name answers Some only for a name of exactly one
            label followed by the root (or by comparison with a whole name).
C11.prime   in server_request every use of the signing context after the MAC
            check -- the signed BADTIME error as well as the context handed
            back -- comes after the request MAC was fed into it.
C11.time48  Time48::into_octets puts bits 47-8i..40-8i of the value into octet
            i (per-octet stores or to_be_bytes copies); from_slice reads the
            same layout.
C11.vars    CLASS and TTL of the TSIG record are signed TSIG variables
            (RFC 8945 4.3.3).  The digest feeds the constants ANY and 0 rather
            than the record's fields, so extraction must insist that the
            record carries exactly those values -- otherwise six octets of a
            signed message can be altered without the MAC check noticing.
C11.panic   no unwrap/expect in the TSIG module on something read from a
            message (TSIG extraction, parsing): a request that was *rejected*
            for a missing, misplaced or malformed TSIG record must still get
            its error response built.
C11.err     verification errors map to the RCODEs of RFC 8945 5.2/5.3 with
            explicit arms for every variant the callee can return.
"""
import re

from mirlib import BranchFacts, strip, deep_strip, show, walk, const_value
from rulelib import (
    bool_facts, facts_at, failed_calls, fmt_path, must_pass, outcome_facts, return_assignments,
    succeeded_calls, underlying_calls, _norm_fact,
)

T = "tsig::"

VERIFIERS = [
    # (body regex, name, MAC-computing callee regex, server?)
    (r"^tsig::ClientTransaction::<K>::answer$", "ClientTransaction::answer", r"SigningContext::<K>::answer$", False),
    (r"^tsig::ClientSequence::<K>::answer_first$", "ClientSequence::answer_first", r"SigningContext::<K>::first_answer$", False),
    (r"^tsig::ClientSequence::<K>::answer_subsequent$", "ClientSequence::answer_subsequent", r"SigningContext::<K>::signed_subsequent$", False),
    (r"^tsig::SigningContext::<K>::server_request$", "SigningContext::server_request", r"SigningContext::<K>::request$", True),
]


def run(ctx):
    F = ctx.facts
    ctx.extra["explanation"] = (
        "C11: guard-table dominance of every TSIG verification path (client single/sequence, server), "
        "provenance of the digested octets (original ID restored, ARCOUNT-1, message up to the TSIG), "
        "truncation floor field and constant-time compare, last-and-unique TSIG, unsigned-run counter, "
        "digest field widths vs wire widths, error-variant to RCODE coverage. MAC values, rejection of "
        "every possible mutation and multi-message chaining values are not decided."
    )
    rule_verify(ctx, F)
    rule_cmp(ctx, F)
    rule_pos(ctx, F)
    rule_run(ctx, F)
    rule_width(ctx, F)
    rule_err(ctx, F)
    rule_fudge(ctx, F)
    rule_canon(ctx, F)
    rule_chain(ctx, F)
    rule_panic(ctx, F)
    rule_vars(ctx, F)
    rule_alg(ctx, F)
    rule_prime(ctx, F)
    rule_time48(ctx, F)
    rule_other(ctx, F)
    rule_first(ctx, F)
    rule_reset(ctx, F)
    rule_macfirst(ctx, F)
    rule_restoreid(ctx, F)


def _calls(b, rx):
    return b.calls_matching(rx)


def rule_verify(ctx, F):
    R = "C11.verify"
    RD = "C11.digest"
    ctx.floor(R, 12)
    ctx.floor(RD, 16)
    for rx, nm, mac_rx, server in VERIFIERS:
        b = F.one_body(rx)
        if not ctx.anchor(R, nm, b):
            continue
        cmpc = _calls(b, r"tsig::Key::compare_signatures$")
        macc = _calls(b, mac_rx)
        rem = _calls(b, r"^tsig::remove_tsig$")
        if not (ctx.anchor(R, "%s: compare_signatures call" % nm, len(cmpc) == 1, b.where())
                and ctx.anchor(R, "%s: MAC computation call" % nm, len(macc) == 1, b.where())
                and ctx.anchor(R, "%s: remove_tsig call" % nm, len(rem) == 1, b.where())):
            continue
        cbb, ct = cmpc[0]
        mbb, mt = macc[0]
        rbb, rt = rem[0]
        # success effects: remove_tsig and the Ok return that follows it
        oks = [r for r in return_assignments(b) if r[2] == "Ok" and rbb in b.reach_from(0) and b.dominates(rbb, r[0])]
        ctx.anchor(R, "%s: Ok return after remove_tsig" % nm, len(oks) >= 1, b.where())
        sites = [("remove_tsig", rbb)] + [("Ok", r[0]) for r in oks]
        for sname, sbb in sites:
            succ = succeeded_calls(b, sbb, F)
            # MAC comparison checked
            if server:
                # `if let Err(err) = res { return Err(..) }` : the site is dominated by the non-Err edge
                okc = cbb in succ
            else:
                okc = cbb in succ
            ctx.ob(R, b, "%s after MAC check" % sname, okc,
                   "%s reaches %s without passing the success edge of compare_signatures: a message with a wrong "
                   "MAC would be accepted" % (nm, sname), b.where(sbb))
            # time check
            if server:
                tv = [bb for bb, t in b.calls() if (t["fn"] or "").endswith("Tsig::<Octs, Name>::is_valid_at")]
                okt = False
                for tt, vv in bool_facts(b, sbb, F):
                    if tt[0] == "call" and (tt[1] or "").endswith("is_valid_at") and vv is True:
                        okt = True
            else:
                tc = _calls(b, r"SigningContext::<K>::check_answer_time$")
                okt = len(tc) == 1 and tc[0][0] in succ
            ctx.ob(R, b, "%s after time check" % sname, okt,
                   "%s reaches %s without a successful time-window check" % (nm, sname), b.where(sbb))
            # key check
            if server:
                ok_key = any((t["fn"] or "").endswith("KeyStore::get_key") and bb in succ for bb, t in b.calls()) and \
                    any((t["fn"] or "").endswith("Algorithm::from_name") and bb in succ for bb, t in b.calls())
            else:
                gt = _calls(b, r"SigningContext::<K>::get_answer_tsig$")
                ok_key = len(gt) == 1 and gt[0][0] in succ
            ctx.ob(R, b, "%s after key/TSIG extraction" % sname, ok_key,
                   "%s reaches %s without a successful TSIG extraction and key check" % (nm, sname), b.where(sbb))
        # --- digest provenance
        hs = _calls(b, r"Message::<Octs>::header_section$")
        if not ctx.anchor(RD, "%s: header_section copy" % nm, len(hs) == 1, b.where()):
            continue
        hdr_local = hs[0][1]["dest"][0]

        def on_header(term):
            return any(s == ("call",) + s[1:] and s[0] == "call" and s[5] == hs[0][0] for s in walk(term)) or \
                any(s[0] in ("local", "phi") and s[1] == hdr_local for s in walk(term))
        sid = [(bb, t) for bb, t in b.calls() if (t["fn"] or "").endswith("Header::set_id")]
        ok_id = False
        for bb, t in sid:
            recv = b.term_of_operand(t["args"][0])
            val = deep_strip(b.term_of_operand(t["args"][1]))
            if on_header(recv) and val[0] == "call" and (val[1] or "").endswith("original_id") and b.dominates(bb, mbb):
                ok_id = True
        ctx.ob(RD, b, "original ID restored in the digested header", ok_id,
               "%s computes the MAC over a header whose ID was not replaced by the TSIG original ID: a tampered "
               "original-ID field (or a forwarder-rewritten message ID) is not detected / honest messages fail" % nm,
               b.where(mbb))
        dec = [(bb, t) for bb, t in b.calls() if (t["fn"] or "").endswith("HeaderCounts::dec_arcount")]
        ok_dec = any(on_header(b.term_of_operand(t["args"][0])) and b.dominates(bb, mbb) for bb, t in dec)
        ctx.ob(RD, b, "ARCOUNT decremented in the digested header", ok_dec,
               "%s computes the MAC over a header that still counts the TSIG record" % nm, b.where(mbb))
        # MAC call arguments: header.as_slice(), Some(&message.as_slice()[HDR..tsig.start]), &tsig.variables()
        margs = [b.term_of_operand(a) for a in mt["args"]]
        hi = 1 if not server else 1
        ok_h = any(on_header(a) for a in margs[:3])
        ctx.ob(RD, b, "digest starts with the adjusted header copy", ok_h,
               "%s does not feed the adjusted header copy to the MAC computation" % nm, b.where(mbb))
        body = [a for a in margs if any(s[0] == "call" and (s[1] or "").endswith("Index<I> for [T]>::index") or
                                        (s[0] == "call" and "index" in (s[1] or "")) for s in walk(a))]
        ok_b = False
        for a in body:
            for s in walk(a):
                if s[0] == "agg" and len(s[1]) > 1 and str(s[1][1]).endswith("::Range") and len(s[2]) == 2:
                    lo, hi_ = deep_strip(s[2][0]), deep_strip(s[2][1])
                    lo_ok = (lo[0] == "call" and "size_of" in (lo[1] or "")) or const_value(lo) == 12
                    hi_ok = hi_[0] == "field" and hi_[2] == "start"
                    ok_b = ok_b or (lo_ok and hi_ok)
        ctx.ob(RD, b, "digest body = message[12 .. tsig.start]", ok_b,
               "%s must sign the message octets between the header and the start of the TSIG record" % nm, b.where(mbb))
        # compared MAC = the record's MAC, expected = the computed signature
        cargs = [deep_strip(b.term_of_operand(a)) for a in ct["args"]]
        exp_ok = any(s[0] == "call" and s[5] == mbb for s in walk(cargs[1])) or any(
            s[0] in ("local", "phi") for s in walk(cargs[1]))
        prov_ok = any(s[0] == "call" and (s[1] or "").endswith("::mac") for s in walk(cargs[2]))
        ctx.ob(RD, b, "compares the computed MAC with the record's MAC", exp_ok and prov_ok,
               "%s: compare_signatures(expected=%s, provided=%s)" % (nm, show(cargs[1])[:60], show(cargs[2])[:60]), b.where(cbb))


def rule_cmp(ctx, F):
    R = "C11.cmp"
    ctx.floor(R, 4)
    b = F.one_body(r"^tsig::Key::compare_signatures$")
    if not ctx.anchor(R, "Key::compare_signatures", b):
        return
    oks = [r for r in return_assignments(b) if r[2] == "Ok"]
    ctx.anchor(R, "Ok return of compare_signatures", len(oks) == 1, b.where())
    for rb, si, kind, term in oks:
        floor_ok = False
        ct_ok = False
        for tt, vv in bool_facts(b, rb, F):
            if tt[0] == "bin" and tt[1] in ("Lt", "Ge"):
                l, r_ = deep_strip(tt[2]), deep_strip(tt[3])
                if l[0] == "call" and (l[1] or "").endswith("::len") and deep_strip(l[3][0]) == ("arg", 3):
                    if r_ == ("field", ("arg", 1), "min_mac_len") and ((tt[1] == "Lt" and vv is False) or (tt[1] == "Ge" and vv is True)):
                        floor_ok = True
            if tt[0] == "call" and (tt[1] or "").endswith("constant_time_eq") and vv is True:
                a = [deep_strip(x) for x in tt[3]]
                if any(x == ("arg", 3) for x in a):
                    ct_ok = True
        ctx.ob(R, b, "MAC length >= key.min_mac_len", floor_ok,
               "compare_signatures must reject a provided MAC shorter than the key's configured minimum "
               "(RFC 8945 5.2.2.1 truncation policy) -- the floor must be self.min_mac_len", b.where(rb))
        ctx.ob(R, b, "constant-time equality of expected and provided", ct_ok,
               "Ok must be dominated by constant_time_eq(expected, provided) == true", b.where(rb))
    # no other byte comparison of the provided MAC
    other = [t["fn"] for _, t in b.calls() if t["fn"] and re.search(r"PartialEq.*::eq$|::cmp$|::starts_with$|SlicePartialEq", t["fn"])]
    ctx.ob(R, b, "no data-dependent comparison", not other, "non-constant-time comparison of MAC octets: %s" % other)
    # error variants
    errs = []
    for rb, si, kind, term in return_assignments(b):
        if kind == "Err" and term is not None:
            for s in walk(term):
                if s[0] == "agg" and s[1][0] == "adt" and s[1][1].endswith("ValidationError"):
                    errs.append(s[1][2])
    ctx.ob(R, b, "failure variants are BadTrunc and BadSig", sorted(errs) == ["BadSig", "BadTrunc"],
           "compare_signatures returns %s" % sorted(errs))


def rule_pos(ctx, F):
    R = "C11.pos"
    ctx.floor(R, 2)
    b = F.one_body(r"^tsig::MessageTsig::<'a, Octs>::from_message$")
    if not ctx.anchor(R, "MessageTsig::from_message", b):
        return
    oks = [r for r in return_assignments(b) if r[2] == "Ok"]
    ctx.anchor(R, "Ok return of from_message", len(oks) == 1, b.where())
    for rb, si, kind, term in oks:
        last = False
        for tt, vv in bool_facts(b, rb, F):
            if tt[0] == "call" and (tt[1] or "").endswith("is_some") and vv is False:
                inner = deep_strip(tt[3][0])
                if inner[0] == "call" and (inner[1] or "").endswith("Iterator::next"):
                    last = True
        for subj, o in outcome_facts(b, rb, F):
            s = deep_strip(subj)
            if o == "failure" and s[0] == "call" and (s[1] or "").endswith("Iterator::next"):
                last = True
        ctx.ob(R, b, "no record follows the TSIG", last,
               "from_message returns the TSIG without checking that it is the last additional record (RFC 8945 5.2: "
               "a TSIG in any other position or a second TSIG must be rejected)", b.where(rb))
    errs = set()
    for rb, si, kind, term in return_assignments(b):
        if kind == "Err" and term is not None:
            for s in walk(term):
                if s[0] == "agg" and s[1][0] == "adt" and s[1][1].endswith("TsigError"):
                    errs.add(s[1][2])
    ctx.ob(R, b, "Position and Missing are distinguished", {"Position", "Missing"} <= errs,
           "from_message error variants: %s" % sorted(errs))


def rule_run(ctx, F):
    R = "C11.run"
    ctx.floor(R, 4)
    b = F.one_body(r"^tsig::ClientSequence::<K>::answer_subsequent$")
    if not ctx.anchor(R, "ClientSequence::answer_subsequent", b):
        return
    incs = []
    resets = []
    for bi in b.reachable_blocks():
        for st in b.blocks[bi]["s"]:
            if st[0] == "=" and len(st[1]) > 1 and deep_strip(b.term_of_place(st[1])) == ("field", ("arg", 1), "unsigned"):
                v = deep_strip(b.term_of_rvalue(st[2]))
                if const_value(v) == 0:
                    resets.append(bi)
                elif v[0] == "bin" and v[1] == "Add" and const_value(v[3]) == 1:
                    incs.append(bi)
    ctx.ob(R, b, "one guarded increment", len(incs) == 1, "expected exactly one `self.unsigned += 1`, found %d" % len(incs))
    for bi in incs:
        cap = None
        for tt, vv in bool_facts(b, bi, F):
            if tt[0] == "bin" and deep_strip(tt[2]) == ("field", ("arg", 1), "unsigned") and const_value(tt[3]) is not None:
                k = const_value(tt[3])
                if (tt[1] == "Lt" and vv) or (tt[1] == "Ge" and not vv):
                    cap = k
                elif (tt[1] == "Le" and vv) or (tt[1] == "Gt" and not vv):
                    cap = k + 1
        ctx.ob(R, b, "at most 99 consecutive unsigned messages", cap is not None and cap <= 99,
               "RFC 8945 5.3.1: at most 99 intermediary messages may be unsigned; the counter is incremented while "
               "unsigned < %s" % cap, b.where(bi))
        # the unsigned branch is the one without a TSIG
        ok = False
        for subj, o in outcome_facts(b, bi, F):
            s = deep_strip(subj)
            if o == "failure" or o == ("variant", "None"):
                ok = True
        ctx.ob(R, b, "increment only when no TSIG is present", ok, "unsigned counter incremented on a signed message", b.where(bi))
    rem = b.calls_matching(r"^tsig::remove_tsig$")
    ok = bool(resets) and bool(rem) and any(b.dominates(r, rem[0][0]) or b.dominates(rem[0][0], r) for r in resets)
    ctx.ob(R, b, "reset on a verified signed message", ok, "a signed message must reset the unsigned-run counter")
    d = F.one_body(r"^tsig::ClientSequence::<K>::done$")
    if ctx.anchor(R, "ClientSequence::done", d):
        reads = any(deep_strip(d.term_of_operand(d.blocks[bi]["t"]["d"])) != () and "unsigned" in show(deep_strip(d.term_of_operand(d.blocks[bi]["t"]["d"])))
                    for bi in d.reachable_blocks() if d.blocks[bi]["t"]["k"] == "switch")
        errs = [r for r in return_assignments(d) if r[2] == "Err"]
        ctx.ob(R, d, "done() fails when the sequence ends unsigned", reads and bool(errs),
               "ClientSequence::done must reject a sequence whose last message(s) were unsigned")


def _array_width(term):
    """N for a value coerced from &[u8; N] to &[u8]"""
    t = term
    for _ in range(6):
        if t[0] == "cast" and t[1] == "PointerCoercion":
            m = re.search(r"\[u8; (\d+)\]", t[4])
            if m:
                return int(m.group(1))
            t = t[2]
        elif t[0] in ("ref", "deref"):
            t = t[1]
        else:
            break
    return None


def rule_width(ctx, F):
    R = "C11.width"
    ctx.floor(R, 4)
    b = F.one_body(r"^tsig::Variables::sign$")
    if not ctx.anchor(R, "Variables::sign", b):
        return
    ups = []
    for bb, t in b.calls():
        if (t["fn"] or "").endswith("hmac::Context::update"):
            term = b.term_of_operand(t["args"][1])
            w = _array_width(term)
            ds = deep_strip(term)
            ups.append((bb, w, ds))
    # announced Other Len constants and the other-data update
    other_some = None
    for sw in b.reachable_blocks():
        t = b.blocks[sw]["t"]
        if t["k"] != "switch":
            continue
    announced = []
    other_w = []
    for bb, w, ds in ups:
        facts = outcome_facts(b, bb, F)
        on_some = any((o == "success" or o is True) and "other" in show(deep_strip(s)) for s, o in facts)
        if w == 2 and ds[0] == "call" and (ds[1] or "").endswith("to_be_bytes") and const_value(ds[3][0]) is not None and on_some:
            announced.append(const_value(ds[3][0]))
        elif on_some and not (ds[0] == "call" and const_value(ds[3][0]) is not None if ds[0] == "call" and ds[3] else False):
            if w is not None and any(s[0] == "downcast" and s[2] == "Some" for s in walk(ds)):
                other_w.append(w)
    ctx.ob(R, b, "Other Len announced when other data is present", announced == [6],
           "RFC 8945 4.3.3: a BADTIME response carries 6 octets of other data; announced %s" % announced)
    ctx.ob(R, b, "other data octets fed == announced Other Len", bool(other_w) and bool(announced) and other_w == [announced[0]],
           "Variables::sign announces Other Len %s but feeds %s octets of other data to the MAC: the digest differs "
           "from the RFC 8945 computation (and from what is put on the wire)" % (announced, other_w))
    # fixed field widths: time signed 6, fudge 2, error 2, class 2, ttl 4
    widths = sorted(w for _, w, _ in ups if w is not None)
    want_min = [2, 2, 2, 2, 2, 4, 6]  # class, fudge, error, otherlen x2, ttl, time
    ok = all(widths.count(x) >= want_min.count(x) for x in set(want_min))
    ctx.ob(R, b, "fixed variable widths (class 2, ttl 4, time 6, fudge 2, error 2, other len 2)", ok,
           "widths of the constant-size digest inputs: %s" % widths)
    t48 = [ds for _, w, ds in ups if w == 6 and ds[0] == "call" and (ds[1] or "").endswith("Time48::into_octets")]
    ctx.ob(R, b, "time signed fed as its 6 wire octets", bool(t48), "time signed must be fed through Time48::into_octets")
    st = F.one_body(r"^tsig::Variables::sign_timers$")
    if ctx.anchor(R, "Variables::sign_timers", st):
        ws = sorted(w for w in (_array_width(st.term_of_operand(t["args"][1])) for _, t in st.calls()
                                if (t["fn"] or "").endswith("hmac::Context::update")) if w)
        ctx.ob(R, st, "timers-only digest: time 6 + fudge 2", ws == [2, 6], "sign_timers feeds widths %s" % ws)


RFC8945_RCODE = {"BadSig": "BADSIG", "BadTrunc": "BADTRUNC", "BadKey": "BADKEY", "BadTime": "BADTIME", "FormErr": "FORMERR"}


def rule_err(ctx, F):
    R = "C11.err"
    ctx.floor(R, 2)
    b = F.one_body(r"^tsig::SigningContext::<K>::server_request$")
    if not ctx.anchor(R, "SigningContext::server_request", b):
        return
    # variants compare_signatures can return
    cs = F.one_body(r"^tsig::Key::compare_signatures$")
    returnable = set()
    if cs is not None:
        for rb, si, kind, term in return_assignments(cs):
            if kind == "Err" and term is not None:
                for s in walk(term):
                    if s[0] == "agg" and s[1][0] == "adt" and s[1][1].endswith("ValidationError"):
                        returnable.add(s[1][2])
    ctx.anchor(R, "variants returnable by compare_signatures", len(returnable) >= 2)
    # the match on err: switch on discr of the Err payload
    mapping = {}
    default = None
    for sw in b.reachable_blocks():
        t = b.blocks[sw]["t"]
        if t["k"] != "switch" or t["ty"] == "bool":
            continue
        d = deep_strip(b.term_of_operand(t["d"]))
        if d[0] != "discr" or "ValidationError" not in (d[2] or ""):
            continue
        ef = BranchFacts(b, F).edge_facts(sw)
        for lab, (tt, vv) in ef.items():
            tgt = b.edge_target(sw, lab)
            # the RCODE constant assigned on that arm (first TsigRcode constant reached)
            code = _first_rcode(b, tgt)
            if isinstance(vv, tuple) and vv[0] == "variant":
                mapping[vv[1]] = code
            else:
                default = code
    if not ctx.anchor(R, "match on the ValidationError in server_request", bool(mapping) or default is not None, b.where()):
        return
    for v in sorted(returnable):
        want = RFC8945_RCODE.get(v)
        got = mapping.get(v, default)
        explicit = v in mapping
        ctx.ob(R, b, "%s -> %s" % (v, want), got == want,
               "a request whose MAC check fails with %s is answered with RCODE %s (%s arm); RFC 8945 5.2 requires %s"
               % (v, got, "explicit" if explicit else "wildcard", want))


RCODE_CONSTS = {16: "BADSIG", 17: "BADKEY", 18: "BADTIME", 22: "BADTRUNC", 1: "FORMERR", 0: "NOERROR", 9: "NOTAUTH"}


def _first_rcode(b, start):
    seen = set()
    work = [start]
    while work:
        x = work.pop(0)
        if x in seen:
            continue
        seen.add(x)
        for st in b.blocks[x]["s"]:
            if st[0] == "=":
                for o in _ops(st[2]):
                    if o[0] == "k" and o[3] and "TsigRcode::" in o[3]:
                        return o[3].split("::")[-1]
                    if o[0] == "k" and "TsigRcode" in o[1] and isinstance(o[2], int):
                        return RCODE_CONSTS.get(o[2], str(o[2]))
        t = b.blocks[x]["t"]
        for a in t.get("args") or []:
            if a[0] == "k" and a[3] and "TsigRcode::" in a[3]:
                return a[3].split("::")[-1]
            if a[0] == "k" and "TsigRcode" in a[1] and isinstance(a[2], int):
                return RCODE_CONSTS.get(a[2], str(a[2]))
        succ = [s for s, _ in b.succs(x)]
        if len(succ) == 1:
            work.append(succ[0])
    return None


def _ops(rv):
    k = rv[0]
    if k in ("use", "repeat"):
        return [rv[1]]
    if k == "cast":
        return [rv[2]]
    if k == "bin":
        return [rv[2], rv[3]]
    if k == "un":
        return [rv[2]]
    if k == "agg":
        return list(rv[2])
    return []


# ---------------------------------------------------------------------------
# the time window is two-sided
# ---------------------------------------------------------------------------

def _lin3(t):
    """term over (self.0, other.0, fudge) -> {S,O,F,1: coef} (saturating/wrapping/checked arithmetic read as exact)"""
    t = deep_strip(t)
    cv = const_value(t)
    if cv is not None:
        return {1: cv}
    if t[0] == "cast":
        return _lin3(t[2])
    if t[0] == "arg":
        return {"F": 1} if t[1] == 3 else None
    if t[0] == "field" and deep_strip(t[1])[0] == "arg" and str(t[2]) == "0":
        return {{1: "S", 2: "O"}.get(deep_strip(t[1])[1], "?"): 1}
    op = None
    a = b = None
    if t[0] == "bin" and t[1] in ("Add", "Sub", "AddWithOverflow", "SubWithOverflow"):
        op, a, b = ("+" if t[1].startswith("Add") else "-"), t[2], t[3]
    elif t[0] == "call" and t[1] and len(t[3]) == 2:
        m = re.search(r"::(saturating|wrapping|checked)_(add|sub)$", t[1])
        if m:
            op, a, b = ("+" if m.group(2) == "add" else "-"), t[3][0], t[3][1]
    if op is None:
        return None
    la, lb = _lin3(a), _lin3(b)
    if la is None or lb is None:
        return None
    out = dict(la)
    for k, v in lb.items():
        out[k] = out.get(k, 0) + (v if op == "+" else -v)
    return out


PANIC_ERR = re.compile(r"(tsig::TsigError|tsig::ValidationError|base::wire::ParseError|base::wire::FormError|octseq::(parse::)?ShortInput|ShortMessage)")
PANIC_AUDIT = {
}


def rule_panic(ctx, F):
    R = "C11.panic"
    n = 0
    scope = 0
    seen = {}
    for p, b in sorted(F.bodies.items()):
        if not b.file.startswith("src/tsig/") or "::test" in p:
            continue
        scope += 1
        for bi, t in b.calls():
            fn = t["fn"] or ""
            if not re.search(r"core::result::Result::<.*>::(unwrap|expect)$", fn) or len(t["targs"]) < 2:
                continue
            if not PANIC_ERR.search(t["targs"][1]):
                continue
            n += 1
            src = next((s for s in walk(deep_strip(b.term_of_operand(t["args"][0]))) if s[0] == "call"), None)
            sname = src[1].split("::")[-1] if src else "?"
            k = (p, sname)
            seen[k] = seen.get(k, 0) + 1
            ctx.ob(R, b, "unwrap of %s#%d" % (sname, seen[k]), (p.split("::")[-1], sname) in PANIC_AUDIT,
                   "%s unwraps the result of %s (error type %s), which is computed from the peer's message: a message that "
                   "makes it fail panics the caller instead of producing the error response"
                   % (p.split("::")[-1], sname, t["targs"][1].split("::")[-1]), b.where(bi),
                   detail=PANIC_AUDIT.get((p.split("::")[-1], sname)))
    ctx.ob(R, "tsig", "scanned", scope >= 40, "only %d bodies of the TSIG module found" % scope, nontrivial=False,
           detail="%d bodies of src/tsig scanned, %d unwrap/expect of message-derived results" % (scope, n))


def rule_vars(ctx, F):
    R = "C11.vars"
    ctx.floor(R, 2)
    sg = F.one_body(r"^tsig::Variables::sign$")
    fm = F.one_body(r"^tsig::MessageTsig::<'a, Octs>::from_message$")
    if not ctx.anchor(R, "Variables::sign and MessageTsig::from_message", sg is not None and fm is not None):
        return
    # what does the digest feed for CLASS and TTL?  constants, or something read from the record?
    fed = []
    for bb, t in sg.calls():
        if not (t["fn"] or "").endswith("Context::update") or len(t["args"]) < 2:
            continue
        s = show(deep_strip(sg.term_of_operand(t["args"][1])))
        fed.append(s)
    const_class = any(re.search(r"to_be_bytes\((Class::to_int\()?.*(255|ANY)", s) for s in fed)
    const_ttl = any(re.search(r"<impl u32>::to_be_bytes\(0\)", s) for s in fed)
    if not (const_class or const_ttl):
        ctx.ob(R, sg, "CLASS and TTL digested from the record", True, detail="no constant CLASS / TTL in Variables::sign")
        ctx.ob(R, sg, "(second obligation kept for the floor)", True, nontrivial=False)
        return
    oks = [r[0] for r in return_assignments(fm) if r[2] == "Ok"]
    if not ctx.anchor(R, "Ok return of from_message", bool(oks), fm.where()):
        return
    facts = []
    for bi in oks:
        for tt, v, _ in facts_at(fm, bi, F):
            facts.append((show(deep_strip(tt)), v))
    def checked(field, want):
        for s, v in facts:
            if re.search(r"Record::<.*>::%s\(|::%s\(" % (field, field), s) and isinstance(v, bool):
                return True
        return False
    # Other Data: the digest is fed `Option<Time48>` (6 octets or nothing), which MessageTsig::variables takes from
    # Tsig::other_time() -- None for every length but 6.  Unless the digest is fed the octets as they are, the extraction has
    # to refuse the lengths the digest cannot see.
    raw_other = any(re.search(r"Tsig::<.*>::other\(|::other\(", s) and "other_time" not in s for s in fed)
    if not raw_other:
        # the refusal: an Err return reached under a test of the Other Data's length against 6 (the accepting side has no
        # single dominating fact: `len == 0 || len == 6`)
        lens = []
        for r in return_assignments(fm):
            if r[2] != "Err":
                continue
            for tt, v, _ in facts_at(fm, r[0], F):
                s = show(deep_strip(tt))
                if re.search(r"::other\(", s) and re.search(r"len\(", s) and re.search(r"\b6\b", s):
                    lens.append((s, v))
        ctx.ob(R, fm, "extraction insists that Other Data is empty or a 6-octet time", bool(lens),
               "Variables::sign digests Other Len 0 whenever the TSIG record's Other Data is not exactly 6 octets long, and "
               "MessageTsig::from_message accepts any length: 1, 4, 5, 7 or 16 octets of Other Data can be added to a signed "
               "request or response without failing verification (RFC 8945 4.3.3 lists Other Len and Other Data among the "
               "signed variables)", fm.where(oks[0]))
    for field, is_const, what in (("class", const_class, "CLASS is ANY"), ("ttl", const_ttl, "TTL is 0")):
        if not is_const:
            continue
        ctx.ob(R, fm, "extraction insists that the record's %s" % what, checked(field, None),
               "Variables::sign digests a constant for the TSIG record's %s, and MessageTsig::from_message accepts any value in "
               "the record: the %s octets of a signed message can be altered without failing verification"
               % (field.upper(), field.upper()), fm.where(oks[0]))


def rule_alg(ctx, F):
    R = "C11.alg"
    ctx.floor(R, 3)
    bs = F.find_bodies(r"^tsig::Algorithm::from_name(::<.*>)?$")
    if not ctx.anchor(R, "Algorithm::from_name", len(bs) == 1):
        return
    b = bs[0]
    n = 0
    for bi, si, kind, term in return_assignments(b):
        if kind != "Some":
            continue
        n += 1
        root_seen = False
        whole = False
        for tt, v, _ in facts_at(b, bi, F):
            s = show(deep_strip(tt))
            if v is True and re.search(r"Label::is_root\(", s):
                root_seen = True
            if v is True and re.search(r"::(name_eq|eq)\(", s) and "arg1" in s and "iter_labels" not in s:
                whole = True
        if n == 1:
            import sigs
            names = {(tt["fn"] or "") for _, _, tt in sigs.callees_deep(F, b, depth=2)}
            fold = any(re.search(r"(eq_ignore_ascii_case|to_ascii_lowercase|make_ascii_lowercase|to_canonical|"
                                 r"label::Label as core::cmp::PartialEq|ToName::name_eq|composed_cmp|lowercase)", x) for x in names)
            ctx.ob(R, b, "the algorithm name is matched without regard to case", fold,
                   "Algorithm::from_name compares the label's octets with lower-case constants: a peer that writes the "
                   "algorithm name as `HMAC-SHA256.` (domain names are case-insensitive, the digest uses the canonical form) "
                   "is refused with BADKEY", b.where(bi))
        ctx.ob(R, b, "Some#%d only for a one-label name" % n, root_seen or whole,
               "Algorithm::from_name answers Some(..) without having seen the root label right behind the first label: "
               "`hmac-sha256.anything.` is taken for HMAC-SHA256, so a request whose algorithm name was altered still "
               "verifies (the MAC covers the key's own algorithm name)", b.where(bi))


def rule_prime(ctx, F):
    R = "C11.prime"
    ctx.floor(R, 2)
    b = F.one_body(r"^tsig::SigningContext::<K>::server_request$") if hasattr(F, "one_body") else None
    if not ctx.anchor(R, "SigningContext::server_request", b):
        return
    app = [bb for bb, t in b.calls() if (t["fn"] or "").endswith("SigningContext::<K>::apply_signature")]
    if not ctx.anchor(R, "apply_signature(request MAC) in server_request", len(app) >= 1, b.where()):
        return
    cmps = [bb for bb, t in b.calls() if re.search(r"Key::compare_signatures$|SigningContext::<K>::request$", t["fn"] or "")]
    n = 0
    for bb, t in b.calls():
        fn = t["fn"] or ""
        if not fn.endswith("ServerError::<K>::signed"):
            continue
        if cmps and not any(bb in b.reach_from(c) for c in cmps):
            continue
        n += 1
        ctx.ob(R, b, "signed error #%d is made from a context that holds the request MAC" % n, any(b.dominates(a, bb) for a in app),
               "server_request builds a signed error response (BADTIME) from a context the request MAC was not yet fed "
               "into: RFC 8945 5.3.2 requires the request MAC as the prior MAC, the client answers BadSig", b.where(bb))
    for bi, si, kind, term in return_assignments(b):
        if kind == "Ok" and term is not None and "Some" in show(term):
            n += 1
            ctx.ob(R, b, "the context handed back holds the request MAC", any(b.dominates(a, bi) for a in app),
                   "server_request returns the signing context without the request MAC in it", b.where(bi))


def rule_time48(ctx, F):
    R = "C11.time48"
    ctx.floor(R, 2)
    b = F.one_body(r"^rdata::tsig::Time48::into_octets$")
    if ctx.anchor(R, "Time48::into_octets", b):
        covered = {}
        bad = []
        # form A: res[i] = (self.0 >> k) as u8
        for bi in sorted(b.reachable_blocks()):
            for st in b.blocks[bi]["s"]:
                if st[0] != "=" or len(st[1]) != 2 or not isinstance(st[1][1], (list, tuple)) or st[1][1][0] not in ("[]", "c[]"):
                    continue
                idx = const_value(b.term_of_local(st[1][1][1])) if st[1][1][0] == "[]" else st[1][1][1]
                val = deep_strip(b.term_of_rvalue(st[2]))
                while val[0] == "cast":
                    val = deep_strip(val[2])
                k = 0
                if val[0] == "bin" and val[1] == "Shr":
                    k = const_value(deep_strip(val[3]))
                    val = deep_strip(val[2])
                if idx is None or k is None or show(val) != "arg1.0":
                    continue
                covered[idx] = k
                if k != 40 - 8 * idx:
                    bad.append("octet %d <- bits from %d" % (idx, k))
        # form B: res[a..].copy_from_slice(&((self.0 >> k) as uN).to_be_bytes())
        for bb, t in b.calls():
            if not (t["fn"] or "").endswith("copy_from_slice") or len(t["args"]) < 2:
                continue
            dst = deep_strip(b.term_of_operand(t["args"][0]))
            src = deep_strip(b.term_of_operand(t["args"][1]))
            rng = [s for s in walk(dst) if s[0] == "agg" and "Range" in str(s[1][1])]
            tb = [s for s in walk(src) if s[0] == "call" and (s[1] or "").endswith("to_be_bytes")]
            if not rng or not tb:
                continue
            m = re.search(r"impl (u\d+)>", tb[0][1])
            width = int(m.group(1)[1:]) // 8 if m else None
            rname = str(rng[0][1][1])
            consts = [const_value(deep_strip(x)) for x in rng[0][2]]
            a = 0 if rname.endswith("RangeTo") else consts[0]
            val = deep_strip(tb[0][3][0])
            while val[0] == "cast":
                val = deep_strip(val[2])
            k = 0
            if val[0] == "bin" and val[1] == "Shr":
                k = const_value(deep_strip(val[3]))
                val = deep_strip(val[2])
            if width is None or a is None or k is None or show(val) != "arg1.0":
                continue
            for j in range(width):
                covered[a + j] = k + 8 * (width - 1 - j)
                if covered[a + j] != 40 - 8 * (a + j):
                    bad.append("octet %d <- bits from %d" % (a + j, covered[a + j]))
        if set(covered) != set(range(6)) and not bad:
            ctx.undecided_item(R, "Time48::into_octets", "layout not recognised (octets covered: %s)" % sorted(covered))
        else:
            ctx.ob(R, b, "octet i holds bits 47-8i..40-8i", not bad,
                   "Time48::into_octets does not write the 48-bit value in network byte order (%s): the time on the wire "
                   "and in the digest is wrong for values of 2^32 and more" % "; ".join(sorted(set(bad))[:4]))
    c = F.one_body(r"^rdata::tsig::Time48::from_slice$")
    if ctx.anchor(R, "Time48::from_slice", c):
        shifts = {}
        for s in walk(deep_strip(c.term_of_local(0))):
            if s[0] == "bin" and s[1] == "Shl":
                k = const_value(deep_strip(s[3]))
                inner = [x for x in walk(s[2]) if x[0] == "idx"]
                if k is not None and inner:
                    i = const_value(deep_strip(inner[0][2]))
                    if i is not None:
                        shifts[i] = k
        last = [const_value(deep_strip(x[2])) for x in walk(deep_strip(c.term_of_local(0))) if x[0] == "idx"]
        for i in last:
            shifts.setdefault(i, 0)
        if set(shifts) != set(range(6)):
            ctx.undecided_item(R, "Time48::from_slice", "layout not recognised (%s)" % shifts)
        else:
            wrong = ["octet %d -> bits from %d" % (i, k) for i, k in sorted(shifts.items()) if k != 40 - 8 * i]
            ctx.ob(R, c, "octet i supplies bits 47-8i..40-8i", not wrong,
                   "Time48::from_slice does not read the 48-bit value in network byte order (%s)" % "; ".join(wrong))


def rule_fudge(ctx, F):
    """Time48::eq_fudged(self, other, fudge) is true only if
    self - fudge <= other  and  other <= self + fudge."""
    R = "C11.fudge"
    ctx.floor(R, 2)
    b = F.one_body(r"^rdata::tsig::Time48::eq_fudged$")
    if not ctx.anchor(R, "Time48::eq_fudged", b):
        return
    # conditions under which the result is true
    results = []
    for bi in sorted(b.reachable_blocks()):
        for st in b.blocks[bi]["s"]:
            if st[0] == "=" and st[1] == [0]:
                rv = deep_strip(b.term_of_rvalue(st[2]))
                cv = const_value(rv)
                conds = [(deep_strip(tt), vv) for tt, vv in bool_facts(b, bi, F)]
                if cv in (0, False):
                    continue
                if cv is None:
                    conds.append((rv, True))
                results.append((bi, conds))
    ctx.anchor(R, "true result of eq_fudged", bool(results), b.where())
    for bi, conds in results:
        lower = upper = False
        for tt, vv in conds:
            if tt[0] != "bin" or tt[1] not in ("Lt", "Le", "Gt", "Ge"):
                continue
            la, lb = _lin3(tt[2]), _lin3(tt[3])
            if la is None or lb is None:
                continue
            # a OP b is vv  ->  d = a - b ; normalise to d <= 0 or d >= 0
            d = dict(la)
            for k, v in lb.items():
                d[k] = d.get(k, 0) - v
            le = (tt[1] in ("Lt", "Le")) == bool(vv)   # d <= 0 (or < 0)
            if not le:
                d = {k: -v for k, v in d.items()}
            # now d <= 0 ; d = cS*S + cO*O + cF*F
            s_, o_, f_ = d.get("S", 0), d.get("O", 0), d.get("F", 0)
            if d.get("?") or d.get(1, 0) not in (0,):
                continue   # other symbols / constant slack: not the plain window bound
            if s_ == 1 and o_ == -1 and f_ == -1:
                lower = True      # self - fudge - other <= 0
            if s_ == -1 and o_ == 1 and f_ == -1:
                upper = True      # other - self - fudge <= 0
        ctx.ob(R, b, "not older than fudge (self - fudge <= other)", lower,
               "Time48::eq_fudged can return true without self - fudge <= other: a signature arbitrarily far on that "
               "side of the clock is accepted (RFC 8945 5.2.3)", b.where(bi))
        ctx.ob(R, b, "not newer than fudge (other <= self + fudge)", upper,
               "Time48::eq_fudged can return true without other <= self + fudge", b.where(bi))
    # and the verification paths use it with the received fudge
    users = F.callers_of(r"^rdata::tsig::Time48::eq_fudged$")
    ctx.ob(R, "rdata::tsig::Time48::eq_fudged", "used by the TSIG time check", any("tsig::" in cb.path for cb, _, _ in users),
           "no TSIG verification path calls Time48::eq_fudged any more")


# ---------------------------------------------------------------------------
# names enter the digest in canonical form
# ---------------------------------------------------------------------------

def rule_canon(ctx, F):
    """RFC 8945 4.3.3: the key name is digested in canonical wire format
    (lower-cased).  Key lookup compares names case-insensitively, so a key
    name fed as stored gives a different MAC on a peer that spells it
    differently."""
    R = "C11.canon"
    ctx.floor(R, 1)
    b = F.one_body(r"^tsig::Variables::sign$")
    if not ctx.anchor(R, "Variables::sign", b):
        return
    n = 0
    for bb, t in b.calls():
        if not (t["fn"] or "").endswith("hmac::Context::update"):
            continue
        raw = b.term_of_operand(t["args"][1])
        names = [s for s in walk(raw) if s[0] == "field" and s[2] == "name"]
        if not names:
            continue
        n += 1
        canon = any(s[0] == "call" and s[1] and re.search(r"::(to_canonical|compose_canonical|to_canonical_name|make_canonical)$", s[1])
                    for s in walk(raw)) or any(s[0] == "k" and len(s) > 3 and isinstance(s[3], str) and
                                               re.search(r"(to_canonical|compose_canonical)", s[3]) for s in walk(raw))
        ctx.ob(R, b, "key name digested in canonical form#%d" % n, canon,
               "Variables::sign feeds the key name to the MAC without lower-casing it (no to_canonical / "
               "compose_canonical on the way): the MAC differs from the RFC 8945 computation for key names with "
               "upper-case letters", b.where(bb))
    ctx.anchor(R, "digest input derived from key.name in Variables::sign", n >= 1, b.where())


# ---------------------------------------------------------------------------
# the MAC chained into the next digest is the MAC as it is on the wire
# ---------------------------------------------------------------------------

def rule_chain(ctx, F):
    """RFC 8945 4.3.1/5.3.1: the prior MAC enters the next digest exactly as
    transmitted.  With a truncating key the signer must therefore chain the
    truncated MAC (Key::signature_slice), as the verifier chains the MAC
    field it received."""
    R = "C11.chain"
    ctx.floor(R, 5)
    n = 0
    seen = {}
    for cb, bb, t in F.callers_of(r"^tsig::SigningContext::<K>::apply_signature$"):
        if "::test" in cb.path:
            continue
        n += 1
        a = cb.term_of_operand(t["args"][1])
        calls = [s[1] for s in walk(a) if s[0] == "call" and s[1]]
        wire = any(c.endswith("Tsig::<O, N>::mac") or re.search(r"rdata::tsig::Tsig::<.*>::mac$", c) for c in calls)
        cut = any(c.endswith("Key::signature_slice") for c in calls)
        seen[cb.path] = seen.get(cb.path, 0) + 1
        ctx.ob(R, cb, "chained MAC is the transmitted MAC#%d" % seen[cb.path], wire or cut,
               "%s chains a MAC into the running digest that is neither the received MAC field nor "
               "Key::signature_slice(..) of the computed tag: with a truncating key (signing_len below the native "
               "length) signer and verifier digest different octets and every later message of the sequence "
               "fails with BADSIG" % cb.path.split("::")[-2:], cb.where(bb))
    ctx.call_sites += n


def rule_other(ctx, F):
    """Other Data is a signed variable.  The reader accepts 0 or 6 octets of it for any error code, and what the digest is
    fed comes from Tsig::other_time(): that accessor answers Some for *every* 6-octet field -- not only under
    BADTIME -- or octets added to a record with another error code are accepted and not digested."""
    R = "C11.other"
    ctx.floor(R, 1)
    b = F.one_body(r"^rdata::tsig::Tsig::<O, N>::other_time$") or F.one_body(r"^rdata::tsig::Tsig::<.*>::other_time$")
    if not ctx.anchor(R, "Tsig::other_time", b):
        return
    n = 0
    for bi in sorted(b.reachable_blocks()):
        for st in b.blocks[bi]["s"]:
            if st[0] == "=" and st[2][0] == "agg" and st[2][1][0] == "adt" and st[2][1][1] == "core::option::Option" and "Some" in str(st[2][1][2:]):
                n += 1
                extra = []
                for tm, v in bool_facts(b, bi, F):
                    sh = show(tm)
                    if "len(" not in sh and "PtrMetadata" not in sh:
                        extra.append(sh[:80])
                ctx.ob(R, b, "the time in Other Data is handed out for every 6-octet field", not extra,
                       "Tsig::other_time answers Some only under the additional condition %s: for records that fail it the "
                       "digest is computed as if Other Len were 0, while the reader accepts the 6 octets -- octets spliced "
                       "into a signed message are neither refused nor signed" % extra[:2], b.where(bi))
    ctx.ob(R, b, "other_time has a Some exit", n >= 1, "no Some(..) in other_time", nontrivial=False)


def rule_first(ctx, F):
    """A sequence's first answer has to be signed (RFC 8945 5.3.1), so `first` is cleared only once a first answer has
    verified: every store of `false` into ClientSequence.first (an assignment or mem::replace) lies behind the
    success of the MAC comparison and the time check."""
    R = "C11.first"
    ctx.floor(R, 1)
    n = 0
    for p, b in sorted(F.bodies.items()):
        if not re.match(r"^tsig::ClientSequence::<K>::\w+$", p):
            continue
        sites = []
        for bi in sorted(b.reachable_blocks()):
            if b.blocks[bi].get("c"):
                continue
            for st in b.blocks[bi]["s"]:
                if st[0] == "=" and len(st[1]) > 1:
                    tgt = deep_strip(b.term_of_place(st[1]))
                    if tgt == ("field", ("arg", 1), "first") and const_value(deep_strip(b.term_of_rvalue(st[2]))) in (0, False):
                        sites.append(bi)
            t = b.blocks[bi]["t"]
            if t["k"] == "call" and re.search(r"mem::(replace|take)(::<.*>)?$", t["fn"] or "") and t["args"]:
                if deep_strip(b.term_of_operand(t["args"][0])) == ("field", ("arg", 1), "first"):
                    sites.append(bi)
        for bi in sites:
            n += 1
            succ = succeeded_calls(b, bi, F)
            names = {(b.blocks[x]["t"]["fn"] or "").split("::")[-1] for x in succ}
            ctx.ob(R, b, "`first` is cleared only after the first answer verified", {"compare_signatures", "check_answer_time"} <= names,
                   "%s clears ClientSequence.first without the MAC comparison and the time check having succeeded on the way "
                   "(succeeded there: %s): after one rejected first answer every unsigned message is taken for a permitted "
                   "intermediate message and the genuine signed answer fails" % (p.split("::")[-1], sorted(names)[:6]), b.where(bi))
    ctx.ob(R, "tsig::ClientSequence", "a place that clears `first`", n >= 1, "no store to ClientSequence.first found", nontrivial=False)


def rule_reset(ctx, F):
    """RFC 8945 5.3.1: the digest of a sequence's first answer starts with the request MAC, every later one with the
    previous answer's MAC only.  SigningContext::first_answer therefore *replaces* the running context by a fresh
    one (primed afterwards by apply_signature) and signs with the old one; without the replacement message #2 is
    digested with both MACs in front."""
    R = "C11.reset"
    ctx.floor(R, 1)
    b = F.one_body(r"^tsig::SigningContext::<K>::first_answer$")
    if not ctx.anchor(R, "SigningContext::first_answer", b):
        return
    fresh = [bb for bb, t in b.calls() if re.search(r"::signing_context$", t["fn"] or "")]
    swap = [bb for bb, t in b.calls() if re.search(r"mem::(swap|replace)(::<.*>)?$", t["fn"] or "")
            and any(deep_strip(b.term_of_operand(a)) == ("field", ("arg", 1), "context") or
                    show(deep_strip(b.term_of_operand(a))).endswith(".context") for a in t["args"])]
    assign = []
    for bi in b.reachable_blocks():
        for st in b.blocks[bi]["s"]:
            if st[0] == "=" and len(st[1]) > 1 and deep_strip(b.term_of_place(st[1])) == ("field", ("arg", 1), "context"):
                assign.append(bi)
    rets = [i for i in b.reachable_blocks() if b.blocks[i]["t"]["k"] == "ret" and not b.blocks[i].get("c")]
    ok = bool(fresh) and bool(swap or assign)
    if ok:
        ok, _ = must_pass(b, 0, rets, swap + assign)
    ctx.ob(R, b, "the running context is replaced by a fresh one", ok,
           "first_answer signs without putting a fresh signing context in place of the running one (found signing_context "
           "calls: %d, replacements of self.context: %d): the second signed message of a sequence is then digested as request "
           "MAC || MAC#1 || message instead of MAC#1 || message -- the library's own client repeats the mistake, an RFC 8945 "
           "peer answers BADSIG" % (len(fresh), len(swap) + len(assign)))


def rule_macfirst(ctx, F):
    """RFC 8945 5.3: a client checks the MAC of an answer first and the time only of an answer whose MAC is right --
    what an answer with a wrong MAC says about time (a BADTIME error with a server time, a time outside the window) is
    not the server speaking.  Every `check_answer_time` call is dominated by a successful `compare_signatures`."""
    R = "C11.macfirst"
    ctx.floor(R, 3)
    n = 0
    for p, b in sorted(F.bodies.items()):
        if "::test" in p or not re.match(r"^<?tsig::", p):
            continue
        for bb, t in b.calls():
            if not re.search(r"::check_answer_time$", t["fn"] or ""):
                continue
            n += 1
            ok = any(o == "success" and re.search(r"compare_signatures$", (deep_strip(s)[1] or "") if deep_strip(s)[0] == "call" else "")
                     for s, o in outcome_facts(b, bb, F))
            ctx.ob(R, b, "the answer's time is looked at only behind a matching MAC", ok,
                   "%s calls check_answer_time on a path where compare_signatures has not succeeded: an answer forged without the "
                   "key is reported as the server's BADTIME (with a server time of the forger's choosing) instead of BadSig"
                   % p.split("tsig::")[-1], b.where(bb))
    ctx.call_sites += n


def rule_restoreid(ctx, F):
    """Successful verification returns the message as it was signed: `remove_tsig` writes the original ID into the
    message itself -- `set_id` on `message.header_mut()` -- not into a copy of the header (`header_section()`,
    `header()` return values)."""
    R = "C11.restoreid"
    ctx.floor(R, 1)
    b = F.one_body(r"^tsig::remove_tsig$")
    if not ctx.anchor(R, "tsig::remove_tsig", b):
        return
    sets = b.calls_matching(r"Header::set_id$")
    if not ctx.anchor(R, "set_id in remove_tsig", len(sets) >= 1, b.where()):
        return
    for bb, t in sets:
        recv = deep_strip(b.term_of_operand(t["args"][0]))
        val = deep_strip(b.term_of_operand(t["args"][1]))
        inplace = recv[0] == "call" and re.search(r"Message::<.*>::header_mut$", recv[1] or "") is not None \
            and deep_strip(recv[3][0]) == ("arg", 2)
        ctx.ob(R, b, "the original ID is written into the message", inplace and val == ("arg", 1),
               "remove_tsig sets the ID on %s (value %s), not on message.header_mut(): the ID lands in a temporary copy and the "
               "verified message keeps the ID it travelled with" % (show(recv)[:80], show(val)[:40]), b.where(bb))
