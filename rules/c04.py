"""C04 — equality, order and hash coherent; canonical order (structural clauses).

C04.set    for every type with Hash+PartialEq (and Ord/PartialOrd/CanonicalOrd
           vs PartialEq): fields(hash) subset of fields(eq); fields(cmp) ==
           fields(eq).  Universal over types (derived and manual impls are both
           real MIR bodies).
C04.pair   every two-operand comparison inside eq / cmp / partial_cmp /
           canonical_cmp compares the *same* field path of self and other
           (never self.f with self.f, never self.f with other.g).
C04.fold   Label eq/cmp/hash and the canonical forms fold case with the same
           primitive (ASCII lower-casing), which is what the canonical wire
           form (RFC 4034 6.2) uses.
C04.repr   Hash/Eq/Ord of every name type reduce to label-wise operations
           (Label::hash, name_eq, name_cmp) and never hash or compare the raw
           octets (representation independence: flat / compressed / chained).
C04.kind   per field, the *kind* of value fed to the hasher is the kind of
           value == compares: a field compared as CharStr (ASCII
           case-insensitive) or as a name (label-wise, case-insensitive) is
           never hashed as raw octets, and vice versa.
C04.canon  canonical_cmp field order equals canonical compose order (shared
           signature engine, see sigs.py) and Record::canonical_cmp order.
"""
import re
from collections import OrderedDict

from mirlib import strip, deep_strip, show, walk, const_value, resolve_captures
from rulelib import return_assignments
import sigs

SCOPE = re.compile(r"^(base|rdata|utils|zonefile|tsig|dnssec|zonetree|net|stelline|resolv|validate|sign)::")

EQ = "core::cmp::PartialEq"
HASH = "core::hash::Hash"
ORD = "core::cmp::Ord"
PORD = "core::cmp::PartialOrd"
CORD = "base::cmp::CanonicalOrd"


def run(ctx):
    F = ctx.facts
    ctx.extra["explanation"] = (
        "C04: field-set coherence of Eq/Hash/Ord/CanonicalOrd impls of every ADT, same-field pairing "
        "of every comparison, single case-fold primitive for labels, label-wise (representation "
        "independent) hashing/comparison of all name types, canonical_cmp order vs canonical wire order. "
        "Transitivity/antisymmetry for all values and RFC 4034 6.1 itself are not decided."
    )
    rule_set(ctx, F)
    rule_pair(ctx, F)
    rule_fold(ctx, F)
    rule_repr(ctx, F)
    rule_canon(ctx, F)
    rule_kind(ctx, F)
    rule_refl(ctx, F)
    rule_total(ctx, F)
    rule_po(ctx, F)
    rule_ident(ctx, F)
    rule_mixed(ctx, F)
    rule_lenfirst(ctx, F)
    import c03
    c03.rule_flag(ctx, F)   # representation independence needs a truthful `compressed` flag (as_flat_slice fast paths)
    import c02
    c02.rule_seqeq(ctx, F)  # label sequences of different lengths are never equal (zip() stops at the shorter one)
    import c19
    c19.rule_lsuffix(ctx, F)  # the new codec's flat names: order by length only for a label-aligned suffix
    rule_charlen(ctx, F)


# ---------------------------------------------------------------------------
# field usage
# ---------------------------------------------------------------------------

def _getter_field(F, path):
    """If `path` is a simple getter (returns a field of self, possibly by
    ref/copy/as_ref), return the field name."""
    b = F.bodies.get(path)
    if b is None or b.nargs != 1:
        return None
    rets = return_assignments(b)
    if len(rets) != 1 or rets[0][3] is None:
        return None
    t = deep_strip(rets[0][3])
    if t[0] == "field" and t[1] == ("arg", 1) and isinstance(t[2], str):
        return t[2]
    return None


def fields_used(F, b, argn, adt, caps=None, depth=0):
    """Set of field names of `adt` that body b reads through parameter argn
    (directly, via variant downcasts, or via simple getters).  Closures
    created in b that capture the parameter (`a.cmp(b).then_with(|| ...)`) are
    followed: inside them the captured upvar plays the parameter's role
    (`caps` = set of capture indices that hold the parameter)."""
    out = set()

    def scan_place(pl):
        if pl[0] != argn:
            return
        variant = None
        for pr in pl[1:]:
            if pr == "*":
                continue
            if isinstance(pr, list) and pr[0] == "as":
                variant = pr[1]
                continue
            if isinstance(pr, list) and pr[0] == ".":
                nm = pr[2] if pr[2] is not None else str(pr[1])
                out.add(nm if variant is None else "%s.%s" % (variant, nm))
                return
            return

    tuple_alias = {}  # local -> {tuple index: True} when the element is (a ref to) the parameter

    def cap_rest(pl):
        """(*_1).k... in a closure whose capture k holds the parameter -> remaining projections"""
        if not caps or pl[0] != 1:
            return None
        i = 1
        while i < len(pl) and pl[i] == "*":
            i += 1
        if i < len(pl) and isinstance(pl[i], list) and pl[i][0] == "." and pl[i][1] in caps:
            return list(pl[i + 1:])
        return None

    # locals that alias the parameter (copies / reborrows of self)
    alias = set() if caps else {argn}
    changed = True
    while changed:
        changed = False
        for blk in b.blocks:
            for st in blk["s"]:
                if st[0] == "=" and len(st[1]) == 1 and st[1][0] not in alias:
                    rv = st[2]
                    src = None
                    if rv[0] == "use" and rv[1][0] in ("c", "m"):
                        src = rv[1][1]
                    elif rv[0] in ("ref", "deref"):
                        src = rv[2] if rv[0] == "ref" else rv[1]
                    if src is None:
                        continue
                    cr = cap_rest(src)
                    if (src[0] in alias and all(p == "*" for p in src[1:])) or (cr is not None and all(p == "*" for p in cr)):
                        if len(b.defs().get(st[1][0], [])) == 1:
                            alias.add(st[1][0])
                            changed = True
    # `match (self, other)` builds a tuple of the two operands first
    for blk in b.blocks:
        for st in blk["s"]:
            if st[0] == "=" and len(st[1]) == 1 and st[2][0] == "agg" and st[2][1][0] == "tuple":
                for i, o in enumerate(st[2][2]):
                    if o[0] in ("c", "m") and o[1][0] in alias and all(p == "*" for p in o[1][1:]):
                        tuple_alias.setdefault(st[1][0], {})[i] = True

    def norm(pl):
        """place rooted at the parameter -> [argn, projections...]; else None"""
        if pl[0] in alias:
            return [argn] + list(pl[1:])
        if pl[0] in tuple_alias and len(pl) > 1 and isinstance(pl[1], list) and pl[1][0] == "." \
                and pl[1][1] in tuple_alias[pl[0]]:
            return [argn] + list(pl[2:])
        cr = cap_rest(pl)
        if cr is not None:
            return [argn] + cr
        return None

    for blk in b.blocks:
        for st in blk["s"]:
            if st[0] != "=":
                continue
            rv = st[2]
            places = []
            if rv[0] in ("use",):
                places = [rv[1][1]] if rv[1][0] in ("c", "m") else []
            elif rv[0] == "ref" or rv[0] == "ptr":
                places = [rv[2]]
            elif rv[0] in ("deref", "discr"):
                places = [rv[1]]
            elif rv[0] == "cast":
                places = [rv[2][1]] if rv[2][0] in ("c", "m") else []
            elif rv[0] == "bin":
                places = [o[1] for o in (rv[2], rv[3]) if o[0] in ("c", "m")]
            elif rv[0] == "un":
                places = [rv[2][1]] if rv[2][0] in ("c", "m") else []
            elif rv[0] == "agg":
                places = [o[1] for o in rv[2] if o[0] in ("c", "m")]
                if rv[1][0] == "closure" and depth < 3:
                    ccaps = set()
                    for i, o in enumerate(rv[2]):
                        if o[0] in ("c", "m"):
                            n = norm(o[1])
                            if n is not None and all(p == "*" for p in n[1:]):
                                ccaps.add(i)
                    cb = F.bodies.get(rv[1][1])
                    if ccaps and cb is not None:
                        out |= fields_used(F, cb, argn, adt, caps=ccaps, depth=depth + 1)
            for pl in places:
                n = norm(pl)
                if n is not None:
                    scan_place(n)
        t = blk["t"]
        if t["k"] == "call":
            for a in t["args"]:
                if a[0] in ("c", "m"):
                    n = norm(a[1])
                    if n is not None:
                        scan_place(n)
            # getter calls on self
            if t["args"] and t["fn"]:
                a0 = t["args"][0]
                n0 = norm(a0[1]) if a0[0] in ("c", "m") else None
                if n0 is not None and all(p == "*" for p in n0[1:]):
                    g = _getter_field(F, t["fn"])
                    if g:
                        out.add(g)
                    elif re.search(r"::(as_ref|as_slice|deref|borrow|clone)$", t["fn"]) or t["fn"].startswith("core::"):
                        out.add("<self>")
                    else:
                        out.add("m:" + t["fn"].split("::")[-1])
        elif t["k"] == "switch" and t["d"][0] in ("c", "m"):
            n = norm(t["d"][1])
            if n is not None:
                scan_place(n)
    return out


def _impl_fn(F, im, name):
    for it in im["items"]:
        if it["name"] == name:
            return F.bodies.get(it["path"])
    return None


def _impls_by_adt(F):
    by = {}
    for im in F.impls:
        adt = im["self_adt"]
        if not adt or adt.startswith("&") or not SCOPE.match(adt):
            continue
        if im["trait"] in (EQ, HASH, ORD, PORD, CORD):
            by.setdefault(adt, {}).setdefault(im["trait"], []).append(im)
    return by


def _same_type_impl(im):
    """An Eq/Ord impl comparing the type with itself or with the same ADT
    under other generic parameters."""
    tr = im["trait_ref"] or ""
    adt = im["self_adt"]
    return ("<" not in tr.split(" as ")[-1]) or (adt in tr.split(" as ")[-1])


def rule_set(ctx, F):
    R = "C04.set"
    ctx.floor(R, 280)
    by = _impls_by_adt(F)
    for adt in sorted(by):
        tr = by[adt]
        if EQ not in tr:
            continue
        adt_rec = F.adts.get(adt)
        if adt_rec is None:
            continue
        # fields(eq): union over same-ADT impls (they must agree, checked below)
        eqf = None
        eq_impls = [im for im in tr[EQ] if _same_type_impl(im)]
        fsets = []
        for im in eq_impls:
            b = _impl_fn(F, im, "eq")
            if b is None:
                continue
            fsets.append((im, fields_used(F, b, 1, adt)))
        if not fsets:
            continue
        eqf = set().union(*[f for _, f in fsets])
        opaque_eq = any(x.startswith("m:") or x == "<self>" for x in eqf)
        # Hash
        for im in tr.get(HASH, []):
            b = _impl_fn(F, im, "hash")
            if b is None:
                continue
            hf = fields_used(F, b, 1, adt)
            if opaque_eq or any(x.startswith("m:") or x == "<self>" for x in hf):
                # whole-value delegation (e.g. eq via as_slice()/iterators): not a field-level question
                ctx.ob(R, adt, "hash fields subset of eq fields", True, nontrivial=False,
                       detail="delegating impls: eq=%s hash=%s (covered by C04.repr for name types)" % (sorted(eqf), sorted(hf)),
                       where="%s:%d" % (im["file"], im["line"]))
                continue
            extra = sorted(hf - eqf)
            ctx.ob(R, adt, "hash fields subset of eq fields", not extra,
                   "Hash reads field(s) %s that PartialEq ignores: equal values hash differently "
                   "(eq=%s, hash=%s)" % (extra, sorted(eqf), sorted(hf)),
                   where="%s:%d" % (im["file"], im["line"]))
        # Ord / PartialOrd / CanonicalOrd vs Eq
        for trait, fn in ((ORD, "cmp"), (PORD, "partial_cmp"), (CORD, "canonical_cmp")):
            for im in tr.get(trait, []):
                if not _same_type_impl(im):
                    continue
                b = _impl_fn(F, im, fn)
                if b is None:
                    continue
                cf = fields_used(F, b, 1, adt)
                if not cf:
                    continue
                if opaque_eq or any(x.startswith("m:") or x == "<self>" for x in cf):
                    ctx.ob(R, adt, "%s fields == eq fields" % fn, True, nontrivial=False,
                           detail="delegating impls: eq=%s %s=%s" % (sorted(eqf), fn, sorted(cf)),
                           where="%s:%d" % (im["file"], im["line"]))
                    continue
                # partial_cmp that delegates to cmp/canonical_cmp reads no field itself: skip (empty cf handled)
                ok = cf == eqf
                ctx.ob(R, adt, "%s fields == eq fields" % fn, ok,
                       "%s and PartialEq look at different fields: cmp()==Equal and == disagree "
                       "(eq=%s, %s=%s)" % (fn, sorted(eqf), fn, sorted(cf)),
                       where="%s:%d" % (im["file"], im["line"]))


# ---------------------------------------------------------------------------
# same-field pairing
# ---------------------------------------------------------------------------

def access_path(b, t):
    """(root_arg, [path elements]) of a value derived from a parameter by field
    projections, variant downcasts and method calls; None if not so derived."""
    path = []
    t = strip(t)
    while True:
        k = t[0]
        if k == "field":
            path.append(str(t[2]))
            t = strip(t[1])
        elif k == "downcast":
            path.append("as " + str(t[2]))
            t = strip(t[1])
        elif k == "idx":
            path.append("[]")
            t = strip(t[1])
        elif k == "call" and t[3] and t[1]:
            if len(t[3]) > 1 and not all(strip(a)[0] == "k" for a in t[3][1:]):
                return None
            path.append(t[1].split("::")[-1] + "()")
            t = strip(t[3][0])
        elif k == "cast":
            t = strip(t[2])
        elif k == "arg":
            return t[1], path[::-1]
        elif k == "phi" and len(t[2]) >= 1 and all(strip(a)[0] == "arg" for a in t[2]):
            return strip(t[2][0])[1], path[::-1]
        else:
            return None


COMPARATORS = re.compile(
    r"::(eq|ne|cmp|partial_cmp|lt|le|gt|ge|name_eq|name_cmp|canonical_cmp|composed_cmp|lowercase_composed_cmp|"
    r"eq_ignore_ascii_case|canonical_lt|canonical_le|canonical_gt|canonical_ge)$")

CMP_FNS = {EQ: ("eq", "ne"), ORD: ("cmp",), PORD: ("partial_cmp",), CORD: ("canonical_cmp",)}


def rule_pair(ctx, F):
    R = "C04.pair"
    ctx.floor(R, 600)
    n = 0
    for im in F.impls:
        adt = im["self_adt"]
        if not adt or not SCOPE.match(adt.lstrip("&")) or im["trait"] not in CMP_FNS:
            continue
        for fname in CMP_FNS[im["trait"]]:
            b = _impl_fn(F, im, fname)
            if b is None or b.nargs != 2:
                continue
            seen = {}
            for sb, bi, what, x, y in sigs.compare_sites(b, F, COMPARATORS):
                px, py = access_path(b, x), access_path(b, y)
                if px is None or py is None:
                    continue
                if px[0] not in (1, 2) or py[0] not in (1, 2):
                    continue
                if not px[1] and not py[1]:
                    continue  # whole self vs whole other (delegation)
                n += 1
                same_root = px[0] == py[0]
                lx = [e for e in px[1] if e != "[]"]
                ly = [e for e in py[1] if e != "[]"]
                if not same_root and (not _norm_path(lx) or not _norm_path(ly)):
                    continue  # a field of a wrapper compared with a whole foreign value (PartialEq<U>)
                same_path = _norm_path(lx) == _norm_path(ly)
                k = (what, tuple(lx))
                seen[k] = seen.get(k, 0) + 1
                site = "%s(%s)#%d" % (what, ".".join(lx) or "self", seen[k])
                if same_root:
                    ctx.ob(R, b, site, False,
                           "%s compares %s with %s of the *same* operand (arg%d): the other value is ignored"
                           % (fname, ".".join(lx), ".".join(ly), px[0]), sb.where(bi))
                else:
                    ctx.ob(R, b, site, same_path,
                           "%s compares field %s of one operand with field %s of the other"
                           % (fname, ".".join(lx), ".".join(ly)), sb.where(bi))
    ctx.call_sites += n


def _norm_path(p):
    return [e for e in p if
            not re.match(r"^(as_ref|as_slice|borrow|deref|clone|to_owned|as_str|as_bytes|iter|into_iter|iter_labels|as_label|map|copied|cloned|rev)\(\)$", e)]


# ---------------------------------------------------------------------------
# case folding
# ---------------------------------------------------------------------------

FOLD_LOWER = re.compile(r"(to_ascii_lowercase|make_ascii_lowercase|eq_ignore_ascii_case)$")
FOLD_UPPER = re.compile(r"(to_ascii_uppercase|make_ascii_uppercase|to_uppercase|to_lowercase)$")


def _fold_calls(F, b, depth=0, seen=None):
    """(lower, upper) names of case primitives called by b and by closures /
    crate-local helpers it calls (depth 2)."""
    lower, upper = set(), set()
    seen = seen or set()
    if b.path in seen:
        return lower, upper
    seen.add(b.path)
    for bb, t in b.calls():
        for nm in (t["fn"], t["res"]):
            if not nm:
                continue
            if FOLD_LOWER.search(nm):
                lower.add(nm.split("::")[-1])
            if FOLD_UPPER.search(nm):
                upper.add(nm.split("::")[-1])
        # function items passed as values (e.g. `.map(u8::to_ascii_lowercase)`)
        for a in t["args"]:
            if a[0] == "k" and a[3]:
                if FOLD_LOWER.search(a[3].split("::<")[0]) or "to_ascii_lowercase" in a[3]:
                    lower.add("to_ascii_lowercase")
                if "to_ascii_uppercase" in a[3]:
                    upper.add("to_ascii_uppercase")
        # a crate-local octet function (called, or handed to an iterator adaptor) that folds case by hand: decided over all
        # 256 octets -- it is a lower-casing primitive only if it agrees with u8::to_ascii_lowercase everywhere
        for nm in [t["fn"], t["res"]] + [a[3] for a in t["args"] if a[0] == "k" and a[3]]:
            cb = F.bodies.get(nm) if nm else None
            if cb is None or cb.nargs != 1 or cb.path in seen:
                continue
            tab = _octet_table(cb)
            if tab is None or not all(isinstance(x, int) and not isinstance(x, bool) for x in tab):
                continue
            if tab == list(range(256)):
                continue
            if tab == _LOWER_TABLE:
                lower.add("%s (= to_ascii_lowercase on all 256 octets)" % nm.split("::")[-1])
            else:
                diff = [o for o in range(256) if tab[o] != _LOWER_TABLE[o]]
                upper.add("%s (differs from to_ascii_lowercase at octets %s)" % (nm.split("::")[-1], ", ".join("0x%02X" % o for o in diff[:6])))
        if depth < 2:
            for nm in (t["res"], t["fn"]):
                cb = F.bodies.get(nm) if nm else None
                if cb is not None and (nm.startswith("base::name::") or nm.startswith("<base::name::")
                                       or nm.startswith("base::charstr") or nm.startswith("<base::charstr")):
                    lo, up = _fold_calls(F, cb, depth + 1, seen)
                    lower |= lo
                    upper |= up
    for p, cb in F.bodies.items():
        if cb.root == b.path or p.startswith(b.path + "::{closure"):
            lo, up = _fold_calls(F, cb, depth + 1, seen)
            lower |= lo
            upper |= up
    return lower, upper


_LOWER_TABLE = [o + 32 if 0x41 <= o <= 0x5A else o for o in range(256)]
_OCTET_TABLES = {}


def _octet_table(cb):
    from rulelib import octet_fn_table
    if cb.path not in _OCTET_TABLES:
        try:
            _OCTET_TABLES[cb.path] = octet_fn_table(cb) if re.match(r"^&?u8$", cb.locals[1].replace(" ", "")) and cb.locals[0] == "u8" else None
        except Exception:
            _OCTET_TABLES[cb.path] = None
    return _OCTET_TABLES[cb.path]


FOLD_FNS = [
    # character strings compare, order and hash without regard to ASCII case; their canonical form is verbatim
    ("<base::charstr::CharStr<T> as core::cmp::PartialEq<U>>::eq", True),
    ("<base::charstr::CharStr<T> as core::cmp::PartialOrd<U>>::partial_cmp", True),
    ("<base::charstr::CharStr<T> as core::cmp::Ord>::cmp", True),
    ("<base::charstr::CharStr<T> as core::hash::Hash>::hash", True),
    ("<base::charstr::CharStr<T> as base::cmp::CanonicalOrd<base::charstr::CharStr<U>>>::canonical_cmp", False),
    ("<base::name::label::Label as core::cmp::PartialEq<T>>::eq", True),
    ("<base::name::label::Label as core::cmp::Ord>::cmp", True),
    ("<base::name::label::Label as core::hash::Hash>::hash", True),
    ("base::name::label::Label::compose_canonical", True),
    ("base::name::label::Label::make_canonical", True),
    ("base::name::label::Label::to_canonical", True),
    ("base::name::label::Label::lowercase_composed_cmp", True),
    # the order of the *wire* form: names that the canonical form keeps as they are (RFC 6840 5.1: NSEC next name, SVCB
    # target, TSIG algorithm ...) are compared with this one; it must not fold
    ("base::name::label::Label::composed_cmp", False),
]


def _short(p):
    m = re.match(r"^<([\w:]+?)(<.*?>)? as .*>::(\w+)$", p)
    return "%s::%s" % (m.group(1).split("::")[-1], m.group(3)) if m else "::".join(p.split("::")[-2:])


def rule_fold(ctx, F):
    R = "C04.fold"
    ctx.floor(R, 13)
    for p, must in FOLD_FNS:
        bs = [b for q, b in F.bodies.items() if q == p or q.startswith(p.replace("::compose_canonical", "::compose_canonical::<"))]
        if not bs:
            bs = F.find_bodies("^" + re.escape(p) + r"(::<[^>]*>)?$")
        if not ctx.anchor(R, p, bs):
            continue
        b = bs[0]
        lo, up = _fold_calls(F, b)
        if not must:
            ctx.ob(R, b, "compares the octets as they are (no case folding)", not lo and not up,
                   "%s is the case-sensitive octet order of the wire form but reaches the folding primitive(s) %s: values "
                   "that the canonical form writes verbatim compare equal (or in the wrong order) when they differ in case"
                   % (_short(p), sorted(lo | up)))
            continue
        ok = bool(lo) and not up
        ctx.ob(R, b, "folds case with ASCII lower-casing only", ok,
               "%s must fold case exactly as u8::to_ascii_lowercase does (what equality and the canonical wire form use) "
               "(found lower=%s upper=%s): an order/hash folded differently disagrees with the canonical "
               "form for octets between 'Z' and 'a'" % (_short(p), sorted(lo), sorted(up)))
    # crate-wide: no upper-casing primitive inside any Eq/Ord/Hash/CanonicalOrd impl of base/rdata
    n = 0
    for im in F.impls:
        adt = im["self_adt"]
        if not adt or not re.match(r"^&?(base|rdata)::", adt) or im["trait"] not in (EQ, ORD, PORD, HASH, CORD):
            continue
        for it in im["items"]:
            b = F.bodies.get(it["path"])
            if b is None:
                continue
            ups = [t["fn"] for _, t in b.calls() if t["fn"] and FOLD_UPPER.search(t["fn"])]
            ups += [a[3] for _, t in b.calls() for a in t["args"] if a[0] == "k" and a[3] and "to_ascii_uppercase" in a[3]]
            n += 1
            if ups:
                ctx.ob(R, b, "no upper-casing in comparison/hash impls", False,
                       "comparison/hash impl folds with %s" % ups)
    ctx.ob(R, "base+rdata comparison/hash impls", "scanned", True, nontrivial=False,
           detail="%d impl functions scanned for upper-casing primitives" % n)


# ---------------------------------------------------------------------------
# representation independence of names
# ---------------------------------------------------------------------------

def _name_types(F):
    out = set()
    for im in F.impls:
        if im["trait"] in ("base::name::traits::ToName", "base::name::traits::ToRelativeName") and im["self_adt"] \
                and not im["self_adt"].startswith("&"):
            out.add(im["self_adt"])
    # UncertainName wraps either kind of name and has its own Eq/Hash
    if "base::name::uncertain::UncertainName" in F.adts:
        out.add("base::name::uncertain::UncertainName")
    return sorted(out)


def rule_repr(ctx, F):
    R = "C04.repr"
    ctx.floor(R, 12)
    names = _name_types(F)
    ctx.anchor(R, "name types (impl ToName / ToRelativeName)", len(names) >= 4)
    ctx.note("name types: %s" % names)
    for adt in names:
        for im in F.impls:
            if im["self_adt"] != adt:
                continue
            if im["trait"] == HASH:
                b = _impl_fn(F, im, "hash")
                if b is None:
                    continue
                hashed = []
                for bb, t in b.calls():
                    if (t["fn"] or "").endswith("core::hash::Hash::hash") or (t["fn"] or "") == "core::hash::Hash::hash":
                        hashed.append(t["targs"][0] if t["targs"] else "?")
                for p, cb in F.bodies.items():
                    if cb.root == b.path:
                        for bb, t in cb.calls():
                            if (t["fn"] or "") == "core::hash::Hash::hash":
                                hashed.append(t["targs"][0] if t["targs"] else "?")
                bad = [h for h in hashed if not re.search(r"base::name::label::Label$", h.replace("&", "").strip())]
                ctx.ob(R, b, "hash is label-wise", bool(hashed) and not bad,
                       "Hash of a name type must feed the hasher label by label through Label::hash (case-folded, "
                       "representation independent); found hashed types %s" % (hashed,),
                       where="%s:%d" % (im["file"], im["line"]))
            if im["trait"] in (EQ, ORD, PORD, CORD):
                for fname in CMP_FNS[im["trait"]]:
                    b = _impl_fn(F, im, fname)
                    if b is None:
                        continue
                    callees = [(t["fn"] or "") for _, t in b.calls()]
                    ok = any(re.search(r"(ToName|ToRelativeName)::(name_eq|name_cmp|lowercase_composed_cmp|composed_cmp)$", c)
                             or re.search(r"::(cmp|partial_cmp|eq|name_eq|name_cmp)$", c) and "Label" not in c and "[u8]" not in c
                             for c in callees)
                    raw = [c for c in callees if re.search(r"<\[u8\] as core::cmp::(PartialEq|Ord|PartialOrd)", c)
                           or re.search(r"core::slice::cmp::", c)]
                    rawbin = []
                    ctx.ob(R, b, "%s is label-wise" % fname, ok and not raw,
                           "%s of a name type must go through name_eq/name_cmp (label iteration), never a raw "
                           "octet comparison (callees: %s)" % (fname, sorted(set(c.split('::')[-1] for c in callees))[:8]),
                           where="%s:%d" % (im["file"], im["line"]))
    # name_eq / name_cmp themselves iterate labels back to front for ordering
    for tr in ("ToName", "ToRelativeName"):
        b = F.one_body(r"^base::name::traits::%s::name_cmp$" % tr)
        if ctx.anchor(R, "%s::name_cmp" % tr, b):
            deep = sigs.callees_deep(F, b)
            back = any(re.search(r"DoubleEndedIterator::next_back$|Iterator::rev$", t["fn"] or "") for _, _, t in deep)
            lab = any((t["fn"] or "").endswith("core::cmp::Ord::cmp") and t["targs"] and "Label" in t["targs"][0] for _, _, t in deep)
            ctx.ob(R, b, "compares labels from the root leftwards", back and lab,
                   "name_cmp must compare labels right-to-left (RFC 4034 6.1) using Label::cmp")


# ---------------------------------------------------------------------------
# canonical order vs canonical wire order
# ---------------------------------------------------------------------------

def rule_canon(ctx, F):
    R = "C04.canon"
    ctx.floor(R, 120)
    # Record::canonical_cmp: class, owner (name_cmp), rtype, data
    b = F.one_body(r"^<base::record::Record<N, D> as base::cmp::CanonicalOrd<base::record::Record<NN, DD>>>::canonical_cmp$")
    if ctx.anchor(R, "<Record as CanonicalOrd>::canonical_cmp", b):
        seq = []
        for sb, bi, what, x, y in sigs.compare_sites(b, F):
            px = access_path(b, x)
            if px and px[0] == 1 and px[1] and px[1][0] not in [s[0] for s in seq]:
                seq.append((px[1][0], what, bi))
        got = [(f, fn) for f, fn, _ in seq]
        want_fields = ["class", "owner", "rtype()", "data"]
        ctx.ob(R, b, "order class, owner, type, rdata", [g[0] for g in got] == want_fields,
               "RFC 4034 6.3 record order is class, owner name, type, RDATA; found %s" % got)
        own = [g for g in got if g[0] == "owner"]
        ctx.ob(R, b, "owner compared with name_cmp", bool(own) and own[0][1] == "name_cmp",
               "owner names must be compared in canonical name order (name_cmp), found %s" % own)
        dat = [g for g in got if g[0] == "data"]
        ctx.ob(R, b, "rdata compared with canonical_cmp", bool(dat) and dat[0][1] == "canonical_cmp",
               "record data must be compared with canonical_cmp, found %s" % dat)
    sigs.check_canonical_order(ctx, F, R)


# ---------------------------------------------------------------------------
# per-field kind agreement between Hash and PartialEq
# ---------------------------------------------------------------------------

PRIM_INT = {"u8", "u16", "u32", "u64", "u128", "usize", "i8", "i16", "i32", "i64", "isize", "bool", "char"}


def _is_generic_param(ty):
    ty = ty.replace("&", "").strip()
    return re.match(r"^[A-Z][A-Za-z0-9]*$", ty) is not None and ty not in ("Self",)


def _kind_sites(F, b, want_hash):
    """{top field: {(sub path, what, type)}} for Hash::hash calls (want_hash) or comparison sites."""
    out = {}
    if want_hash:
        for sb, bi, t in sigs.callees_deep(F, b, depth=0):
            if (t["fn"] or "").endswith("Hash::hash") and t["args"] and t["targs"]:
                x = sb.term_of_operand(t["args"][0])
                if sb is not b:
                    x = resolve_captures(F, sb, x)
                ap = access_path(b, x)
                if ap and ap[0] == 1 and ap[1]:
                    out.setdefault(ap[1][0], set()).add((tuple(_norm_path(ap[1][1:])), "hash", t["targs"][0]))
    else:
        for sb, bi, what, x, y in sigs.compare_sites(b, F, COMPARATORS):
            ap = access_path(b, x)
            t = sb.blocks[bi]["t"]
            ty = t["targs"][0] if t["k"] == "call" and t["targs"] and t["fn"] and t["fn"].split("::")[-1] == what else "raw"
            if ap and ap[0] == 1 and ap[1]:
                out.setdefault(ap[1][0], set()).add((tuple(_norm_path(ap[1][1:])), what, ty))
    return out


def rule_kind(ctx, F):
    R = "C04.kind"
    ctx.floor(R, 100)
    for im in F.impls:
        adt = im["self_adt"]
        if not adt or not SCOPE.match(adt) or im["trait"] != HASH or im.get("derived"):
            continue
        hb = _impl_fn(F, im, "hash")
        if hb is None:
            continue
        hs = _kind_sites(F, hb, True)
        for im2 in F.impls:
            if im2["self_adt"] != adt or im2["trait"] != EQ or not _same_type_impl(im2):
                continue
            eb = _impl_fn(F, im2, "eq")
            if eb is None:
                continue
            es = _kind_sites(F, eb, False)
            for f in sorted(set(hs) & set(es)):
                for (hsub, _, hty) in sorted(hs[f]):
                    cands = [(esub, what, ety) for (esub, what, ety) in es[f] if esub == hsub]
                    if not cands:
                        continue
                    oks = []
                    for esub, what, ety in cands:
                        h, e = sigs.ty_short(hty), sigs.ty_short(ety)
                        if what == "eq_ignore_ascii_case":
                            ok = True  # folding agreement is C04.fold's business
                        elif ety == "raw":
                            ok = h in PRIM_INT
                        elif what in ("name_eq", "name_cmp"):
                            ok = h not in ("[u8]", "u8") and not h.startswith("[")
                        elif _is_generic_param(hty) or _is_generic_param(ety):
                            ok = not (h in ("[u8]", "u8") or e in ("[u8]", "u8")) or h == e
                        else:
                            ok = h == e
                        oks.append((ok, what, e))
                    ok = any(o for o, _, _ in oks)
                    ctx.ob(R, hb, "field %s%s hashed as it is compared" % (f, ("." + ".".join(hsub)) if hsub else ""), ok,
                           "%s: field %s is hashed as %s but == compares it as %s: values that compare equal "
                           "(e.g. differing only in ASCII case) hash differently"
                           % (adt.split("::")[-1], f, sigs.ty_short(hty), ", ".join("%s via %s" % (e, w) for _, w, e in oks)),
                           nontrivial=any(sigs.ty_short(x[2]) not in PRIM_INT for x in cands))


# ---------------------------------------------------------------------------
# hand-written comparisons of enums cover every variant; comparison and hashing are total
# ---------------------------------------------------------------------------

def _simp(t):
    """resolve `(a, b).0` to `a`: hand-written comparisons match on the tuple (self, other)"""
    t = strip(t, calls=False) if t[0] != "agg" else t
    if t[0] == "field":
        inner = _simp(t[1])
        if inner[0] == "agg" and inner[1][0] == "tuple":
            try:
                return _simp(inner[2][int(t[2])])
            except (ValueError, IndexError, TypeError):
                return t
        return ("field", inner, t[2])
    if t[0] in ("deref", "ref", "downcast"):
        return (t[0], _simp(t[1])) + tuple(t[2:])
    return t


def _root_arg(t):
    for s in walk(_simp(t)):
        if s[0] == "arg":
            return s[1]
    return None


CMP_METHODS = re.compile(r"^<(.+?)(<.*>)? as (core::cmp::PartialEq|core::cmp::PartialOrd|core::cmp::Ord|base::cmp::CanonicalOrd)(<.*>)?>::"
                         r"(eq|partial_cmp|cmp|canonical_cmp)$")


def rule_refl(ctx, F):
    """x == x needs an arm for every variant: a hand-written `match (self, other)` with a catch-all `false` / ordering by
    variant index silently makes values of a forgotten variant unequal to themselves."""
    from rulelib import facts_at
    R = "C04.refl"
    ctx.floor(R, 12)
    for p, b in sorted(F.bodies.items()):
        m = CMP_METHODS.match(p)
        if not m or p.startswith("<new::") or "::test" in p:
            continue
        adt = F.adts.get(m.group(1))
        if not adt or adt.get("kind") != "Enum" or len(adt["variants"]) < 2:
            continue
        if any("discriminant_value" in (t["fn"] or "") for _, t in b.calls()):
            continue        # derived: compares the discriminants first, then like with like
        if not any(v["fields"] for v in adt["variants"]):
            continue
        names = [v["name"] for v in adt["variants"]]
        pairs = set()
        for bi in b.reachable_blocks():
            fa = facts_at(b, bi, F)
            v1 = [v[1] for tt, v, _ in fa if isinstance(v, tuple) and v[0] == "variant" and _root_arg(tt) == 1]
            v2 = [v[1] for tt, v, _ in fa if isinstance(v, tuple) and v[0] == "variant" and _root_arg(tt) == 2]
            for a in v1:
                for c in v2:
                    pairs.add((a, c))
        if not pairs:
            continue        # not a match on both values (delegates to another method): nothing to decide here
        missing = [n for n in names if (n, n) not in pairs]
        ctx.ob(R, b, "%s has an arm for every variant against itself" % m.group(5), not missing,
               "the hand-written %s of %s has no arm comparing %s with itself: such a value falls into the catch-all arm and is "
               "not equal to itself (or is ordered by variant only)" % (m.group(5), m.group(1).split("::")[-1], ", ".join(missing[:6])),
               detail="%d variants, %d like-with-like arms" % (len(names), len([n for n in names if (n, n) in pairs])))


TOTAL_METHODS = re.compile(r" as (core::cmp::PartialEq|core::cmp::PartialOrd|core::cmp::Ord|core::hash::Hash|base::cmp::CanonicalOrd)(<.*>)?>::"
                           r"(eq|ne|partial_cmp|cmp|canonical_cmp|hash)$")


TOTAL_AUDIT = {
    ("Ipseckey", "unreachable"): "reached only if two IPSECKEY values have equal gateway_type but gateways of different variants; gateway_type is "
                                 "derived from the gateway variant in Ipseckey::new, chosen by it in scan/parse and copied by the conversions",
}


def rule_total(ctx, F):
    R = "C04.total"
    n = 0
    scope = 0
    for p, b in sorted(F.bodies.items()):
        if not TOTAL_METHODS.search(p) or p.startswith("<new::") or "::test" in p:
            continue
        scope += 1
        k = 0
        for bi, t in b.calls():
            x = t.get("x") or []
            macros = [mm for mm in x if mm in ("todo", "unimplemented", "unreachable", "panic")]
            if macros and re.search(r"core::panicking::", t["fn"] or ""):
                n += 1
                k += 1
                adt = re.sub(r"<.*$", "", p.lstrip("<")).split("::")[-1]
                why = TOTAL_AUDIT.get((adt, macros[0]))
                ctx.ob(R, b, "%s!#%d" % (macros[0], k), why is not None,
                       "%s contains %s!(): comparing or hashing such a value panics" % (p, macros[0]), b.where(bi),
                       nontrivial=why is None, detail=("audited: " + why) if why else None)
    ctx.ob(R, "comparison and hash impls", "scanned", scope >= 300, "only %d Eq/Ord/Hash/CanonicalOrd method bodies found" % scope,
           nontrivial=False, detail="%d method bodies scanned, %d panic macro(s)" % (scope, n))


# ---------------------------------------------------------------------------
# PartialOrd agrees with Ord
# ---------------------------------------------------------------------------

def rule_po(ctx, F):
    """`partial_cmp` must give `Some(cmp)` (the contract of PartialOrd/Ord; sorting and BTree containers rely on it).  For a
    type with hand-written impls of both, the two compare the same fields in the same order with the same comparator.  An
    `Ord::cmp` that merely forwards to `canonical_cmp` is represented by that function's comparisons."""
    R = "C04.po"
    ctx.floor(R, 60)
    po, oo, co = {}, {}, {}
    for p, b in F.bodies.items():
        if p.startswith("<new::") or "::test" in p:
            continue
        m = re.match(r"^<(.+?)(<.*>)? as core::cmp::PartialOrd(<.*>)?>::partial_cmp$", p)
        if m:
            po.setdefault(m.group(1), []).append(b)
        m = re.match(r"^<(.+?)(<.*>)? as core::cmp::Ord>::cmp$", p)
        if m:
            oo[m.group(1)] = b
        m = re.match(r"^<(.+?)(<.*>)? as base::cmp::CanonicalOrd(<.*>)?>::canonical_cmp$", p)
        if m:
            co.setdefault(m.group(1), []).append(b)
    for adt in sorted(oo):
        if adt not in po:
            continue
        so = [(fx, k) for fx, fy, k in sigs.cmp_sequence(oo[adt], F)]
        via = ""
        if not so and adt in co and any((t["fn"] or "").endswith("canonical_cmp") for _, t in oo[adt].calls()):
            so = [(fx, k) for fx, fy, k in sigs.cmp_sequence(co[adt][0], F)]
            via = " (cmp forwards to canonical_cmp)"
        for pb in po[adt]:
            sp = [(fx, k) for fx, fy, k in sigs.cmp_sequence(pb, F)]
            if not sp or not so:
                continue
            if [f.split(".")[0] for f, _ in sp] != [f.split(".")[0] for f, _ in so]:
                ctx.ob(R, pb, "partial_cmp and cmp compare the same fields in the same order", False,
                       "%s: partial_cmp compares %s, cmp%s compares %s" % (adt.split("::")[-1], [f for f, _ in sp], via, [f for f, _ in so]))
                continue
            for (f, kp), (_, ko) in zip(sp, so):
                ctx.ob(R, pb, "field %s: partial_cmp uses the comparator of cmp" % f, kp == ko,
                       "%s: partial_cmp compares `%s` with %s while cmp%s uses %s: `a < b` and `a.cmp(&b)` can disagree (or "
                       "partial_cmp answers None where cmp has an answer)" % (adt.split("::")[-1], f, kp, via, ko),
                       nontrivial=kp.split(":")[-1] not in PRIM_INT)


# ---------------------------------------------------------------------------
# a hand-written == looks at every field
# ---------------------------------------------------------------------------

IDENT_AUDIT = {
    ("base::record::Record", "ttl"): "RFC 2181 5.2: the TTL is not part of a record's identity (hash ignores it as well, C04.set)",
}


def rule_ident(ctx, F):
    """A value type whose hand-written `==` skips a field makes two values equal that differ in it.  For the opaque carriers
    (unknown record type / unknown SvcParam key) the skipped field is the very thing that tells them apart."""
    R = "C04.ident"
    ctx.floor(R, 40)
    by = _impls_by_adt(F)
    for adt in sorted(by):
        tr = by[adt]
        rec = F.adts.get(adt)
        if EQ not in tr or not rec or rec["kind"] != "Struct":
            continue
        used = set()
        impls = [im for im in tr[EQ] if _same_type_impl(im) and not im.get("derived")]
        for im in impls:
            b = _impl_fn(F, im, "eq")
            if b is not None:
                used |= fields_used(F, b, 1, adt)
        if not used or any(x.startswith("m:") or x == "<self>" for x in used):
            continue
        for f in rec["variants"][0]["fields"]:
            if "PhantomData" in f["ty"]:
                continue
            why = IDENT_AUDIT.get((adt, f["name"]))
            ctx.ob(R, adt, "== looks at field %s" % f["name"], f["name"] in used or why is not None,
                   "%s: the hand-written == never looks at `%s`: two values that differ only in it compare equal (and are "
                   "interchangeable in sets, maps and deduplication)" % (adt.split("::")[-1], f["name"]),
                   where="%s:%d" % (impls[0]["file"], impls[0]["line"]) if impls else "",
                   nontrivial=f["name"] not in used, detail=("audited: " + why) if why and f["name"] not in used else None)


# ---------------------------------------------------------------------------
# mixed-variant arm of an enum comparison
# ---------------------------------------------------------------------------

def rule_mixed(ctx, F):
    """The record-data enums compare two values of *different* variants by their record types.  That is injective only while
    every variant has a type of its own; the `Unknown` variant carries its type as data, so `Unknown(A, ..)` and `A(..)` have
    equal types: if the arm returns the bare type comparison, `cmp` says Equal for two values `==` calls different (sorted
    containers treat the second as a duplicate).  The arm has to break the tie."""
    R = "C04.mixed"
    ctx.floor(R, 6)
    for p, b in sorted(F.bodies.items()):
        m = re.match(r"^<(rdata::\w+RecordData)<.*> as (core::cmp::Ord|core::cmp::PartialOrd<.*>|base::cmp::CanonicalOrd<.*>)>::(cmp|partial_cmp|canonical_cmp)$", p)
        if not m or "::test" in p:
            continue
        adt, meth = m.group(1), m.group(3)
        # is the type of some variant data?  (rtype() has a non-constant arm)
        rb = [bb for pp, bb in F.bodies.items() if re.match(r"^<%s<.*> as base::rdata::RecordData>::rtype$" % re.escape(adt), pp)]
        if len(rb) != 1:
            ctx.undecided_item(R, p, "no unique RecordData::rtype for %s" % adt)
            continue
        data_typed = any(str(r[2]).startswith("call:") for r in return_assignments(rb[0]))
        bare = [r for r in return_assignments(b) if re.match(r"^call:<base::iana::rtype::Rtype as core::cmp::(Ord|PartialOrd)>::(cmp|partial_cmp)$", str(r[2]))]
        ctx.ob(R, b, "values of different variants never compare Equal", not (data_typed and bare),
               "%s::%s answers the bare comparison of the two record types for values of different variants, and the type of "
               "the Unknown variant is data: Unknown(TYPE1, c0000201) and A(192.0.2.1) are `Equal` although `==` says they "
               "differ (a sorted record collection drops one of them as a duplicate)" % (adt.split("::")[-1], meth))


LEN_PREFIXED = re.compile(r"^(rdata::nsec3::Nsec3Salt|rdata::nsec3::OwnerHash|base::charstr::CharStr|rdata::caa::CaaTag)\b")


def rule_lenfirst(ctx, F):
    """A field that goes onto the wire behind its own length octet (NSEC3 salt and owner hash, character strings, CAA tag)
    orders, in canonical order, by that length octet first: in every `canonical_cmp` of a record-data type such a field is
    compared through the field type's own canonical_cmp (which is length-first), never as a plain octet slice
    (`ab` < `aabb` in canonical form, `aabb` < `ab` as slices)."""
    R = "C04.lenfirst"
    ctx.floor(R, 6)
    n = 0
    for im in F.impls:
        if im["trait"] != CORD or not (im["self_adt"] or "").startswith("rdata::"):
            continue
        adt = F.adts.get(im["self_adt"])
        if not adt or not adt.get("variants") or len(adt["variants"]) != 1:
            continue
        ftypes = {(f["name"] if isinstance(f, dict) else f): (f.get("ty", "") if isinstance(f, dict) else "") for f in adt["variants"][0].get("fields", [])}
        for it in im["items"]:
            b = F.bodies.get(it["path"])
            if b is None or it["name"] != "canonical_cmp":
                continue
            seen = set()
            for sb, bi, what, x, y in sigs.compare_sites(b, F):
                ap = access_path(b, x)
                if not ap or ap[0] != 1 or not ap[1]:
                    continue
                fld = ap[1][0]
                ty = ftypes.get(fld, "")
                if not LEN_PREFIXED.match(ty) or fld in seen:
                    continue
                seen.add(fld)
                n += 1
                ctx.ob(R, b, "%s.%s is compared length first" % (im["self_adt"].split("::")[-1], fld), what == "canonical_cmp",
                       "%s::canonical_cmp compares the field `%s` (%s, written behind a length octet) with `%s`: for values of "
                       "different length the result is not the order of the canonical wire forms, so an RRset with two such "
                       "records is signed in an order validators do not reproduce" % (im["self_adt"].split("::")[-1], fld, ty.split("<")[0].split("::")[-1], what),
                       sb.where(bi))
    ctx.call_sites += n


def rule_charlen(ctx, F):
    """RFC 4034 6.3 orders RDATA as octet strings, and a character string's first octet is its length: two character
    strings of different lengths are ordered by length, whatever their content (`\\002aa` > `\\001b`).
    CharStr::canonical_cmp therefore answers the comparison of the two lengths whenever it is not Equal, and compares
    content only behind `lengths Equal` -- the record types with character-string fields (HINFO, NAPTR, ..) delegate
    to it, and the signer sorts with it."""
    from rulelib import facts_at, return_assignments
    R = "C04.charlen"
    ctx.floor(R, 1)
    b = F.one_body(r"^<base::charstr::CharStr<T> as base::cmp::CanonicalOrd<base::charstr::CharStr<U>>>::canonical_cmp$")
    if not ctx.anchor(R, "CharStr::canonical_cmp", b):
        return
    lencmp = []
    for bb, t in b.calls():
        if (t["fn"] or "").endswith("Ord::cmp") and len(t["args"]) == 2:
            a = [deep_strip(b.term_of_operand(x)) for x in t["args"]]
            if all(x[0] == "call" and (x[1] or "").endswith("::len") for x in a) and \
                    {str([y for y in walk(x) if y[0] == "arg"][:1]) for x in a} == {"[('arg', 1)]", "[('arg', 2)]"}:
                lencmp.append(bb)
    returned = False
    for rb, si, kind, term in return_assignments(b):
        if term is not None and any(x[0] == "call" and x[5] in lencmp for x in walk(deep_strip(term))):
            returned = True
        if term is None and str(kind).startswith("call:") and rb in lencmp:
            returned = True     # `_0 = a.len().cmp(&b.len())` directly
    content = [bb for bb, t in b.calls() if (t["fn"] or "").endswith("Ord::cmp") and bb not in lencmp]

    def _is_len(x):
        x = deep_strip(x)
        return x[0] == "call" and (x[1] or "").endswith("::len")

    def _lens_equal(cb):
        for tm, v, _e in facts_at(b, cb, F):
            tm = deep_strip(tm)
            if v in (("variant", "Equal"), ("variant", 0), ("eq", 0)) and any(x[0] == "call" and x[5] in lencmp for x in walk(tm)):
                return True
            if tm[0] == "bin" and tm[1] in ("Eq", "Ne") and _is_len(tm[2]) and _is_len(tm[3]) and v is (tm[1] == "Eq"):
                return True
        return False
    behind = bool(lencmp) and all(_lens_equal(cb) for cb in content)
    ctx.ob(R, b, "character strings of different lengths are ordered by their length octet", bool(lencmp) and returned and behind,
           "CharStr::canonical_cmp %s: `aa` sorts before `b` although on the wire \\\\002aa follows \\\\001b -- an RRset of HINFO / "
           "NAPTR / TXT-like records is put (and signed) in an order no other implementation reproduces"
           % ("does not compare the two lengths" if not lencmp else
              ("does not return the comparison of the lengths" if not returned else "compares content on a path where the lengths were not found Equal")))
